(* run_jsonnum.ml - dispatch of the jsonnum slice (JsonNum); compiled after model_jsonnum.ml and helpers.ml *)
let int_of_z (x : z) : int = if Z.ltb x Z0 then - (int_of_n (Z.abs_N x)) else int_of_n (Z.abs_N x)

let hex_cells (l : n option list) : string =
  if l = [] then "-"
  else String.concat "" (List.map (function Some b -> Printf.sprintf "%02x" (int_of_n b land 255) | None -> "??") l)

(* white space skipped by lyjson_skip_ws() after a token (only the jdoc entry goes through it) *)
let count_ws (s : n list) (from : int) : int =
  let a = Array.of_list (List.map int_of_n s) in
  let rec go i = if i < Array.length a && (a.(i) = 0x20 || a.(i) = 9 || a.(i) = 10 || a.(i) = 13) then go (i + 1) else i in
  go from - from

let show ws (s : n list) =
  match number_c s with
  | JOob -> "OOB"
  | JErr e -> if int_of_n e = 99 then "MODEL-FUEL" else "E"
  | JOk r ->
      let c = int_of_z r.n_consumed in
      Printf.sprintf "%s %d %d" (hex_cells r.n_value) (c + (if ws then count_ws (cstr s) c else 0)) (if r.n_dynamic then 1 else 0)

let run (f : string list) : string =
  match f with
  | ["jnum"; h] -> show false (unhex h)
  | ["jdoc"; h] ->
      (* the document is a bare number or `[` followed by a number (the generator guarantees it) *)
      (match unhex h with
       | b :: r when int_of_n b = 0x5b -> show true r
       | s -> show true s)
  (* 1 when the accepted text and the produced text denote the same number (specification side only) *)
  | ["jden"; h] ->
      let s = unhex h in
      (match number_c s with
       | JOk r -> if denotes_ok (cstr s) r then "1" else "0"
       | _ -> "-")
  | _ -> "?"

let () = main_loop run
