(* run_pathmodel.ml - dispatch of slice pathmodel (coq/PathModel.v); compiled after model_pathmodel.ml and helpers.ml.
   Protocol: header of impl/t_pathmodel.c. The model reads the schema and the tree from the dumps of fields 5 and 6. *)
let bytes_of_str (s : string) : n list = List.init (String.length s) (fun i -> n_of_int (Char.code s.[i]))
let str_of_bytes (l : n list) : string = String.concat "" (List.map (fun x -> String.make 1 (Char.chr (int_of_n x land 255))) l)

let type_of (s : string) : vtype =
  match s with
  | "s" -> TString
  | "i8" -> TInt I8 | "i16" -> TInt I16 | "i32" -> TInt I32 | "i64" -> TInt I64
  | "u8" -> TInt U8 | "u16" -> TInt U16 | "u32" -> TInt U32 | "u64" -> TInt U64
  | "b" -> TBool
  | _ ->
      if String.length s >= 1 && s.[0] = 'e' then
        TEnum (List.map unhex (String.split_on_char '.' (String.sub s 1 (String.length s - 1))))
      else failwith "type"
let str_of_type (t : vtype) : string =
  match t with
  | TString -> "s"
  | TInt I8 -> "i8" | TInt I16 -> "i16" | TInt I32 -> "i32" | TInt I64 -> "i64"
  | TInt U8 -> "u8" | TInt U16 -> "u16" | TInt U32 -> "u32" | TInt U64 -> "u64"
  | TBool -> "b"
  | TEnum l -> "e" ^ String.concat "." (List.map hex l)

let kind_of (s : string) : pkind =
  match String.split_on_char '~' s with
  | ["f0"; t] -> KLeaf (false, type_of t)
  | ["f1"; t] -> KLeaf (true, type_of t)
  | ["T0"; t] -> KLeafList (false, type_of t)
  | ["T1"; t] -> KLeafList (true, type_of t)
  | _ ->
  match s with
  | "c0" -> KCont false
  | "c1" -> KCont true
  | "a" -> KAny
  | "L00" -> KList (false, false)
  | "L01" -> KList (false, true)
  | "L10" -> KList (true, false)
  | "L11" -> KList (true, true)
  | _ -> failwith "kind"
let str_of_kind (k : pkind) : string =
  let b x = if x then "1" else "0" in
  match k with
  | KCont x -> "c" ^ b x
  | KAny -> "a"
  | KLeaf (x, t) -> "f" ^ b x ^ "~" ^ str_of_type t
  | KLeafList (x, t) -> "T" ^ b x ^ "~" ^ str_of_type t
  | KList (x, y) -> "L" ^ b x ^ b y

(* records: depth, module, name, kind, value *)
let records (s : string) =
  if s = "-" || s = "" then []
  else List.map (fun r ->
      match String.split_on_char ',' r with
      | [d; m; n; k] -> (int_of_string d, bytes_of_str m, bytes_of_str n, kind_of k, [])
      | [d; m; n; k; v] -> (int_of_string d, bytes_of_str m, bytes_of_str n, kind_of k, unhex v)
      | _ -> failwith "record") (String.split_on_char ';' s)

let rec build_s d recs =
  match recs with
  | (d', m, n, k, _) :: rest when d' = d ->
      let (ch, rest') = build_s (d + 1) rest in
      let (sibs, rest'') = build_s d rest' in
      (SN (m, n, k, ch) :: sibs, rest'')
  | _ -> ([], recs)
let rec build_d d recs =
  match recs with
  | (d', m, n, k, v) :: rest when d' = d ->
      let (ch, rest') = build_d (d + 1) rest in
      let (sibs, rest'') = build_d d rest' in
      (DN (m, n, k, v, ch) :: sibs, rest'')
  | _ -> ([], recs)

let rec dump_d (d : int) (f : dnode list) : string list =
  List.concat_map (fun x ->
      match x with
      | DN (m, n, k, v, ch) ->
          Printf.sprintf "%d,%s,%s,%s,%s" d (str_of_bytes m) (str_of_bytes n) (str_of_kind k)
            (match k with KLeaf _ | KLeafList _ -> hex v | _ -> "-") :: dump_d (d + 1) ch) f
let dump (f : dnode list) : string = match dump_d 0 f with [] -> "-" | l -> String.concat ";" l

let pos_str (p : nat list) : string = String.concat "." (List.map (fun i -> string_of_int (int_of_nat i)) p)

(* positions of all nodes in document order *)
let rec positions (f : dnode list) (pre : int list) : int list list =
  List.concat (List.mapi (fun i x ->
      match x with DN (_, _, _, _, ch) -> let p = pre @ [i] in p :: positions ch p) f)

let b01 b = if b then "1" else "0"

let answer (s : snode list) (t : dnode list) (q : string) : string =
  if q = "P" then begin
    let ps = positions t [] in
    if ps = [] then "P:-"
    else "P:" ^ String.concat "," (List.map (fun p ->
        match path_of t (List.map nat_of_int p) with Some b -> hex b | None -> "?") ps)
  end else if String.length q >= 2 && q.[0] = 'W' then
    "W:" ^ b01 (swf s) ^ b01 (dwf s t) ^ b01 (quotes_ok t)
  else if String.length q >= 2 && q.[0] = 'Q' then
    (* is the input the example of Properties_C15_pathmodel.v (PathModelP.ex_S_c, ex_t_c)? *)
    "Q:" ^ b01 (s = ex_S_c && t = ex_t_c)
  else begin
    let parts = String.split_on_char ':' q in
    match parts with
    | ["F"; ph] ->
        let path = unhex ph in
        let pf = match parse_path path with Ok _ -> "0" | Err e -> if e = e_UNSUP then "U" else "E" in
        let r = match find_path s t path with
          | FErr e -> "E" ^ string_of_int (int_of_n e)
          | FRes (EFound p) -> "S" ^ pos_str p
          | FRes (EPartial p) -> "I" ^ pos_str p
          | FRes ENone -> "N" in
        "F:" ^ pf ^ ":" ^ r
    | ["Y"; ph] ->
        (* what C15 demands of lyd_find_xpath() on such a path: the node lyd_find_path() finds, nothing else
           (asked for printed paths only; lyd_find_xpath itself is not modelled) *)
        (match find_path s t (unhex ph) with
         | FErr e -> "Y:E" ^ string_of_int (int_of_n e)
         | FRes (EFound p) -> "Y:" ^ pos_str p
         | FRes _ -> "Y:-")
    | ["G"; ph; vh] ->
        (* C15_pathmodel_change_term_paths: the model changes the value (change_term), checks the hypotheses dwf / quotes_ok
           of the changed tree and the conclusions for the changed node; the driver does the same on libyang's tree *)
        (match find_path s t (unhex ph) with
         | FRes (EFound p) ->
             (match change_term t p (unhex vh) with
              | None -> "G:ok"                       (* not a term node, or the text is refused: nothing changes *)
              | Some t' ->
                  if not (dwf s t' && quotes_ok t') then "G:not-wf"
                  else (match path_of t' p with
                        | Some bs ->
                            (match find_path s t' bs, new_path s t' bs [] with
                             | FRes (EFound q), NErr e when q = p && e = e_EXIST -> "G:ok"
                             | _ -> "G:MODEL-BAD")
                        | None -> "G:MODEL-BAD"))
         | _ -> "G:ok")
    | ["N"; ph; vh] ->
        (match new_path s [] (unhex ph) (unhex vh) with
         | NErr e -> "N:E" ^ string_of_int (int_of_n e)
         | NCreated (_, ch) -> "N:" ^ dump ch)
    | ["X"; ph; vh] ->
        (match new_path s t (unhex ph) (unhex vh) with
         | NErr e -> "X:E" ^ string_of_int (int_of_n e)
         | NCreated (a, ch) -> "X:" ^ (match a with Some p -> pos_str p | None -> "-") ^ ":" ^ dump ch)
    | _ -> "?"
  end

let run (f : string list) : string =
  match f with
  | "pm" :: _ty :: _y1 :: _y2 :: _doc :: sd :: td :: qs ->
      (try
         let (s, _) = build_s 0 (records sd) in
         let (t, _) = build_d 0 (records td) in
         String.concat " " (List.map (answer s t) qs)
       with Failure m -> "MODEL-" ^ m)
  | _ -> "?"

let () = main_loop run
