(* run_xmlqn.ml - dispatch of the slice xmlqn (XmlQn.v: the namespace handling of one start tag); compiled after
   model_xmlqn.ml and helpers.ml.
   Case line = a t_doc / lyx script with one pseudo command (the drivers answer ?cmd to commands starting with #):
     qntag TAB #q <element>;<element>;... TAB <commands>
   a chain of nested elements, outermost first; the definitions of a start tag are the scope of the next element.
     element = <hex default namespace>/<metadata>,<metadata>,.../<pieces>
     metadata = <hex prefix of the annotation's module>.<hex namespace>.<hex name>.<pieces>
     pieces = piece+piece+... ; piece = L<hex bytes> | R<hex own prefix of the module>.<hex namespace>   (may be empty)
   The model answers, for every element, the hex of what the printer writes in the start tag after the element name
   (namespace definitions and metadata attributes, XmlDoc.render_attrs of XmlQn.open_tag), joined by " | ". *)
exception Bad of string

let split c s = if s = "" then [] else String.split_on_char c s

let parse_piece (s : string) : piece =
  if s = "" then raise (Bad "piece") else
  let body = String.sub s 1 (String.length s - 1) in
  match s.[0] with
  | 'L' -> Lit (unhex body)
  | 'R' -> (match String.split_on_char '.' body with
            | [p; ns] -> Ref { qm_prefix = unhex p; qm_ns = unhex ns }
            | _ -> raise (Bad ("reference " ^ s)))
  | _ -> raise (Bad ("piece " ^ s))

let parse_pieces (s : string) : piece list = List.map parse_piece (split '+' s)

let parse_meta (s : string) : qmeta =
  match String.split_on_char '.' s with
  | p :: ns :: nm :: rest ->
      { qa_mod = { qm_prefix = unhex p; qm_ns = unhex ns }; qa_name = unhex nm; qa_val = parse_pieces (String.concat "." rest) }
  | _ -> raise (Bad ("metadata " ^ s))

let parse_elem (s : string) : n list * qmeta list * piece list =
  match String.split_on_char '/' s with
  | [ens; metas; v] -> (unhex ens, List.map parse_meta (split ',' metas), parse_pieces v)
  | _ -> raise (Bad ("element " ^ s))

let run (f : string list) : string =
  match f with
  | "qntag" :: q :: _ when String.length q > 3 && String.sub q 0 3 = "#q " ->
      (try
         let elems = List.map parse_elem (split ';' (String.sub q 3 (String.length q - 3))) in
         let (outs, _) =
           List.fold_left (fun (acc, st) (ens, metas, v) ->
             let (attrs, st') = open_tag st ens metas v in
             (hex (render_attrs attrs) :: acc, st')) ([], []) elems in
         String.concat " | " (List.rev outs)
       with Bad m -> "MODEL-BAD " ^ m)
  | _ -> "MODEL-?"

let () = main_loop run
