(* VERIF_USES: tree_io.ml *)
(* run_dflt.ml - dispatch of the dflt slice (Implicit.v, WithDefaults.v); compiled after model_dflt.ml, helpers.ml,
   tree_io.ml.
   Case line = a lyx script with pseudo commands (lyx answers ?cmd to commands starting with #):
     dfltm TAB #s <schema> TAB #n <names> TAB <lyx commands and pseudo commands>
   The model walks over the commands:
     #t <dump with the n flag>   the tree held by slot t0 at this point (taken from a first run of the script on libyang)
     val t0 c0 <opts> t2         validate_all on the current tree   -> V0 <dump> # <net changes>   or  VE
     implicit t0 c0 <opts> t2    implicit_all                        -> I0 <dump> # <net changes>
     print t0 x|j <opts>         wd_print_forest of the current tree -> P[J]<opts> <printed node instances + tags> W= R=<equal to rfc_view_forest>
     #q                          properties of the current tree      -> Q N=<normalb> ...
   every other command is skipped. Answers are joined by " | ". *)
let starts s p = String.length s >= String.length p && String.sub s 0 (String.length p) = p
let after s p = String.sub s (String.length p) (String.length s - String.length p)
let b2s b = if b then "1" else "0"

(* the flag field of every dump entry, in order *)
let dump_flags (s : string) : string list =
  if s = "empty" || s = "" then []
  else List.map (fun e -> match String.split_on_char ':' e with
                          | _ :: _ :: _ :: _ :: fl :: _ -> fl
                          | _ -> "") (List.filter (fun x -> x <> "") (String.split_on_char ';' s))

let new_marker : (n list * n list) = ([], [])

(* parse a dump and put the LYD_NEW marker on the entries whose flags hold n (entries are in DFS pre-order) *)
let parse_dump_new (nt : names) (s : string) : dnode list =
  let f = parse_dump nt s in
  let fl = ref (dump_flags s) in
  let rec go (l : dnode list) : dnode list =
    List.map (fun (DN (sid, v, d, m, ch)) ->
      let isnew = (match !fl with x :: r -> fl := r; String.contains x 'n' | [] -> false) in
      let ch' = go ch in
      DN (sid, v, d, (if isnew then new_marker :: m else m), ch')) l in
  go f

let seg_val (sch : (n * sinfo) list) (s : n) (v : n list) : string =
  match (sget sch s).si_kind with
  | KLeaf | KLeafList -> "=" ^ hex v
  | KAny -> "a" ^ hex v
  | _ -> "i"

(* lyx dump with option 1 (the n flag); metadata other than the marker as in print_dump *)
let print_dump_new (sch : (n * sinfo) list) (nt : names) (f : dnode list) : string =
  if f = [] then "empty"
  else begin
    let b = Buffer.create 1024 in
    let rec go depth (l : dnode list) =
      List.iter (fun (DN (s, v, d, m, ch) as nd) ->
        let (md, nm) = name_of nt (int_of_n s) in
        let si = sget sch s in
        Buffer.add_string b (Printf.sprintf "%d:%s:%s:%s:" depth md nm (seg_val sch s v));
        if d then Buffer.add_char b 'd';
        if d_new nd then Buffer.add_char b 'n';
        if not si.si_config then Buffer.add_char b 's';
        List.iter (fun (k, mv) ->
          if k <> [] then begin
            let ks = string_of_bytes k in
            let i = String.index ks ':' in
            Buffer.add_string b (Printf.sprintf ":@%s:%s=%s" (String.sub ks 0 i)
                                   (String.sub ks (i + 1) (String.length ks - i - 1)) (hex mv))
          end) m;
        Buffer.add_char b ';';
        go (depth + 1) ch) l in
    go 0 f;
    Buffer.contents b
  end

(* one path segment: name, for a list with keys name[hexkey,hexkey] *)
let seg (nt : names) (s : n) (keys : n list list) : string =
  let (_, nm) = name_of nt (int_of_n s) in
  if keys = [] then nm else nm ^ "[" ^ String.concat "," (List.map hex keys) ^ "]"

(* a net change:  <c|d> <path>=<value field>:<d if default>  *)
let fchange_line (sch : (n * sinfo) list) (nt : names) (c : fchange) : string =
  let op = (match c.fc_op with FDel -> "d" | FCre -> "c" | FFlag -> "f" | FRepl -> "r") in
  let segs = List.map (fun (s, k) -> seg nt s k) c.fc_path in
  let s = (match List.rev c.fc_path with (s, _) :: _ -> s | [] -> N0) in
  Printf.sprintf "%s %s%s:%s" op (String.concat "/" segs) (seg_val sch s c.fc_val) (if c.fc_dflt then "d" else "")

let changes_text sch nt (d : change list) : string =
  let ls = List.sort compare (List.map (fchange_line sch nt) (net sch d)) in
  if ls = [] then "none" else String.concat ";" ls

(* printed nodes: depth:name:<hex of the text>:<t if tagged>; *)
let printed_text sch nt (f : dnode list) : string =
  let b = Buffer.create 256 in
  let rec go depth l =
    List.iter (fun (DN (s, v, d, _, ch)) ->
      let (_, nm) = name_of nt (int_of_n s) in
      let txt = (match (sget sch s).si_kind with KLeaf | KLeafList -> hex v | _ -> "-") in
      Buffer.add_string b (Printf.sprintf "%d:%s:%s:%s;" depth nm txt (if d then "t" else ""));
      go (depth + 1) ch) l in
  go 0 f;
  if Buffer.length b = 0 then "nothing" else Buffer.contents b

(* why is g not in normal form: the failing checks of every level *)
let normal_reasons (sch : (n * sinfo) list) (g : dnode list) : string =
  let rs = ref [] in
  let add r = if not (List.mem r !rs) then rs := r :: !rs in
  let rec level (p : n option) (g : dnode list) =
    if List.exists d_new g then add "new";
    if not (cases_okb sch g) then add "cases";
    List.iter (fun s ->
      if not (norm_snode sch g s) then begin
        let dn = List.filter (is_dflt_of s) g and xn = List.filter (is_expl_of s) g in
        let k = (sget sch s).si_kind in
        if dn <> [] && xn <> [] then add "superseded"
        else if dn <> [] && not (active sch g s) then add "leftover"
        else if dn = [] && xn = [] && active sch g s then add "missing"
        else if k = KLeafList && dn <> [] then add "llpartial"
        else add "other"
      end) (schildren sch p);
    List.iter (fun (DN (s, _, d, _, ch)) ->
      (match (sget sch s).si_kind with
       | KCont false -> if d <> List.for_all (fun (DN (_, _, d', _, _)) -> d') ch then add "npflag"
       | _ -> ());
      if is_inner sch s then level (Some s) ch) g in
  level None g;
  String.concat "," (List.sort compare !rs)

(* a silent deletion (NP container, not in the diff) that is / is not followed by a create of the same container *)
let silent_info (d : change list) : string =
  let rec go acc = function
    | [] -> acc
    | c :: r ->
        if c.c_silent then begin
          let DN (s, _, _, _, _) = c.c_node in
          let again = List.exists (fun c' -> c'.c_create && c'.c_path = c.c_path &&
                                             (let DN (s', _, _, _, _) = c'.c_node in s' = s)) r in
          go ((if again then "recreate" else "gone") :: acc) r
        end else go acc r in
  String.concat "," (List.sort_uniq compare (go [] d))

let q_line sch (f : dnode list) (g : dnode list) (d : change list) : string =
  let nb = f = [] || normalb sch g in                 (* LYD_VALIDATE_PRESENT: an empty tree is not validated *)
  (* paths identify nodes only without duplicate-instance lists and without duplicate instances in the input *)
  let ab = not (changes_idb sch d) || not (uniq_idsb sch f) || forest_eqb (np_norm sch (apply_changes sch d f)) g in
  let asb = ab || forest_eqb (np_norm sch (apply_changes_all sch d f)) g in
  Printf.sprintf "Q H=%s N=%s%s A=%s AS=%s F=%s C=%s K=%s D=%s S=%s" (b2s (editedb sch f)) (b2s nb) (if nb then "" else ":" ^ normal_reasons sch g) (b2s ab) (b2s asb)
    (b2s (np_flagsb sch f)) (b2s (canonb sch None g)) (b2s (chc_okb sch && schema_okb sch && sids_uniqb sch && keys_plainb sch))
    (b2s (not (flag_soundb sch f) || flag_soundb sch g)) (silent_info d)

(* why does the hypothesis of the with-defaults theorem fail on f *)
let wd_reasons (sch : (n * sinfo) list) (f : dnode list) : string =
  let rs = ref [] in
  let add r = if not (List.mem r !rs) then rs := r :: !rs in
  let rec go (sibs : dnode list) (l : dnode list) =
    List.iter (fun (DN (s, _, d, _, ch) as nd) ->
      if is_termnode sch nd then begin
        if ch <> [] then add "termch";
        if is_default_val sch nd <> rfc_holds_default sch sibs nd then add "ll";
        if d && not (is_default_val sch nd) then add "unsound"
      end else begin
        (match (sget sch s).si_kind with
         | KCont false -> if d <> List.for_all (fun (DN (_, _, d', _, _)) -> d') ch then add "npflag"
         | _ -> if d then add "otherd");
        go ch ch
      end) l in
  go f f;
  String.concat "," (List.sort compare !rs)

let mode_of (opts : int) : wdmode =
  if opts land 0x10 <> 0 then WdTrim
  else if opts land 0x20 <> 0 then WdAll
  else if opts land 0x40 <> 0 then WdAllTag
  else if opts land 0x80 <> 0 then WdImplTag
  else WdExplicit


(* ---- whenres: WhenRes.wrun on generated dependency graphs.
   whenres TAB #p <n:prefix expr;...> TAB #d <n=v;...> TAB <lyx commands and pseudo commands>
     #p   conditions: expr in prefix form, tokens separated by ',': T | H<d> | E<d>.<v> | N,e | A,e,e | O,e,e
     #d   schema defaults of the leaves
     #lv <n;...>  the leaves that are top-level nodes of the module (the others are children of container box)
     implicit t0 ...            lyd_new_implicit_all = for every module of the context lyd_new_implicit_module, which
                                creates and resolves the module's new top-level nodes and then calls
                                lyd_new_implicit_tree on EVERY root. Seen from module m1: the nested leaves (if box
                                exists already: an earlier module's call got there), the top-level leaves, the nested
                                leaves again (twice). Each phase creates the missing defaults of its level and
                                resolves the conditional ones among them (queue = the new nodes only, all flagged
                                was-true); explicit nodes are neither queued nor judged -> I0 <n=v[d];...> | ISTUCK.
                                When box did not exist before (phases: top-level, nested) and no new top-level
                                condition reads a new nested node - the side condition of C07_when_resolution_phases_ext
                                - the answer ends in J=1 iff ONE wrun over all new nodes gives the same world (J=0
                                would contradict the theorem)
     #new <n> <v> / #free <n>   the edit the neighbouring lyx command makes (lyd_new_path with UPDATE / lyd_free_tree)
     val t0 ...                 missing defaults are created (flagged was-true, as lyd_new_implicit does), every present
                                node with a condition is queued, wrun -> V0 <n=v[d];...> | VE | VSTUCK; afterwards
                                every conditional node is flagged was-true
   The runner keeps the world (present nodes in schema order), which nodes are default and which were true before. *)
let parse_cexp (s : string) : cexp =
  let toks = ref (String.split_on_char ',' s) in
  let next () = match !toks with t :: r -> toks := r; t | [] -> raise (Tree_io "expr") in
  let num t = nat_of_int (int_of_string t) in
  let rec go () =
    let t = next () in
    match t.[0] with
    | 'T' -> CTrue
    | 'H' -> CHas (num (String.sub t 1 (String.length t - 1)))
    | 'E' -> (match String.split_on_char '.' (String.sub t 1 (String.length t - 1)) with
              | [d; v] -> CEq (num d, num v) | _ -> raise (Tree_io "expr"))
    | 'N' -> CNot (go ())
    | 'A' -> let a = go () in let b = go () in CAnd (a, b)
    | 'O' -> let a = go () in let b = go () in COr (a, b)
    | _ -> raise (Tree_io "expr") in
  go ()

let rec cexp_deps (c : cexp) : int list =
  match c with
  | CTrue -> []
  | CHas d -> [int_of_nat d]
  | CEq (d, _) -> [int_of_nat d]
  | CNot a -> cexp_deps a
  | CAnd (a, b) | COr (a, b) -> cexp_deps a @ cexp_deps b

let run_whenres (rest : string list) : string =
  let prog = ref [] and dflts = ref [] and tops = ref [] and box = ref false in
  let world = ref [] (* (n, v) ints, sorted by n *) and isd = ref [] and wt = ref [] and dead = ref false in
  let out = ref [] in
  let emit s = out := s :: !out in
  let items s = List.filter (fun x -> x <> "") (String.split_on_char ';' s) in
  let set n v = world := List.sort compare ((n, v) :: List.filter (fun (m, _) -> m <> n) !world) in
  List.iter (fun cmd ->
    if starts cmd "#p " then
      prog := List.map (fun e -> match String.index_opt e ':' with
        | Some i -> (int_of_string (String.sub e 0 i), parse_cexp (String.sub e (i + 1) (String.length e - i - 1)))
        | None -> raise (Tree_io "prog")) (items (after cmd "#p "))
    else if starts cmd "#d " then
      dflts := List.map (fun e -> match String.split_on_char '=' e with
        | [n; v] -> (int_of_string n, int_of_string v) | _ -> raise (Tree_io "dflt")) (items (after cmd "#d "))
    else if starts cmd "#lv " then tops := List.map int_of_string (items (after cmd "#lv "))
    else if !dead then ()
    else match String.split_on_char ' ' cmd with
      | "implicit" :: "t0" :: _ ->
          let p = List.map (fun (n, c) -> (nat_of_int n, c)) !prog in
          let show () = String.concat "" (List.map (fun (n, v) ->
            Printf.sprintf "%d=%d%s;" n v (if List.mem n !isd then "d" else "")) !world) in
          let phase sel =
            if not !dead then begin
              let fresh = List.filter (fun (n, _) -> sel n && not (List.mem_assoc n !world)) !dflts in
              List.iter (fun (n, v) -> set n v; isd := n :: !isd; wt := n :: !wt) fresh;
              let q = List.filter_map (fun (n, _) ->
                if List.mem_assoc n !prog then Some (nat_of_int n, true) else None) fresh in
              match wrun p (List.map (fun (n, v) -> (nat_of_int n, nat_of_int v)) !world) q with
              | Done w ->
                  world := List.map (fun (n, v) -> (int_of_nat n, int_of_nat v)) w;
                  isd := List.filter (fun n -> List.mem_assoc n !world) !isd;
                  wt := List.filter (fun n -> List.mem_assoc n !world) !wt
              | _ -> emit "ISTUCK"; dead := true
            end in
          let box0 = !box and world0 = !world in
          let missing sel = List.filter (fun (n, _) -> sel n && not (List.mem_assoc n world0)) !dflts in
          let new_t = missing (fun n -> List.mem n !tops) and new_n = missing (fun n -> not (List.mem n !tops)) in
          if not (acyclicb p) then (emit "VCYCLE"; dead := true) else begin
            if !box then phase (fun n -> not (List.mem n !tops));
            phase (fun n -> List.mem n !tops);
            box := true;
            phase (fun n -> not (List.mem n !tops));
            phase (fun n -> not (List.mem n !tops));
            let joint =
              if box0 || !dead then "" else
              let side = List.for_all (fun (n, _) ->
                match List.assoc_opt n !prog with
                | None -> true
                | Some c -> List.for_all (fun d -> not (List.mem_assoc d new_n)) (cexp_deps c)) new_t in
              if not side then "" else begin
                let wall = List.sort compare (world0 @ new_t @ new_n) in
                let q = List.filter_map (fun (n, _) ->
                  if List.mem_assoc n !prog then Some (nat_of_int n, true) else None) (new_t @ new_n) in
                match wrun p (List.map (fun (n, v) -> (nat_of_int n, nat_of_int v)) wall) q with
                | Done w when List.sort compare (List.map (fun (n, v) -> (int_of_nat n, int_of_nat v)) w)
                              = List.sort compare !world -> " J=1"
                | _ -> " J=0"
              end in
            if not !dead then emit ("I0 " ^ show () ^ joint)
          end
      | ["#new"; n; v] ->
          let n = int_of_string n and v = int_of_string v in
          if not (List.mem_assoc n !world) then wt := List.filter (fun m -> m <> n) !wt;
          if not (List.mem n !tops) then box := true;
          set n v; isd := List.filter (fun m -> m <> n) !isd
      | ["#free"; n] ->
          let n = int_of_string n in
          world := List.filter (fun (m, _) -> m <> n) !world;
          isd := List.filter (fun m -> m <> n) !isd; wt := List.filter (fun m -> m <> n) !wt
      | "val" :: "t0" :: _ ->
          box := true;
          List.iter (fun (n, v) -> if not (List.mem_assoc n !world) then begin
            set n v; isd := n :: !isd; wt := n :: !wt end) !dflts;
          let q = List.filter_map (fun (n, _) ->
            if List.mem_assoc n !prog then Some (nat_of_int n, List.mem n !wt) else None) !world in
          let p = List.map (fun (n, c) -> (nat_of_int n, c)) !prog in
          if not (acyclicb p) then (emit "VCYCLE"; dead := true) else
          (match wrun p (List.map (fun (n, v) -> (nat_of_int n, nat_of_int v)) !world) q with
           | Done w ->
               world := List.map (fun (n, v) -> (int_of_nat n, int_of_nat v)) w;
               isd := List.filter (fun n -> List.mem_assoc n !world) !isd;
               wt := List.filter_map (fun (n, _) -> if List.mem_assoc n !prog then Some n else None) !world;
               emit ("V0 " ^ String.concat "" (List.map (fun (n, v) ->
                 Printf.sprintf "%d=%d%s;" n v (if List.mem n !isd then "d" else "")) !world))
           | Err0 _ -> emit "VE"; dead := true
           | Stuck -> emit "VSTUCK"; dead := true)
      | _ -> ()) rest;
  String.concat " | " (List.rev !out)

let run (f : string list) : string =
  match f with
  | "whenres" :: rest -> (try run_whenres rest with Tree_io m -> "E " ^ m | Failure m -> "E " ^ m)
  | "dfltm" :: rest ->
      (try
         let sch = ref [] and nt = ref [] and cur = ref [] and dead = ref false and validated = ref false in
         let out = ref [] in
         let emit s = out := s :: !out in
         List.iter (fun cmd ->
           if starts cmd "#s " then sch := parse_schema (after cmd "#s ")
           else if starts cmd "#n " then nt := parse_names (after cmd "#n ")
           else if starts cmd "#t " then begin
             cur := parse_dump_new !nt (after cmd "#t ");
             validated := false;
             emit ("T " ^ print_dump_new !sch !nt !cur)
           end
           else if cmd = "#q" then begin
             (* properties of the current tree as a validation RESULT (used on a tree libyang produced) *)
             let nb = normalb !sch !cur in
             emit (Printf.sprintf "Q N=%s%s C=%s D=%s" (b2s nb) (if nb then "" else ":" ^ normal_reasons !sch !cur)
                     (b2s (canonb !sch None !cur)) (b2s (flag_soundb !sch !cur)))
           end
           else if !dead then ()
           else begin
             let w = String.split_on_char ' ' cmd in
             match w with
             | "val" :: "t0" :: _ :: _ :: ds ->
                 (match validate_all !sch !cur with
                  | Ok (g, d) ->
                      emit (Printf.sprintf "V0 %s # %s" (print_dump_new !sch !nt g) (if ds = [] then "-" else changes_text !sch !nt d));
                      emit (q_line !sch !cur g d);
                      validated := true;
                      cur := g
                  | Err e -> emit (if int_of_n e = 1 then "VE" else "VFUEL"); dead := true)
             | "implicit" :: "t0" :: _ :: o :: ds ->
                 (match implicit_all !sch (int_of_string o land 1 <> 0) !cur with
                  | Ok (g, d) ->
                      emit (Printf.sprintf "I0 %s # %s" (print_dump_new !sch !nt g) (if ds = [] then "-" else changes_text !sch !nt d));
                      cur := g
                  | Err e -> emit "IFUEL"; dead := true)
             | ["print"; "t0"; ("x" | "j" as fmt); o] ->
                 (* XML and JSON printers share lyd_node_should_print and the tag predicate: one selection for both *)
                 let opts = int_of_string o in
                 let ke = opts land 4 <> 0 in
                 let p = wd_print_forest !sch (mode_of opts) ke !cur in
                 let chk =
                   if ke || not !validated then ""
                   else begin
                     let w = wd_wf_forest !sch !cur in
                     Printf.sprintf " W=%s%s R=%s" (b2s w) (if w then "" else ":" ^ wd_reasons !sch !cur)
                       (b2s (forest_eqb p (rfc_view_forest !sch (mode_of opts) false !cur)))
                   end in
                 emit (Printf.sprintf "P%s%d %s%s" (if fmt = "j" then "J" else "") opts (printed_text !sch !nt p) chk)
             | _ -> ()
           end) rest;
         String.concat " | " (List.rev !out)
       with Tree_io m -> "E " ^ m)
  | _ -> "?"

let () = main_loop run
