(* run_ytext.ml - dispatch of the ytext slice (YangText, PathQuote); compiled after model_ytext.ml and helpers.ml *)
let lexres (total : int) r =
  match r with
  | Err e -> if e = e_NOTQ then "N" else "E"
  | Ok (w, rest) -> Printf.sprintf "%s %d" (hex w) (total - List.length rest)

let b01 b = if b then "1" else "0"

let run (f : string list) : string =
  match f with
  | ["yenc"; h] -> hex (ypr_encode (unhex h))
  | ["yprint"; sh; lv; fl; nm; h] ->
      let fl = int_of_string fl in
      hex (ypr_text (sh = "1") (n_of_dec lv) (unhex nm) (unhex h) (fl land 1 <> 0) (fl land 2 <> 0))
  | ["ylex"; col; h] ->
      let s = unhex h in
      lexres (List.length s) (lex_qstring (n_of_dec col) s)
  | ["yrt"; sh; lv; fl; nm; h] ->
      let fl = int_of_string fl in
      let (hd, q) = ypr_text_parts (sh = "1") (n_of_dec lv) (unhex nm) (unhex h) (fl land 1 <> 0) (fl land 2 <> 0) in
      let r = print_then_lex (sh = "1") (n_of_dec lv) (unhex nm) (unhex h) (fl land 1 <> 0) (fl land 2 <> 0) [n_of_int 59] in
      Printf.sprintf "%s %s" (hex (hd @ q)) (lexres (List.length q + 1) r)
  | ["pathq"; h] ->
      let v = unhex h in
      if not (all_checkutf8 v) then "E"
      else begin
        let pl = leaflist_pred v and pk = list_pred [n_of_int 107] v in
        Printf.sprintf "%s %s %s %s %s %s"
          (hex (path_ll v)) (b01 (pred_finds path_literal None v pl)) (b01 (pred_finds xpath_literal None v pl))
          (hex (path_l v)) (b01 (pred_finds path_literal (Some [n_of_int 107]) v pk))
          (b01 (pred_finds xpath_literal (Some [n_of_int 107]) v pk))
      end
  | _ -> "?"

let () = main_loop run
