(* run_jsonbuf.ml - dispatch of the jsonbuf slice (JsonBuf); compiled after model_jsonbuf.ml and helpers.ml.
   Case: jbuf <events> <hex text>. Events, comma separated: pN plain character of N bytes, rN escape sequence storing
   N bytes, x failing escape, b invalid character, e closing quotation mark, z end of text. The text is only for the
   C driver. Output: ok <dynamic> <length> <calls> / err <calls>; calls: mN malloc, rN realloc, f free. *)
let ev_of (s : string) : ev =
  let num () = n_of_int (int_of_string (String.sub s 1 (String.length s - 1))) in
  match s.[0] with
  | 'p' -> EPlain (num ())
  | 'r' -> EEsc (num ())
  | 'x' -> EEscBad
  | 'b' -> EBadChar
  | 'e' -> EEnd
  | _ -> EEof

let show_tr (tr : al list) : string =
  if tr = [] then "-"
  else String.concat "," (List.map (function AMalloc n -> "m" ^ dec_of_n n | ARealloc n -> "r" ^ dec_of_n n | AFree -> "f") tr)

let show ((rw, tr) : (res * wr list) * al list) : string =
  let (r, ws) = rw in
  let bad = List.exists (function W (p, n, z) -> int_of_n p + int_of_n n > int_of_n z) ws in
  (match r with
   | RErr -> "err"
   | ROk (d, len) -> Printf.sprintf "ok %d %s" (if d then 1 else 0) (dec_of_n len)
   | RFuel -> "MODEL-FUEL") ^ " " ^ show_tr tr ^ (if bad then " MODEL-OVERFLOW" else "")

let run (f : string list) : string =
  let evs s = if s = "-" then [] else List.map ev_of (String.split_on_char ',' s) in
  match f with
  | "jbuf" :: e :: _ -> show (json_string (evs e))
  (* growth by a single step (for experiments, compared with nothing) *)
  | "jbuf1" :: e :: _ -> show (json_string_onestep (evs e))
  | _ -> "?"

let () = main_loop run
