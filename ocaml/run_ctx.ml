(* run_ctx.ml - dispatch of the ctx slice (Context); compiled after model_ctx.ml and helpers.ml.
   Case lines and output format: see the header comment of impl/t_ctx.c. *)
exception Bad

let split c s = if s = "-" || s = "" then [] else String.split_on_char c s

let name_of_char ch = n_of_int (Char.code ch - 97)
let char_of_name x = let i = int_of_n x in if i < 26 then String.make 1 (Char.chr (97 + i)) else Printf.sprintf "<%d>" i
let rev_of_char ch = if ch >= '0' && ch <= '3' then n_of_int (Char.code ch - 48) else raise Bad

(* feature names are f<number> *)
let feat_id (s : string) : n =
  if String.length s < 2 || s.[0] <> 'f' then raise Bad
  else n_of_int (try int_of_string (String.sub s 1 (String.length s - 1)) with _ -> raise Bad)
let feat_str (x : n) : string = Printf.sprintf "f%d" (int_of_n x)

let parse_nr (s : string) : n * n =
  if String.length s <> 2 then raise Bad else (name_of_char s.[0], rev_of_char s.[1])

let parse_mdesc (s : string) : mdesc =
  match String.split_on_char ':' s with
  | [nr; imps; feats; fault] ->
      let (nm, rv) = parse_nr nr in
      let imps = List.map parse_nr (split ',' imps) in
      let feats = List.map (fun f ->
          match String.split_on_char '/' f with
          | [f] -> (feat_id f, [])
          | [f; deps] -> (feat_id f, List.map feat_id (split '+' deps))
          | _ -> raise Bad) (split ',' feats) in
      { d_name = nm; d_rev = rv; d_imps = imps; d_feats = feats; d_fault = n_of_int (int_of_string fault) }
  | _ -> raise Bad

let parse_sel (s : string) : fsel =
  if s = "~" then FNull else if s = "*" then FAll else FList (List.map feat_id (split ',' s))

let parse_op (r : mdesc list) (s : string) : op =
  match String.split_on_char ' ' s with
  | ["P"; i; flt; sel] ->
      let d = (try List.nth r (int_of_string i) with _ -> raise Bad) in
      let d = if flt = "-" then d else { d with d_fault = n_of_int (int_of_string flt) } in
      OpParse (d, parse_sel sel)
  | ["L"; nm; rv; sel] when String.length nm = 1 && String.length rv = 1 ->
      OpLoad (name_of_char nm.[0], rev_of_char rv.[0], parse_sel sel)
  | ["I"; nm; rv; sel] when String.length nm = 1 && String.length rv = 1 ->
      OpImpl (name_of_char nm.[0], rev_of_char rv.[0], parse_sel sel)
  | ["C"] -> OpCompile
  | ["O"; n] -> let n = int_of_string n in
      OpSetOpt { of_expl = n land 1 <> 0; of_impf = n land 2 <> 0; of_refi = n land 4 <> 0; of_priv = n land 16 <> 0 }
  | ["U"; n] -> let n = int_of_string n in
      OpUnsetOpt { of_expl = n land 1 <> 0; of_impf = n land 2 <> 0; of_refi = n land 4 <> 0; of_priv = n land 16 <> 0 }
  | _ -> raise Bad

let b2i b = if b then 1 else 0

let show_comp = function
  | None -> "-"
  | Some l ->
      "[" ^ String.concat "," (List.map (fun (i, f) ->
          let i = int_of_n i in
          if i = 0 then "x_" ^ feat_str f else Printf.sprintf "y%d_%s" (i - 1) (feat_str f)) l) ^ "]"

let no_r = ref false

let show_mod (s : state) (m : modl) : string =
  let flags = b2i m.m_latest + 2 * b2i m.m_lsearch + 4 * b2i m.m_imprev + 8 * b2i m.m_limpclb in
  let feats = String.concat "," (List.map (fun f -> feat_str f.f_name ^ (if f.f_on then "+" else "-")) m.m_feats) in
  let r = match m.m_comp with
    | None -> '0'
    | Some _ -> if kmem (mkey m) (compiled_in s) then '+' else '=' in
  let r = if !no_r then '.' else r in
  Printf.sprintf "%s%d%c%x%c{%s}c=%sr%c" (char_of_name m.m_name) (int_of_n m.m_rev) (if m.m_impl then 'I' else 'i')
    flags (if m.m_tc then 'T' else 't') feats (show_comp m.m_comp) r

let show_q (l : modl option list) : string =
  String.concat "" (List.map (function None -> "-" | Some m -> string_of_int (int_of_n m.m_rev)) l)

let show_state (res : result) (s : state) : string =
  let r = match res with ROk -> "ok" | RErr -> "E" | RNoMod -> "nomod" | RFuel -> "MODEL-FUEL" | RAbort -> "ABORT" in
  Printf.sprintf "%s;cc%c;%s;L:%s;M:%s;hash=ok;O:%d" r (if s.evs = [] then '=' else '+')
    (String.concat " " (List.map (show_mod s) (user_mods s)))
    (show_q (List.map (fun n -> get_latest n s.mods) names))
    (show_q (List.map (fun n -> get_implemented n s.mods) names))
    (b2i s.explicit + 2 * b2i s.xopts.x_impf + 4 * b2i s.xopts.x_refi + 16 * b2i s.xopts.x_priv)

let internal_names = [| "ietf-yang-metadata"; "yang"; "ietf-inet-types"; "ietf-yang-types"; "ietf-yang-schema-mount";
                        "ietf-yang-structure-ext" |]

let show_internals () : string =
  let keys = List.map mkey internal_mods in
  String.concat " " (List.map (fun m ->
      let nm = let i = int_of_n m.m_name - 100 in if i >= 0 && i < 6 then internal_names.(i) else "?" in
      Printf.sprintf "%s:%c:%c:%c:%c:%c:%s" nm (if m.m_impl then 'I' else 'i') (if m.m_single then 'S' else 's')
        (if m.m_hasdep then 'D' else 'd') (if m.m_feats = [] then 'f' else 'F') (if m.m_tc then 'T' else 't')
        (String.concat "," (List.map (fun k -> match index_of k keys with
             | Some i -> string_of_int (int_of_nat i) | None -> "?") m.m_imps))) internal_mods)

let run (f : string list) : string =
  match f with
  | "ctxs" :: expl :: repo :: ops ->
      (try
         let r = List.map parse_mdesc (split ';' repo) in
         let s = ref (init (expl = "1")) in
         let abort = ref false in
         let out = String.concat " | " (List.map (fun o ->
             match (try Some (parse_op r o) with Bad | Failure _ -> None) with
             | None -> "?op"
             | Some o -> let (s', res) = step r !s o in
                         no_r := (match o with OpSetOpt _ | OpUnsetOpt _ -> true | _ -> false);
                         s := s'; if res = RAbort then abort := true; show_state res s') ops) in
         (* builds with assertions abort: the whole case has no output *)
         if !abort then "ABORT" else out
       with Bad | Failure _ -> "?")
  | "ctxq" :: expl :: repo :: ops ->
      (* model only: the side conditions of C09_failed_op_restores_partial along a script. Per operation:
         <result> q<quiescent before> e<obs equal> Q<quiescent after>, and
         THM-VIOLATED when the theorem would be contradicted (never), NOT-PRESERVED when a successful operation
         (compiled at once, or ly_ctx_compile) of a quiescent state gives a state that is not quiescent *)
      (try
         let r = List.map parse_mdesc (split ';' repo) in
         let s = ref (init (expl = "1")) in
         String.concat " | " (List.map (fun os ->
             match (try Some (parse_op r os) with Bad | Failure _ -> None) with
             | None -> "?op"
             | Some o ->
                 let q = quiescent !s in
                 let (s', res) = step r !s o in
                 let e = (obs s' = obs !s) in
                 let q' = quiescent s' in
                 let compiled_now = (not (!s).explicit) || o = OpCompile
                                    || (match o with OpSetOpt _ | OpUnsetOpt _ -> true | _ -> false) in
                 let flag =
                   if q && res = RErr && not e then " THM-VIOLATED"
                   else if q && res = ROk && compiled_now && not q' then " NOT-PRESERVED" else "" in
                 s := s';
                 Printf.sprintf "%s q%d e%d Q%d%s"
                   (match res with ROk -> "ok" | RErr -> "E" | RNoMod -> "nomod" | RFuel -> "FUEL" | RAbort -> "ABORT")
                   (b2i q) (b2i e) (b2i q') flag) ops)
       with Bad | Failure _ -> "?")
  | ["ctxint"] -> show_internals ()
  | _ -> "?"

let () = main_loop run
