(* run_uord.ml - dispatch of the uord slice (DiffUserOrd); compiled after model_uord.ml and helpers.ml.
   Same case lines and result lines as impl/t_uord.c. *)
let parse_csv (s : string) : n list =
  if s = "-" then [] else List.map n_of_dec (String.split_on_char ',' s)

let show_list (l : n list) : string =
  if l = [] then "-" else String.concat "," (List.map dec_of_n l)

(* sibling order from the first sibling, plus the position of the returned pointer when stale *)
let show_st ((l, f) : n list * n option) : string =
  match l, f with
  | [], _ -> "-"
  | h :: _, Some v when v <> h -> show_list l ^ "^" ^ dec_of_n v
  | _, _ -> show_list l

let show_meta (m : n option option) : string =
  match m with
  | None -> "~"
  | Some None -> "-"
  | Some (Some v) -> dec_of_n v

let show_op (o : dop) : string =
  Printf.sprintf "%s:%s:%s:%s"
    (match o.d_op with OpCreate -> "c" | OpDelete -> "d" | OpReplace -> "r")
    (dec_of_n o.d_x) (show_meta o.d_value) (show_meta o.d_orig)

let show_ops (ops : dop list) : string =
  if ops = [] then "-" else String.concat " " (List.map show_op ops)

let parse_meta (s : string) : n option option =
  if s = "~" then None else if s = "-" then Some None else Some (Some (n_of_dec s))

let parse_op (s : string) : dop =
  match String.split_on_char ':' s with
  | [k; x; v; o] ->
      { d_op = (match k with "c" -> OpCreate | "d" -> OpDelete | _ -> OpReplace);
        d_x = n_of_dec x; d_value = parse_meta v; d_orig = parse_meta o }
  | _ -> raise Not_found

let parse_ops (s : string) : dop list =
  if s = "-" then [] else List.map parse_op (String.split_on_char ' ' s)

let show_res (r : (n list * n option) res) : string =
  match r with Err _ -> "E" | Ok s -> show_st s

let do_diff a b =
  let la = parse_csv a and lb = parse_csv b in
  let ops = userord_diff la lb in
  let fwd = show_res (apply_ops_full ops la) in
  let rev =
    match reverse_ops ops with
    | Err _ -> "E | E"
    | Ok r -> show_ops r ^ " | " ^ show_res (apply_ops_full r lb) in
  Printf.sprintf "%s | %s | %s" (show_ops ops) fwd rev

let run (f : string list) : string =
  match f with
  | ["udiff"; a; b] -> do_diff a b
  | ["kdiff"; a; b] -> do_diff a b
  | ["uapply"; l; ops] -> show_res (apply_ops_full (parse_ops ops) (parse_csv l))
  | _ -> "?"

let () = main_loop run
