(* run_ht.ml - dispatch of the ht slice (HashFn, HashTable, Dict); compiled after model_ht.ml and helpers.ml *)

let norec = n_of_dec "4294967295"

let err_name e =
  match int_of_n e with
  | 100 -> "ABORT"
  | 101 -> "OOB"
  | 102 -> "FUEL"
  | k -> Printf.sprintf "E%d" k

(* dump of the table internals, same format as dump_ht() of impl/t_ht.c *)
let dump (pv : 'v -> string) (t : 'v ht) : string =
  let b = Buffer.create 256 in
  let size = int_of_n t.ht_size in
  let recs = Array.of_list t.ht_recs in
  Buffer.add_string b
    (Printf.sprintf "S%d U%s R%s F%s |" size (dec_of_n t.ht_used) (dec_of_n t.ht_resize) (dec_of_n t.ht_ff));
  List.iteri
    (fun i hl ->
      if hl.hl_first <> norec || hl.hl_last <> norec then begin
        Buffer.add_string b (Printf.sprintf " %d[%s,%s]:" i (dec_of_n hl.hl_first) (dec_of_n hl.hl_last));
        let idx = ref hl.hl_first and steps = ref 0 and first = ref true in
        while !idx <> norec && !steps <= size do
          if not !first then Buffer.add_char b ',';
          first := false;
          let k = int_of_n !idx in
          if k >= Array.length recs then begin
            Buffer.add_string b ("!" ^ dec_of_n !idx);
            idx := norec
          end else begin
            let r = recs.(k) in
            Buffer.add_string b (Printf.sprintf "%d/%s/%s" k (dec_of_n r.r_hash) (pv r.r_val));
            idx := r.r_next
          end;
          incr steps
        done
      end)
    t.ht_hl;
  Buffer.add_string b " | free:";
  let idx = ref t.ht_ff and steps = ref 0 in
  while int_of_n !idx < size && !idx <> norec && !steps <= size do
    Buffer.add_string b (dec_of_n !idx);
    Buffer.add_char b ',';
    idx := recs.(int_of_n !idx).r_next;
    incr steps
  done;
  Buffer.add_string b (">" ^ dec_of_n !idx);
  Buffer.contents b

let split_on c s = if s = "" || s = "-" then [] else String.split_on_char c s

let parse_hv s =
  (* <hash>:<val> *)
  match String.split_on_char ':' s with
  | [h; v] -> (n_of_dec h, n_of_dec v)
  | _ -> failwith "hv"

let parse_hop (s : string) : hop =
  let rest = String.sub s 1 (String.length s - 1) in
  match s.[0] with
  | 'i' -> let (h, v) = parse_hv rest in OpIns (h, v)
  | 'I' -> let (h, v) = parse_hv rest in OpInsNC (h, v)
  | 'r' -> let (h, v) = parse_hv rest in OpRem (h, v)
  | 'f' -> let (h, v) = parse_hv rest in OpFind (h, v)
  | 'n' -> let (h, v) = parse_hv rest in OpNext (h, v)
  | 'c' -> let (h, v) = parse_hv rest in OpNextCol (h, v)
  | 'd' -> OpDup
  | _ -> failwith "op"

let parse_dop (s : string) : dop =
  let rest = unhex (String.sub s 1 (String.length s - 1)) in
  match s.[0] with
  | '+' -> DIns rest
  | '-' -> DRem rest
  | '*' -> DDup rest
  | '=' -> DInsZc rest
  | _ -> failwith "dop"

let run (f : string list) : string =
  match f with
  | ["hash"; h] -> dec_of_n (lyht_hash (unhex h))
  | ["hashm"; init; h] ->
      dec_of_n (lyht_hash_multi (n_of_dec init) (if h = "NULL" then None else Some (unhex h)))
  | ["ht"; size; rz; _valsize; script] ->
      (match lyht_new N0 (n_of_dec size) (n_of_dec rz) with
       | Err e -> err_name e
       | Ok t ->
           let ops = List.map parse_hop (split_on ',' script) in
           let (outs, fin) = nht_run t ops [] in
           let so =
             String.concat " "
               (List.map
                  (fun (c, v) ->
                    match v with
                    | None -> dec_of_n c
                    | Some x -> dec_of_n c ^ "=" ^ dec_of_n x)
                  outs) in
           so ^ " || " ^ (match fin with Ok t' -> dump dec_of_n t' | Err e -> err_name e))
  | ["dict"; size; script] ->
      (match lydict_init (n_of_dec size) with
       | Err e -> err_name e
       | Ok d ->
           let ops = List.map parse_dop (split_on ',' script) in
           let (outs, fin) = dict_run d ops [] in
           let so = String.concat " " (List.map (fun (c, s) -> dec_of_n c ^ "=" ^ hex s) outs) in
           so ^ " || "
           ^ (match fin with
              | Ok d' -> dump (fun (s, c) -> hex s ^ "*" ^ dec_of_n c) d'
              | Err e -> err_name e))
  | "own" :: cmds ->
      (* projection of an impl/t_own.c script onto the ownership model (Own.script_ops): kind of each command by its name *)
      let kind c =
        let ws = String.split_on_char ' ' c in
        let w = List.hd ws in
        let upd = (* path N ctx path val opts [...] : LYD_NEW_PATH_UPDATE = 0x20 *)
          (w = "path" || w = "path1") && List.length ws > 5
          && (match int_of_string_opt (List.nth ws 5) with Some o -> o land 0x20 <> 0 | None -> false) in
        if List.mem w ["dup"; "dupmeta"] then 2
        else if upd || List.mem w ["chg"; "chgmeta"; "chgcanon"; "chgbin"; "anycopy"] then 3
        else if List.mem w ["val"; "valmod"; "valop"] then 4
        else if List.mem w ["parse"; "parsep"; "parseop"; "term"; "inner"; "list"; "list2"; "any"; "opaq"; "opaq2"; "meta"; "attr"; "path";
                            "path1"; "diff"; "rev"; "lybrt"; "merge"; "apply"; "dmerge"; "impl"; "ins"; "unlink"; "lys"] then 0
        else 1 in
      let (d, e) = own_script_delta (List.map (fun c -> n_of_int (kind c)) cmds) in
      "d" ^ dec_of_n d ^ ":e" ^ dec_of_n e
  | _ -> "?"

let () = main_loop run
