(* modelrun.ml — line-protocol driver around the OCaml extracted from the Coq models.
   Same input as the C drivers in ../impl (one case per line, TAB separated, hex byte strings),
   one output line per case. *)
open Model

let rec pos_of_int (i : int) : positive =
  if i = 1 then XH
  else if i land 1 = 0 then XO (pos_of_int (i lsr 1))
  else XI (pos_of_int (i lsr 1))
let n_of_int (i : int) : n = if i = 0 then N0 else Npos (pos_of_int i)
let rec int_of_pos = function
  | XH -> 1
  | XO p -> 2 * int_of_pos p
  | XI p -> 2 * int_of_pos p + 1
let int_of_n = function N0 -> 0 | Npos p -> int_of_pos p
let rec nat_of_int i = if i = 0 then O else S (nat_of_int (i - 1))
let rec int_of_nat = function O -> 0 | S k -> 1 + int_of_nat k

(* decimal strings of arbitrary size <-> N / Z (values can exceed 63 bits) *)
let n_of_dec (s : string) : n =
  let ten = n_of_int 10 in
  let acc = ref N0 in
  String.iter (fun ch -> acc := N.add (N.mul ten !acc) (n_of_int (Char.code ch - 48))) s;
  !acc
let dec_of_n (x : n) : string =
  if x = N0 then "0"
  else begin
    let ten = n_of_int 10 in
    let b = Buffer.create 20 in
    let rec go x acc =
      if x = N0 then acc
      else go (N.div x ten) (Char.chr (48 + int_of_n (N.modulo x ten)) :: acc) in
    List.iter (Buffer.add_char b) (go x []);
    Buffer.contents b
  end

let hexd c =
  match c with
  | '0' .. '9' -> Char.code c - 48
  | 'a' .. 'f' -> Char.code c - 87
  | 'A' .. 'F' -> Char.code c - 55
  | _ -> 0
let unhex (h : string) : n list =
  if h = "-" then []
  else begin
    let len = String.length h / 2 in
    let rec go i acc =
      if i < 0 then acc
      else go (i - 1) (n_of_int ((hexd h.[2 * i] lsl 4) lor hexd h.[2 * i + 1]) :: acc) in
    go (len - 1) []
  end
let hex (l : n list) : string =
  if l = [] then "-"
  else begin
    let b = Buffer.create 64 in
    List.iter (fun x -> Buffer.add_string b (Printf.sprintf "%02x" (int_of_n x land 255))) l;
    Buffer.contents b
  end

let split_tab s = String.split_on_char '\t' s

let run (f : string list) : string =
  match f with
  | ["getutf8"; h] ->
      (match getutf8 (unhex h) with
       | None -> "E"
       | Some (cp, len) -> Printf.sprintf "%s %d" (dec_of_n cp) (int_of_nat len))
  | ["pututf8"; v] ->
      (match pututf8 (n_of_dec v) with None -> "E" | Some bs -> hex bs)
  | ["checkutf8"; h] ->
      (match unhex h with
       | [] -> "E"
       | s -> (match checkutf8 s with None -> "E" | Some u -> string_of_int (int_of_nat u)))
  | ["xmlesc"; a; h] -> hex (xml_esc (a = "1") (unhex h))
  | ["xmlval"; e; h] ->
      let s = unhex h in
      (match xml_value (n_of_dec e) s with
       | Err _ -> "E"
       | Ok ((v, rest), ws) ->
           Printf.sprintf "%s %d %d" (hex v) (List.length s - List.length rest) (if ws then 1 else 0))
  | _ -> "?"

let () =
  try
    while true do
      let line = input_line stdin in
      let out = try run (split_tab line) with Stack_overflow -> "MODEL-STACK" in
      print_string out;
      print_char '\n'
    done
  with End_of_file -> ()
