(* VERIF_USES: tree_io.ml *)
(* run_difftree.ml - dispatch of the difftree slice (DiffTree.v, DiffRev.v, DiffMerge.v); compiled after
   model_difftree.ml, helpers.ml, tree_io.ml.
   Case line (also a valid lyx script: lyx answers ?cmd to the pseudo commands that start with #):
     dtree TAB #s <schema line> TAB #n <name table> TAB #a <dump A> TAB #b <dump B> TAB #c <dump C> TAB <lyx commands>
   Answer (sections separated by " | "; a diff is printed as a dump whose metadata are in the order operation,
   orig-default, orig-value; an error is E<code>):
     hyp=<checks of the theorem hypotheses on A,B,C>
     for options 1 (LYD_DIFF_DEFAULTS) then 0:  diff(A,A)  diff(A,B)  apply(diff(A,B),A)
     then with LYD_DIFF_DEFAULTS: reverse(diff(A,B))  apply(that,B)  diff(B,C)  merge(diff(A,B),diff(B,C)) [options 0]
     apply(that,A)  merge [LYD_DIFF_MERGE_DEFAULTS]  apply(that,A)  diff(B,A)  merge(diff(A,B),diff(B,A))  apply(that,A) *)
let field (f : string list) (tag : string) : string =
  let p = "#" ^ tag ^ " " in
  let pl = String.length p in
  let rec go = function
    | [] -> raise (Tree_io ("missing #" ^ tag))
    | x :: r -> if String.length x >= pl && String.sub x 0 pl = p then String.sub x pl (String.length x - pl) else go r in
  go f

let bs = bytes_of_string
let k_op = bs "yang:operation" and k_od = bs "yang:orig-default" and k_ov = bs "yang:orig-value"

let op_str = function OpCreate -> "create" | OpDelete -> "delete" | OpReplace -> "replace" | OpNone -> "none"
let op_of_str s = match s with
  | "create" -> OpCreate | "delete" -> OpDelete | "replace" -> OpReplace | "none" -> OpNone
  | _ -> raise (Tree_io ("operation " ^ s))

(* diff tree -> data tree with metadata (for print_dump) *)
let rec dn_of_dd (DD (s, v, f, op, od, ov, ch)) : dnode =
  let m = (match op with Some o -> [(k_op, bs (op_str o))] | None -> [])
          @ (match od with Some b -> [(k_od, bs (if b then "true" else "false"))] | None -> [])
          @ (match ov with Some x -> [(k_ov, x)] | None -> []) in
  DN (s, v, f, m, List.map dn_of_dd ch)

(* data tree with metadata (parse_dump of a diff printed by lyx) -> diff tree *)
let rec dd_of_dn (DN (s, v, f, m, ch)) : dd =
  let find k = try Some (List.assoc k m) with Not_found -> None in
  List.iter (fun (k, _) -> if k <> k_op && k <> k_od && k <> k_ov then raise (Tree_io "other metadata in a diff")) m;
  DD (s, v, f,
      (match find k_op with Some x -> Some (op_of_str (string_of_bytes x)) | None -> None),
      (match find k_od with Some x -> Some (string_of_bytes x = "true") | None -> None),
      find k_ov, List.map dd_of_dn ch)

let run (f : string list) : string =
  match f with
  | "dtree" :: rest ->
      (try
         let sch = parse_schema (field rest "s") in
         let nt = parse_names (field rest "n") in
         let a = parse_dump nt (field rest "a") in
         let b = parse_dump nt (field rest "b") in
         let c = parse_dump nt (field rest "c") in
         let pd = print_dump sch nt in
         let pdd d = pd (List.map dn_of_dd d) in
         let pr_d = function Ok d -> pdd d | Err e -> "E" ^ string_of_int (int_of_n e) in
         let pr_f = function Ok x -> pd x | Err e -> "E" ^ string_of_int (int_of_n e) in
         let bind r g = match r with Ok x -> g x | Err e -> Err e in
         let out = ref [] in
         let add s = out := s :: !out in
         let b2s x = if x then "1" else "0" in
         add (Printf.sprintf "hyp=%s%s%s%s%s%s" (b2s (schema_okb sch))
                (b2s (canonb sch None a && canonb sch None b && canonb sch None c))
                (b2s (uniq_idsb sch a && uniq_idsb sch b && uniq_idsb sch c))
                (b2s (supportedb sch a && supportedb sch b && supportedb sch c))
                (b2s (wfb sch a && wfb sch b && wfb sch c)) (b2s (schema_nouo sch)));
         List.iter (fun o ->
           add (pr_d (diff sch o a a));
           let d = diff sch o a b in
           add (pr_d d);
           add (pr_f (bind d (fun d -> apply sch d a)))) [true; false];
         (* the conjectured law without the defaults option, evaluated on the model: explicit nodes agree *)
         add (match bind (diff sch false a b) (fun d -> apply sch d a) with
              | Ok r -> if forest_eqb (strip_dflt r) (strip_dflt b) then "nd=1" else "nd=0"
              | Err _ -> "nd=E");
         let d = diff sch true a b in
         let r = bind d (fun d -> reverse sch d) in
         add (pr_d r);
         add (pr_f (bind r (fun r -> apply sch r b)));
         let d2 = diff sch true b c in
         add (pr_d d2);
         List.iter (fun mo ->
           let m = bind d (fun d -> bind d2 (fun d2 -> merge sch mo (List.map redup d) d2)) in
           add (pr_d m);
           add (pr_f (bind m (fun m -> apply sch m a)))) [false; true];
         let db = diff sch true b a in
         add (pr_d db);
         let u = bind d (fun d -> bind db (fun db -> merge sch false (List.map redup d) db)) in
         add (pr_d u);
         add (pr_f (bind u (fun u -> apply sch u a)));
         String.concat " | " (List.rev !out)
       with Tree_io m -> "E " ^ m)
  | _ -> "?"

let () = main_loop run
