(* run_yl.ml - dispatch of the yl slice (ModHash, YangLib); compiled after model_yl.ml and helpers.ml.
   Record syntax: see impl/t_yl.c *)
let split c s = String.split_on_char c s

exception Unloadable
type srec = { extra : bool; hm : hmod; imports : (n list * n list option) list;
              suborder : int list;                                   (* submodule numbers in includes-array order *)
              deps : ((n list * n list option) * bool) list }        (* imports with ^a (false) / ^d (true) *)

let parse_feat s =
  match split ':' s with
  | [h; e] | [h; e; _] -> { f_name = unhex h; f_en = (e = "1") }     (* the if-feature dependency is not modelled *)
  | _ -> failwith "feat"

let parse_group g = if g = "" then [] else List.map parse_feat (split '+' g)

let parse_import_k s =
  let s, kind = (match String.index_opt s '^' with
                 | Some i -> (String.sub s 0 i, Some (String.sub s (i + 1) (String.length s - i - 1)))
                 | None -> (s, None)) in
  let imp = (match split '@' s with
    | [n] -> (unhex n, None)
    | [n; r] -> (unhex n, Some (unhex r))
    | _ -> failwith "import") in
  (imp, kind)

let parse_rec (field : string) : srec =
  let extra = String.length field > 0 && field.[0] = '+' in
  let field = if extra then String.sub field 1 (String.length field - 1) else field in
  let parts = split ',' field in
  let parts, subg = (match parts with [a; b; c; d; e; g] -> ([a; b; c; d; e], Some g) | _ -> (parts, None)) in
  match parts with
  | [nm; rv; im; gs; is] ->
      let groups = List.map parse_group (split ';' gs) in
      (* with a submodule graph the feature arrays follow the includes array that the model computes; a graph that
         the model refuses, or an enabled feature in a submodule that is never loaded, makes the record unloadable *)
      let suborder = ref (List.init (max 0 (List.length groups - 1)) (fun k -> k + 1)) in
      let groups = (match subg with
        | None -> groups
        | Some g ->
            let w = split ';' g in
            let v11 = (List.hd w = "1") in
            let incs = List.map (fun l -> if l = "" then [] else List.map (fun x -> nat_of_int (int_of_string x)) (split '+' l))
                         (List.tl w) in
            let rec pad l n = if List.length l >= n then l else pad (l @ [[]]) n in
            let incs = pad incs (List.length groups) in
            (match includes_order v11 incs with
             | Err _ -> raise Unloadable
             | Ok order ->
                 let live = List.map int_of_nat order in
                 suborder := live;
                 List.iteri (fun k grp -> if k > 0 && not (List.mem k live) && List.exists (fun f -> f.f_en) grp
                                          then raise Unloadable) groups;
                 List.hd groups :: regroup groups order)) in
      let fs, subs = (match groups with [] -> ([], []) | g :: r -> (g, r)) in
      { extra;
        hm = { h_name = unhex nm; h_rev = (if rv = "-" then None else Some (unhex rv)); h_impl = (im = "1");
               h_feats = fs; h_subs = subs };
        imports = (if is = "" then [] else List.map (fun x -> fst (parse_import_k x)) (split '+' is));
        suborder = !suborder;
        deps = (if is = "" then [] else
                List.filter_map (fun x -> match parse_import_k x with
                                          | (i, Some "d") -> Some (i, true) | (i, Some _) -> Some (i, false) | _ -> None)
                  (split '+' is)) }
  | _ -> failwith "rec"

let show_feat f = hex f.f_name ^ ":" ^ (if f.f_en then "1" else "0")
let show_group g = String.concat "+" (List.map show_feat g)
let show_hmod m =
  Printf.sprintf "%s,%s,%s,%s" (hex m.h_name) (match m.h_rev with None -> "-" | Some r -> hex r)
    (if m.h_impl then "1" else "0") (String.concat ";" (List.map show_group (m.h_feats :: m.h_subs)))
let show_records ms = if ms = [] then "-" else String.concat "|" (List.map show_hmod ms)

(* split the fields at "/" *)
let rec split_slash acc = function
  | [] -> (List.rev acc, [])
  | "/" :: r -> (List.rev acc, r)
  | x :: r -> split_slash (x :: acc) r

let in_ctx recs = List.map (fun r -> r.hm) (List.filter (fun r -> not r.extra) recs)

(* yang-library part *)
let bytes_of_string (s : string) : n list = List.init (String.length s) (fun i -> n_of_int (Char.code s.[i]))
let ymod_of (r : srec) : ymod =
  { y_mod = r.hm; y_ns = bytes_of_string "urn:yl:" @ r.hm.h_name; y_imports = r.imports;
    (* submodule k of module n is n-s<k>; it carries the revision of the module *)
    y_subs = List.map (fun k -> (r.hm.h_name @ bytes_of_string (Printf.sprintf "-s%d" k), r.hm.h_rev)) r.suborder;
    y_deps = r.deps }
let hexl l = String.concat "+" (List.map hex l)
let show_subs l = String.concat "+" (List.map (fun (nm, rv) -> hex nm ^ "@" ^ (match rv with None -> "-" | Some r -> hex r)) l)
let show_entries (y : yl) : string =
  let ms = List.map (fun e -> Printf.sprintf "m:%s,%s,%s,%s,%s,%s" (hex e.ym_name)
                        (match e.ym_rev with None -> "-" | Some r -> hex r) (hex e.ym_ns) (hexl e.ym_features)
                        (hexl e.ym_deviations) (show_subs e.ym_submodules)) y.yl_modules in
  let is = List.map (fun e -> Printf.sprintf "i:%s,%s,%s,%s" (hex e.yi_name) (hex e.yi_rev) (hex e.yi_ns)
                        (show_subs e.yi_submodules)) y.yl_imponly in
  String.concat "|" (ms @ is)
let rec drop k l = if k = 0 then l else match l with [] -> [] | _ :: r -> drop (k - 1) r

(* P:idx:features *)
let parse_fspec = function
  | "~" -> F_keep
  | "*" -> F_all
  | "-" -> F_list []
  | l -> F_list (List.map unhex (split '+' l))
let is_pre f = String.length f > 2 && String.sub f 0 2 = "P:"
let parse_pre (rs : srec list) (f : string) =
  match split ':' f with
  | [_; i; fs] -> let r = List.nth rs (int_of_string i) in ((r.hm.h_name, r.hm.h_rev), parse_fspec fs)
  | _ -> failwith "pre"

let show_hash = function None -> "MODEL-FUEL" | Some h -> dec_of_n h

let run (f : string list) : string =
  try
    match f with
    | "modhash" :: _opts :: recs ->
        let ms = in_ctx (List.map parse_rec recs) in
        show_records ms ^ " " ^ show_hash (modhash ms)
    | "hashpair" :: _opts :: rest ->
        let a, b = split_slash [] rest in
        let h l = show_hash (modhash (in_ctx (List.map parse_rec l))) in
        h a ^ " " ^ h b
    | "ylrt" :: _opts :: rest ->
        let pres = List.filter is_pre rest and recs = List.filter (fun f -> not (is_pre f)) rest in
        let rs = List.map parse_rec recs in
        let src = List.map ymod_of rs in
        let a = settle (initial_ctx @ List.map ymod_of (List.filter (fun r -> not r.extra) rs)) in
        let y = describe [] a in
        let c0 = preload src initial_ctx (List.map (parse_pre rs) pres) in
        (match rebuild y src c0 with
         | Ok b -> show_entries y ^ " 0 0 " ^ show_records (drop (List.length initial_ctx) (ctx_obs b))
         | Err e -> show_entries y ^ " 0 E" ^ dec_of_n e ^ " -")
    | "chg" :: opts :: rest when (int_of_string opts) land 128 <> 0 ->
        (* the counter events of ly_ctx_load_module / lys_set_implemented under LY_CTX_EXPLICIT_COMPILE; per operation
           0:0:<events>:<modules added>:<records changed>, E for a failing operation *)
        let recs, ops = split_slash [] rest in
        let rs = List.map parse_rec recs in
        let src = List.map ymod_of rs in
        let rec take k l = if k = 0 then [] else match l with [] -> [] | x :: r -> x :: take (k - 1) r in
        let c0 = if (int_of_string opts) land 4 <> 0 then take 6 initial_ctx else initial_ctx in
        let c = ref c0 in
        let one op =
          match split ':' op with
          | [kind; i; fs] ->
              let r = List.nth rs (int_of_string i) in
              let res = (if kind = "L" then load_op true true src !c r.hm.h_name r.hm.h_rev (parse_fspec fs)
                         else set_impl_op true true !c (r.hm.h_name, r.hm.h_rev) (parse_fspec fs)) in
              (match res with
               | Err _ -> "E"
               | Ok (c', n) ->
                   let added = List.length c' - List.length !c in
                   let changed = if ctx_obs c' = ctx_obs !c then 0 else 1 in
                   c := c';
                   Printf.sprintf "0:0:%s:%d:%d" (dec_of_n n) added changed)
          | _ -> "E" in
        String.concat " " ("0" :: List.map one ops)
    | "ccwrap" :: start :: ns ->
        String.concat "," (List.map dec_of_n (cc_run (n_of_dec start) (List.map n_of_dec ns)))
    | _ -> "?"
  with Failure _ -> "?rec" | Unloadable -> "E"

let () = main_loop run
