(* run_xml.ml - dispatch of the xml slice (Utf8, XmlText); compiled after model_xml.ml and helpers.ml *)
let run (f : string list) : string =
  match f with
  | ["getutf8"; h] ->
      (match getutf8 (unhex h) with
       | None -> "E"
       | Some (cp, len) -> Printf.sprintf "%s %d" (dec_of_n cp) (int_of_nat len))
  | ["pututf8"; v] ->
      (match pututf8 (n_of_dec v) with None -> "E" | Some bs -> hex bs)
  | ["checkutf8"; h] ->
      (match unhex h with
       | [] -> "E"
       | s -> (match checkutf8 s with None -> "E" | Some u -> string_of_int (int_of_nat u)))
  | ["xmlesc"; a; h] -> hex (xml_esc (a = "1") (unhex h))
  | ["xmlval"; e; h] ->
      let s = unhex h in
      (match xml_value (n_of_dec e) s with
       | Err _ -> "E"
       | Ok ((v, rest), ws) ->
           Printf.sprintf "%s %d %d" (hex v) (List.length s - List.length rest) (if ws then 1 else 0))
  | ["xmlrt"; a; h] ->
      (* same as the C driver: print, terminator and a slash, read back *)
      let attr = (a = "1") in
      let endc = n_of_int (if attr then 34 else 60) in
      let printed = xml_esc attr (unhex h) in
      (match xml_value endc (printed @ [endc; n_of_int 47]) with
       | Err _ -> "E parse"
       | Ok ((v, rest), ws) ->
           Printf.sprintf "%s %d %d" (hex v) (if List.length rest = 2 then 1 else 0) (if ws then 1 else 0))
  | _ -> "?"

let () = main_loop run
