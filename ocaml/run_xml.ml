(* run_xml.ml - dispatch of the xml slice (Utf8, XmlText); compiled after model_xml.ml and helpers.ml *)
let run (f : string list) : string =
  match f with
  | ["getutf8"; h] ->
      (match getutf8 (unhex h) with
       | None -> "E"
       | Some (cp, len) -> Printf.sprintf "%s %d" (dec_of_n cp) (int_of_nat len))
  | ["pututf8"; v] ->
      (match pututf8 (n_of_dec v) with None -> "E" | Some bs -> hex bs)
  | ["checkutf8"; h] ->
      (match unhex h with
       | [] -> "E"
       | s -> (match checkutf8 s with None -> "E" | Some u -> string_of_int (int_of_nat u)))
  | ["xmlesc"; a; h] -> hex (xml_esc (a = "1") (unhex h))
  | ["xmlval"; e; h] ->
      let s = unhex h in
      (match xml_value (n_of_dec e) s with
       | Err _ -> "E"
       | Ok ((v, rest), ws) ->
           Printf.sprintf "%s %d %d" (hex v) (List.length s - List.length rest) (if ws then 1 else 0))
  | _ -> "?"

let () = main_loop run
