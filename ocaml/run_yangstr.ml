(* run_yangstr.ml - dispatch of the yangstr slice (YangStr); compiled after model_yangstr.ml and helpers.ml.
   Case: qstr <1 = double-quoted first part | 0> <ctx indent> <events> <hex text>. Events, comma separated:
   cN other character of N bytes, s blank, t tab, l line feed, e valid escape, x invalid escape, b invalid character,
   +d / +s closing quote + opening double / single quote, q closing quote and end, z end of input.
   The text is only for the C driver. Output: ok <dynamic> <length> <calls> / err <calls>; calls: mN malloc, rN realloc, f free. *)
let ev_of (s : string) : ev =
  match s.[0] with
  | 'c' -> EChar (n_of_int (int_of_string (String.sub s 1 (String.length s - 1))))
  | 's' -> ESpace
  | 't' -> ETab
  | 'l' -> ELf
  | 'e' -> EEsc
  | 'x' -> EEscBad
  | 'b' -> EBadChar
  | '+' -> EConcat (s.[1] = 'd')
  | 'q' -> EEnd
  | _ -> EEof

let show_tr (tr : al list) : string =
  if tr = [] then "-"
  else String.concat "," (List.map (function AMalloc n -> "m" ^ dec_of_n n | ARealloc n -> "r" ^ dec_of_n n | AFree -> "f") tr)

let show ((rw, tr) : (res * wr list) * al list) : string =
  let (r, ws) = rw in
  let bad = List.exists (function W (p, n, z) -> int_of_n p + int_of_n n > int_of_n z) ws in
  (match r with
   | RErr -> "err"
   | ROk (d, len) -> Printf.sprintf "ok %d %s" (if d then 1 else 0) (dec_of_n len)
   | RUnderflow -> "MODEL-UNDERFLOW"
   | RAssert -> "MODEL-ASSERT") ^ " " ^ show_tr tr ^ (if bad then " MODEL-OVERFLOW" else "")

let run (f : string list) : string =
  let evs s = if s = "-" then [] else List.map ev_of (String.split_on_char ',' s) in
  match f with
  | "qstr" :: dq :: ind :: e :: _ -> show (qstring (dq = "1") (n_of_dec ind) (evs e))
  (* the variant of the seeded change C05-3 (for experiments, compared with nothing) *)
  | "qstr0" :: dq :: ind :: e :: _ -> show (qstring_noreset (dq = "1") (n_of_dec ind) (evs e))
  | _ -> "?"

let () = main_loop run
