(* VERIF_USES: tree_io.ml *)
(* run_merge.ml - dispatch of the merge slice (Merge.v); compiled after model_merge.ml, helpers.ml, tree_io.ml.
   Case line (also a valid lyx script, the pseudo commands starting with # are for the model only):
     mergem TAB #s <schema> TAB #n <names> TAB #t <target dump> TAB #u <source dump> TAB #o <options> TAB <lyx commands>
   Answer:  <target> | <source> | <merge target source> | <source afterwards> | <merged again> | <canonb of the result>
   options: 1 LYD_MERGE_DESTRUCT (source is gone afterwards: empty, no second merge) 2 DEFAULTS 4 WITH_FLAGS *)
let field (f : string list) (tag : string) : string =
  let p = "#" ^ tag ^ " " in
  let pl = String.length p in
  let rec go = function
    | [] -> raise (Tree_io ("missing #" ^ tag))
    | x :: r -> if String.length x >= pl && String.sub x 0 pl = p then String.sub x pl (String.length x - pl) else go r in
  go f

let run (f : string list) : string =
  match f with
  | "mergem" :: rest ->
      (try
         let sch = parse_schema (field rest "s") in
         let nt = parse_names (field rest "n") in
         let t = parse_dump nt (field rest "t") in
         let s = parse_dump nt (field rest "u") in
         let o = int_of_string (field rest "o") in
         let mo = { mo_defaults = (o land 2 <> 0); mo_with_flags = (o land 4 <> 0) } in
         let r = merge sch mo t s in
         let pd = print_dump sch nt in
         let destruct = o land 1 <> 0 in
         Printf.sprintf "%s | %s | %s | %s | %s | %s" (pd t) (pd s) (pd r)
           (if destruct then "empty" else pd s)
           (if destruct then "-" else pd (merge sch mo r s))
           (if canonb sch None r then "ok" else "not-canonical")
       with Tree_io m -> "E " ^ m)
  | _ -> "?"

let () = main_loop run
