(* run_json.ml - dispatch of the json slice (JsonText, StdText); compiled after model_json.ml and helpers.ml *)
let show_str (s : n list) r =
  match r with
  | Err _ -> "E"
  | Ok (v, rest) -> Printf.sprintf "%s %d" (hex v) (List.length s - List.length rest)

let run (f : string list) : string =
  match f with
  | ["jsonesc"; h] -> hex (json_esc (unhex h))
  | ["jsonstr"; h] -> let s = unhex h in show_str s (json_string s)
  | ["jsonrt"; h] ->
      (* what the driver does: print, drop the opening quote, append "/x", lex *)
      (match json_esc (unhex h) with
       | _ :: t -> let s = t @ [n_of_int 47; n_of_int 120] in show_str s (json_string s)
       | [] -> "E")
  (* the standard readers have no C counterpart; these entries are for ad-hoc cross-checks *)
  | ["stdjson"; h] -> (match std_json_string (unhex h) with None -> "E" | Some v -> hex v)
  | ["stdxml"; a; h] -> (match std_xml_text (a = "1") (unhex h) with None -> "E" | Some v -> hex v)
  | ["stdutf8"; h] -> if std_utf8_valid (unhex h) then "1" else "0"
  | ["xmlesc"; a; h] -> hex (xml_esc (a = "1") (unhex h))
  | _ -> "?"

let () = main_loop run
