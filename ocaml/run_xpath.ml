(* run_xpath.ml - dispatch of the xpath slice (XPathConv/XPathTree/XPathSem); compiled after model_xpath.ml and helpers.ml.

   xp  <yang> <xml> <dump> <ctx> <expr-hex> <ast> [<off>]
       <off> = names of as-coded switches (comma separated, `-` = none) that are put back to the recommendation because
               the tree under test answers their canonical witness as the recommendation says (a fixed deviation)
       answer:  <spec result>|<as-coded result>|<flags needed>
       spec result     = eval_top spec_flags   (the XPath 1.0 reference semantics)
       as-coded result = eval_top impl_flags   (every modelled departure of src/xpath.c switched on)
       flags needed    = when the two differ: a minimal set of as-coded switches that still gives the as-coded result
                         (greedy: each switch is put back to the recommendation when the answer stays the same)
   xpk s2n <hex>       cast_string_to_number: recommendation | as coded   -> F:<num>|F:<num>
   xpk n2s <hex>       strtold(text) then number -> string as coded  -> F:<num>:<hex>
   Result syntax as printed by impl/t_xpath.c. *)

let bytes_of_string (s : string) : n list = List.init (String.length s) (fun i -> n_of_int (Char.code s.[i]))

(* ---------- numbers ---------- *)
let rec z_strip2 (z : z) (e : int) : z * int =
  if Z.even z && not (Z.eqb z Z0) then z_strip2 (Z.div z (Zpos (XO XH))) (e + 1) else (z, e)

let show_num (x : xnum) : string =
  match x with
  | XNaN -> "nan"
  | XInf neg -> if neg then "-inf" else "inf"
  | XFin (neg, m) ->
      let m = qred m in
      if q_is_zero m then (if neg then "-0" else "0")
      else begin
        let sign = if neg then "-" else "" in
        let den = Zpos m.qden in
        let k = int_of_n (Z.to_N (Z.log2 den)) in
        if Z.eqb den (Z.pow (Zpos (XO XH)) (Z.of_N (n_of_int k))) then begin
          if k > 0 then Printf.sprintf "%s%sp%d" sign (dec_of_z m.qnum) (-k)
          else let (v, e) = z_strip2 m.qnum 0 in Printf.sprintf "%s%sp%d" sign (dec_of_z v) e
        end else Printf.sprintf "%sq%s/%s" sign (dec_of_z m.qnum) (dec_of_z den)
      end

(* ---------- tree dump ---------- *)
let parse_type (s : string) : ltype =
  if s = "" || s.[0] = 's' then TyStr
  else if s.[0] = 'i' then begin
    match String.split_on_char ',' (String.sub s 1 (String.length s - 1)) with
    | [lo; hi] -> TyInt (z_of_dec lo, z_of_dec hi)
    | _ -> TyStr
  end else if s.[0] = 'd' then TyDec (nat_of_int (int_of_string (String.sub s 1 (String.length s - 1))))
  else TyStr

let parse_node (r : string) : n * ninfo =
  match String.split_on_char ':' r with
  | [d; k; m; nm; v; df; ty; keys] ->
      let kind = match k with "c" -> KCont | "l" -> KList | "f" -> KLeaf | _ -> KLeafList in
      (n_of_int (int_of_string d),
       { ni_kind = kind; ni_mod = bytes_of_string m; ni_name = bytes_of_string nm; ni_val = unhex v; ni_dflt = (df = "1");
         ni_type = parse_type ty;
         ni_keys = if keys = "-" then [] else List.map bytes_of_string (String.split_on_char ',' keys) })
  | _ -> failwith "dump"

let last_dump = ref ""
let last_tree : xnode list ref = ref []
let tree_of_dump (d : string) : xnode list =
  if d = !last_dump then !last_tree
  else begin
    let t = if d = "-" then [] else index_tree (List.map parse_node (String.split_on_char ';' d)) in
    last_dump := d; last_tree := t; t
  end

(* ---------- expression AST (s-expression tokens separated by blanks) ---------- *)
exception Bad
let axis_of = function
  | "child" -> AxChild | "descendant" -> AxDescendant | "descendant-or-self" -> AxDescendantOrSelf
  | "parent" -> AxParent | "ancestor" -> AxAncestor | "ancestor-or-self" -> AxAncestorOrSelf
  | "following" -> AxFollowing | "following-sibling" -> AxFollowingSibling | "preceding" -> AxPreceding
  | "preceding-sibling" -> AxPrecedingSibling | "self" -> AxSelf | "attribute" -> AxAttribute
  | "namespace" -> AxNamespace | _ -> raise Bad
let fn_of = function
  | "last" -> FLast | "position" -> FPosition | "count" -> FCount | "local-name" -> FLocalName | "name" -> FName
  | "string" -> FString | "concat" -> FConcat | "starts-with" -> FStartsWith | "contains" -> FContains
  | "substring-before" -> FSubBefore | "substring-after" -> FSubAfter | "substring" -> FSubstring
  | "string-length" -> FStrLen | "normalize-space" -> FNormSpace | "translate" -> FTranslate | "boolean" -> FBoolean
  | "not" -> FNot | "true" -> FTrue | "false" -> FFalse | "number" -> FNumber | "sum" -> FSum | "floor" -> FFloor
  | "ceiling" -> FCeiling | "round" -> FRound | "current" -> FCurrent | _ -> raise Bad
let cmp_of = function "=" -> CEq | "!=" -> CNe | "<" -> CLt | "<=" -> CLe | ">" -> CGt | ">=" -> CGe | _ -> raise Bad
let ar_of = function "+" -> AAdd | "-" -> ASub | "*" -> AMul | "div" -> ADiv | "mod" -> AMod | _ -> raise Bad
let opt_bytes s = if s = "-" then None else Some (unhex s)

let rec p_expr (tk : string list) : expr * string list =
  match tk with
  | "(" :: "root" :: ")" :: r -> (ERoot, r)
  | "(" :: "ctx" :: ")" :: r -> (ECtx, r)
  | "(" :: "step" :: r ->
      let (b, r) = p_expr r in
      (match r with
       | ds :: ax :: r ->
           let (nt, r) = p_ntest r in
           let (ps, r) = p_preds r in
           (EStep (b, ds = "1", axis_of ax, nt, ps), r)
       | _ -> raise Bad)
  | "(" :: "filter" :: r -> let (e, r) = p_expr r in let (ps, r) = p_preds r in (EFilter (e, ps), r)
  | "(" :: "or" :: r -> let (a, r) = p_expr r in let (b, r) = p_expr r in (EOr (a, b), close r)
  | "(" :: "and" :: r -> let (a, r) = p_expr r in let (b, r) = p_expr r in (EAnd (a, b), close r)
  | "(" :: "cmp" :: op :: r -> let (a, r) = p_expr r in let (b, r) = p_expr r in (ECmp (cmp_of op, a, b), close r)
  | "(" :: "ar" :: op :: r -> let (a, r) = p_expr r in let (b, r) = p_expr r in (EArith (ar_of op, a, b), close r)
  | "(" :: "neg" :: r -> let (a, r) = p_expr r in (ENeg a, close r)
  | "(" :: "union" :: r -> let (a, r) = p_expr r in let (b, r) = p_expr r in (EUnion (a, b), close r)
  | "(" :: "lit" :: h :: ")" :: r -> (ELit (unhex h), r)
  | "(" :: "num" :: h :: ")" :: r -> (ENum (unhex h), r)
  | "(" :: "f0" :: f :: ")" :: r -> (EFun0 (fn_of f), r)
  | "(" :: "f1" :: f :: r -> let (a, r) = p_expr r in (EFun1 (fn_of f, a), close r)
  | "(" :: "f2" :: f :: r -> let (a, r) = p_expr r in let (b, r) = p_expr r in (EFun2 (fn_of f, a, b), close r)
  | "(" :: "f3" :: f :: r ->
      let (a, r) = p_expr r in let (b, r) = p_expr r in let (c, r) = p_expr r in (EFun3 (fn_of f, a, b, c), close r)
  | _ -> raise Bad
and close = function ")" :: r -> r | _ -> raise Bad
and p_ntest = function
  | "(" :: "name" :: p :: nm :: ")" :: r -> (TName (opt_bytes p, unhex nm), r)
  | "(" :: "star" :: p :: ")" :: r -> (TStar (opt_bytes p), r)
  | "(" :: "node" :: ")" :: r -> (TNode, r)
  | "(" :: "text" :: ")" :: r -> (TText, r)
  | "(" :: "any" :: ")" :: r -> (TAny, r)
  | _ -> raise Bad
(* predicates up to the closing parenthesis of the enclosing step / filter *)
and p_preds = function
  | ")" :: r -> (PNil, r)
  | tk -> let (p, r) = p_expr tk in let (ps, r) = p_preds r in (PCons (p, ps), r)

let parse_ast (s : string) : expr option =
  let tk = List.filter (fun x -> x <> "") (String.split_on_char ' ' s) in
  try (match p_expr tk with (e, []) -> Some e | _ -> None) with Bad -> None

(* ---------- results ---------- *)
let show_item = function
  | IRoot -> "r"
  | IElem n -> "e" ^ string_of_int (int_of_n n.x_id)
  | IText n -> "t" ^ string_of_int (int_of_n n.x_id)

let show_res (fl : flags) (r : value res) : string =
  match r with
  | Err e -> "E" ^ string_of_int (int_of_n e)
  | Ok (VSet l) -> "N:" ^ String.concat "," (List.map show_item l)
  | Ok (VStr s) -> "S:" ^ hex s
  | Ok (VBool b) -> if b then "B:1" else "B:0"
  | Ok (VNum x) ->
      "F:" ^ show_num x ^ ":" ^ hex (spec_n2s fl.f_prec x)

(* the switches in the order in which they are put back; names are the known-finding tags (prefix "xpath-") *)
let switches : (string * (flags -> flags)) list = [
  ("cmp-canonize", (fun f -> { f with f_canon = false }));
  ("namespace-axis", (fun f -> { f with f_nsaxis = false }));
  ("text-nodes", (fun f -> { f with f_text = false }));
  ("predicate-position-global", (fun f -> { f with f_predglobal = false }));
  ("string-value-indent", (fun f -> { f with f_strval = false }));
  ("string-bytes", (fun f -> { f with f_bytes = false }));
  ("long-double", (fun f -> { f with f_prec = spec_flags.f_prec }));
]

let differs (a : flags) (b : flags) : bool = a <> b

(* as-coded flags with the switches named in [off] (deviations that the tree under test no longer shows) put back
   to the recommendation *)
let coded_flags (off : string list) : flags =
  List.fold_left (fun f (name, sw) -> if List.mem name off then sw f else f) impl_flags switches

let needed (base : flags) (t : xnode list) (c : item) (e : expr) (target : string) : string =
  let cur = ref base in
  let keep = ref [] in
  List.iter (fun (name, off) ->
      let f' = off !cur in
      if differs f' !cur then begin
        if show_res f' (eval_top f' t c e) = target then cur := f' else keep := name :: !keep
      end) switches;
  String.concat "," (List.rev !keep)

let run (f : string list) : string =
  match f with
  | "xp" :: _ :: _ :: dump :: ctx :: _ :: ast :: rest ->
      let off = match rest with o :: _ when o <> "-" && o <> "" -> String.split_on_char ',' o | _ -> [] in
      let cflags = coded_flags off in
      (match parse_ast ast with
       | None -> "E7|E7|"
       | Some e ->
           let t = tree_of_dump dump in
           let ci = int_of_string ctx in
           let c = if ci < 0 then Some IRoot
             else (match List.filter (fun n -> int_of_n n.x_id = ci) t with n :: _ -> Some (IElem n) | [] -> None) in
           (match c with
            | None -> "BADCTX|BADCTX|"
            | Some c ->
                let s = show_res spec_flags (eval_top spec_flags t c e) in
                let i = show_res cflags (eval_top cflags t c e) in
                (* a step with key predicates whose values allow the lookup (XPathLookup): the answer through the lookup
                   must be the answer of the evaluation (lookup_answer_top_eq_eval); a 4th field L marks these cases *)
                let lk = (match lookup_answer_top t c e with
                          | None -> ""
                          | Some r -> if show_res spec_flags r = s then "|L" else "|LOOKUPDIFF:" ^ show_res spec_flags r) in
                let s = if String.length lk > 2 then "LOOKUPDIFF" else s in
                (if s = i then s ^ "|" ^ i ^ "|" else s ^ "|" ^ i ^ "|" ^ needed cflags t c e i) ^ lk))
  | ["xpk"; "s2n"; h] ->
      (* recommendation (XPath 1.0 Number syntax) at the precision of the code | as coded (equal: s2n_impl_eq_spec) *)
      "F:" ^ show_num (spec_s2n impl_flags.f_prec (unhex h)) ^ "|F:" ^ show_num (impl_s2n impl_flags.f_prec (unhex h))
  | ["xpk"; "n2s"; h] ->
      (* the driver reads the text (a plain decimal, inf, -inf or nan) with strtold;
         recommendation (shortest decimal that reads back) | as coded (equal: n2s_impl_eq_spec) *)
      let x = if h = "696e66" then XInf false else if h = "2d696e66" then XInf true else if h = "6e616e" then XNaN
              else impl_s2n impl_flags.f_prec (unhex h) in
      "F:" ^ show_num x ^ ":" ^ hex (spec_n2s impl_flags.f_prec x) ^ "|F:" ^ show_num x ^ ":" ^ hex (impl_n2s x)
  | _ -> "?"

let () = main_loop run
