(* VERIF_USES: tree_io.ml *)
(* run_valid.ml - dispatch of the valid slice (RfcValid.v, ValidateImpl.v); compiled after model_valid.ml, helpers.ml,
   tree_io.ml. Case line (also a script of impl/t_valid.c, which skips the fields starting with #):
     valid TAB #s <schema line> TAB #n <names> TAB #t <schema tree> TAB #u <uniques> TAB ... #d <dump with flags> ...
   A #a field (dump AFTER a successful validation of an edited tree) gives one more item  A:<rfc_valid>:<rules>.
   rfc_valid and the rules are evaluated on the explicit nodes (nodes flagged LYD_DEFAULT dropped).
   For every #d field (a dump printed by t_valid's  dump t<k> 1: flags d = LYD_DEFAULT, n = LYD_NEW) the answer has one
   item  <impl_validate verdict>:<rfc_valid 0|1>:<violated rules>:<placed 0|1>:<vschema_ok><hist_ok and no empty non-presence container><fresh and every node flagged new>:<last error of impl_validate_multi>
   (items joined by " | "):
     verdict  0 | dup dupcase nomand nomandchoice nomin nomax nouniq nokey type fuel
     rules    letters of the violated rules of RfcValid.v: t types k keys s single u keyuniq l llval c case m mand
              h mand_choice n min x max q unique (- when none)
   With a field  #N 1  (component configmodel) the answer is ONE item for the first #d field,
     N:<impl_parse_validate_config verdict, also state>:<rfc_valid_config 0|1>:<vschema_ok (cfg_view vs)><cfg_ready vs><fresh, every node flagged new, placed>
   Formats of #t and #u: tools/validenc.py. *)

let field_opt (f : string list) (tag : string) : string option =
  let p = "#" ^ tag ^ " " in
  let pl = String.length p in
  let rec go = function
    | [] -> None
    | x :: r -> if String.length x >= pl && String.sub x 0 pl = p then Some (String.sub x pl (String.length x - pl)) else go r in
  go f

let field f tag = match field_opt f tag with Some s -> s | None -> raise (Tree_io ("missing #" ^ tag))

let fields_all (f : string list) (tag : string) : string list =
  let p = "#" ^ tag ^ " " in
  let pl = String.length p in
  List.filter_map (fun x -> if String.length x >= pl && String.sub x 0 pl = p then Some (String.sub x pl (String.length x - pl)) else None) f

(* schema tree:  N<sid>(..) C<id>.<mand>(..) K<id>.<dflt>(..) *)
let parse_stree (s : string) : stree list =
  if s = "-" then [] else begin
    let pos = ref 0 in
    let len = String.length s in
    let num () =
      let st = !pos in
      while !pos < len && s.[!pos] >= '0' && s.[!pos] <= '9' do incr pos done;
      if !pos = st then raise (Tree_io "stree number");
      int_of_string (String.sub s st (!pos - st)) in
    let expect c = if !pos < len && s.[!pos] = c then incr pos else raise (Tree_io ("stree expected " ^ String.make 1 c)) in
    let rec items () : stree list =
      if !pos >= len || s.[!pos] = ')' then []
      else begin
        let k = s.[!pos] in
        incr pos;
        let t =
          match k with
          | 'N' -> let sid = num () in expect '('; let ch = items () in expect ')'; TNode (n_of_int sid, ch)
          | 'C' -> let id = num () in expect '.'; let m = num () in expect '('; let ch = items () in expect ')';
                   TChoice (n_of_int id, m = 1, ch)
          | 'K' -> let id = num () in expect '.'; let d = num () in expect '('; let ch = items () in expect ')';
                   TCase (n_of_int id, d = 1, ch)
          | _ -> raise (Tree_io "stree item") in
        t :: items ()
      end in
    let r = items () in
    if !pos <> len then raise (Tree_io "stree trailing");
    r
  end

let parse_uniq (s : string) : (n * n list list list) list =
  if s = "-" then []
  else List.map (fun e ->
    match String.index_opt e ':' with
    | Some i ->
        let sid = n_of_dec (String.sub e 0 i) in
        let rest = String.sub e (i + 1) (String.length e - i - 1) in
        (sid, List.map (fun st -> List.map (fun p -> List.map n_of_dec (String.split_on_char '/' p)) (String.split_on_char ',' st))
                (String.split_on_char '|' rest))
    | None -> raise (Tree_io "uniq entry")) (String.split_on_char ';' s)

(* dump with flags -> vnode forest (as tree_io.parse_dump, keeping the n flag) *)
let parse_vdump (nt : names) (s : string) : vnode list =
  if s = "empty" || s = "" then []
  else begin
    let ents = List.filter (fun x -> x <> "") (String.split_on_char ';' s) in
    let lines = List.map (fun e ->
      let dl = parse_dline e in
      let flags = match String.split_on_char ':' e with _ :: _ :: _ :: _ :: fl :: _ -> fl | _ -> "" in
      (dl, String.contains flags 'n')) ents in
    let rec siblings depth parent ls =
      match ls with
      | (l, nw) :: r when l.dl_depth = depth ->
          let sid = sid_of nt parent l.dl_mod l.dl_name in
          let (ch, r') = siblings (depth + 1) (Some sid) r in
          let (sibs, r'') = siblings depth parent r' in
          (VN (n_of_int sid, l.dl_val, l.dl_dflt, nw, l.dl_meta, ch) :: sibs, r'')
      | _ -> ([], ls) in
    let (f, rest) = siblings 0 None lines in
    if rest <> [] then raise (Tree_io "dump depth structure");
    f
  end

let rec all_new (l : vnode list) : bool = List.for_all (fun (VN (_, _, _, w, _, ch)) -> w && all_new ch) l

let class_of = function
  | EFuel -> "fuel" | EType -> "type" | EKey -> "nokey" | EDup -> "dup" | EDupCase -> "dupcase" | ENoMand -> "nomand"
  | ENoMandChoice -> "nomandchoice" | ENoMin -> "nomin" | ENoMax -> "nomax" | ENoUniq -> "nouniq" | EState -> "state"

let ty_true _ _ = true

let rules vs (f : dnode list) : string =
  let b = Buffer.create 12 in
  let add c ok = if not ok then Buffer.add_char b c in
  add 't' (rfc_types ty_true vs f);
  add 'k' (rfc_keys vs f);
  add 's' (rfc_single vs f);
  add 'u' (rfc_keyuniq vs f);
  add 'l' (rfc_llval vs f);
  add 'c' (rfc_case vs f);
  add 'm' (rfc_mand vs f);
  add 'h' (rfc_mand_choice vs f);
  add 'n' (rfc_min vs f);
  add 'x' (rfc_max vs f);
  add 'q' (rfc_unique vs f);
  if Buffer.length b = 0 then "-" else Buffer.contents b

(* #I <edges b>d,...> <bases a+b|-> <identity>  ->  I:<idref_check 0|1> *)
let run_idref (spec : string) : string =
  match String.split_on_char ' ' spec with
  | [edges; bases; ident] ->
      let e = if edges = "-" then [] else List.map (fun x -> match String.split_on_char '>' x with
                | [a; b] -> (n_of_dec a, n_of_dec b) | _ -> raise (Tree_io "edge")) (String.split_on_char ',' edges) in
      let bs = if bases = "-" then [] else List.map n_of_dec (String.split_on_char '+' bases) in
      if idref_check e bs (n_of_dec ident) then "I:1" else "I:0"
  | _ -> raise (Tree_io "idref spec")

let run (f : string list) : string =
  match f with
  | "valid" :: rest when field_opt rest "I" <> None ->
      (try run_idref (field rest "I") with Tree_io m -> "E " ^ m)
  | "valid" :: rest ->
      (try
         let sch = parse_schema (field rest "s") in
         let nt = parse_names (field rest "n") in
         let vs = { vs_info = sch; vs_tree = parse_stree (field rest "t"); vs_uniq = parse_uniq (field rest "u") } in
         let one d =
           let vf = parse_vdump nt d in
           let ef = explicit vf in
           let v = match impl_validate vs vf with VOk -> "0" | VErr e -> class_of e in
           let ml = match List.rev (impl_validate_multi vs vf) with [] -> "0" | e :: _ -> class_of e in
           Printf.sprintf "%s:%d:%s:%d:%d%d%d:%s" v (if rfc_valid ty_true vs ef then 1 else 0) (rules vs (prune vs ef))
             (if placed vs (List.map erase vf) then 1 else 0)
             (if vschema_ok vs then 1 else 0)
             (if hist_ok vs vf && no_empty_np vs (List.map erase vf) then 1 else 0)
             (if fresh vs (List.map erase vf) && all_new vf then 1 else 0) ml in
         let after d =
           let ef = explicit (parse_vdump nt d) in
           Printf.sprintf "A:%d:%s" (if rfc_valid ty_true vs ef then 1 else 0) (rules vs (prune vs ef)) in
         (* #N: LYD_VALIDATE_NO_STATE on the (fresh) tree of the first dump
            N:<impl_parse_validate_config verdict>:<rfc_valid_config 0|1>:<vschema_ok (cfg_view vs)><cfg_ready vs><fresh, all flagged new, placed> *)
         let config d =
           let vf = parse_vdump nt d in
           let f = List.map erase vf in
           let fr = fresh vs f && all_new vf && placed vs f in
           let v = match (if fr then impl_parse_validate_config vs ty_true f else impl_validate_config vs vf) with
             | VOk -> "0" | VErr e -> class_of e in
           Printf.sprintf "N:%s:%d:%d%d%d" v (if rfc_valid_config ty_true vs f then 1 else 0)
             (if vschema_ok (cfg_view vs) then 1 else 0) (if cfg_ready vs then 1 else 0) (if fr then 1 else 0) in
         if field_opt rest "N" <> None then config (List.hd (fields_all rest "d")) else
         String.concat " | " (List.map one (fields_all rest "d") @ List.map after (fields_all rest "a"))
       with Tree_io m -> "E " ^ m)
  | _ -> "?"

let () = main_loop run
