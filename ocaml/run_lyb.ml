(* run_lyb.ml - dispatch of the lyb slice (LybChunk, LybHash); compiled after model_lyb.ml and helpers.ml.
   Same case lines and result lines as impl/t_lyb.c. *)

let err_class (e : n) : string =
  match int_of_n e with 4 -> "A" | k -> "E" ^ string_of_int k

(* script: ops separated by ',': S, E, W<hex>, W-, Wn<count>, R<count> *)
let parse_op (s : string) : op =
  let l = String.length s in
  if l = 0 then Stop
  else match s.[0] with
    | 'S' -> Start
    | 'E' -> Stop
    | 'W' ->
        if l > 1 && s.[1] = 'n' then Write (pattern (n_of_dec (String.sub s 2 (l - 2))))
        else if l = 1 then Write []
        else Write (unhex (String.sub s 1 (l - 1)))
    | _ -> Stop
let parse_script (s : string) : op list =
  if s = "" then [] else List.map parse_op (String.split_on_char ',' s)

let parse_rop (s : string) : rop =
  let l = String.length s in
  if l = 0 then RStop
  else match s.[0] with
    | 'S' -> RStart
    | 'E' -> RStop
    | 'R' -> RRead (n_of_dec (String.sub s 1 (l - 1)))
    | _ -> RStop
let parse_shape (s : string) : rop list =
  if s = "" then [] else List.map parse_rop (String.split_on_char ',' s)

let show_sibs (l : sib list) : string =
  if l = [] then "-"
  else String.concat ";" (List.map (fun s ->
      Printf.sprintf "%s:%s:%s" (dec_of_n s.written) (dec_of_n s.position) (dec_of_n s.inner_chunks)) l)

let rec first_diff (a : n list list) (b : n list list) (k : int) : int option =
  match a, b with
  | [], [] -> None
  | x :: a', y :: b' -> if x = y then first_diff a' b' (k + 1) else Some k
  | _, _ -> Some k

let show_sib_result r =
  match r with
  | None -> "PE"
  | Some (bs, pr) ->
      hex bs ^ ":" ^
      (match pr with
       | Err e -> "PE"
       | Ok (None, _) -> "-1"
       | Ok (Some i, _) -> string_of_int (int_of_nat i))

let run (f : string list) : string =
  match f with
  | ["lybw"] | ["lybw"; ""] ->
      "- -"
  | ["lybw"; s] ->
      (match lyb_run_write (parse_script s) with
       | Err e -> err_class e
       | Ok st -> hex st.w_out ^ " " ^ show_sibs st.w_sibs)
  | ["lybr"; s; h] ->
      let inp = unhex h in
      let sh = parse_shape s in
      (match lyb_run_read sh inp with
       | Err e -> err_class e
       | Ok (pls, st) ->
           let p = if pls = [] then "-" else String.concat "," (List.map hex pls) in
           Printf.sprintf "%s %d %s" p (List.length inp - List.length st.r_in) (show_sibs st.r_sibs))
  | ["lybrt"; s] ->
      let sc = parse_script s in
      (match lyb_run_write sc with
       | Err e -> if int_of_n e = 4 then "A" else "W-E" ^ string_of_int (int_of_n e)
       | Ok st ->
           (match lyb_run_read (shape sc) st.w_out with
            | Err e -> if int_of_n e = 4 then "A" else "BAD R-E" ^ string_of_int (int_of_n e)
            | Ok (pls, rst) ->
                let want = payloads sc in
                (match first_diff pls want 0 with
                 | Some k -> Printf.sprintf "BAD payload %d" k
                 | None ->
                     let total = List.fold_left (fun a p -> a + List.length p) 0 want in
                     let olen = List.length st.w_out in
                     if rst.r_in <> [] then Printf.sprintf "BAD consumed %d of %d" (olen - List.length rst.r_in) olen
                     else if List.length rst.r_sibs <> List.length st.w_sibs then "BAD depth"
                     else Printf.sprintf "OK %d %d" olen total)))
  | ["lybhash"; m; nm; c] ->
      dec_of_n (gen_hash (unhex m) (unhex nm) (n_of_dec c))
  | ["lybsib"; m; names] ->
      let bytes_of s = List.init (String.length s) (fun i -> n_of_int (Char.code s.[i])) in
      let l = List.map (fun nm -> (bytes_of m, bytes_of nm)) (String.split_on_char ',' names) in
      (match sib_roundtrip l with
       | None -> "E"
       | Some rs -> String.concat " " (List.map show_sib_result rs))
  | _ -> "?"

(* long lists and deep recursion: a large minor heap avoids rescanning the stack at every minor collection *)
let () = Gc.set { (Gc.get ()) with Gc.minor_heap_size = 8 * 1024 * 1024; Gc.space_overhead = 200 }
let () = main_loop run
