(* run_restrict.ml - dispatch of slice restrict (Restrict.v); compiled after model_restrict.ml and helpers.ml.
   Same case lines as impl/t_restrict.c:
     rngd <type> <fd> <hex text> <nb> <lo hi>*           compile_range with a hand-made base
     chain <type> <fd> <n> <hex r | ~>*n <nv> <hex v>*nv  compile_chain from the built-in type, then the values
   Output: E | lo..hi,lo..hi,...  (chain: none when no typedef has a restriction, then a blank and one 0/1 per value) *)
let zz = z_of_dec

let ty_of (name : string) (fd : int) : rty option =
  match name with
  | "int8" -> Some (RInt I8) | "int16" -> Some (RInt I16) | "int32" -> Some (RInt I32) | "int64" -> Some (RInt I64)
  | "uint8" -> Some (RInt U8) | "uint16" -> Some (RInt U16) | "uint32" -> Some (RInt U32) | "uint64" -> Some (RInt U64)
  | "decimal64" -> Some (RDec (nat_of_int fd))
  | "string" | "binary" -> Some RLen
  | _ -> None

let show_parts (ps : (z * z) list) : string =
  if ps = [] then "none"
  else String.concat "," (List.map (fun (a, b) -> dec_of_z a ^ ".." ^ dec_of_z b) ps)

let rec take n l = if n = 0 then [] else match l with [] -> [] | x :: r -> x :: take (n - 1) r
let rec drop n l = if n = 0 then l else match l with [] -> [] | _ :: r -> drop (n - 1) r

let rec pairs = function
  | lo :: hi :: r -> (zz lo, zz hi) :: pairs r
  | _ -> []

(* the value acceptance of the leaf: the store callbacks of slice types with the compiled parts; for a length the
   probe is a string of n characters / n octets, whose length is checked by lyplg_type_validate_range *)
let accepts (ty : rty) (ps : (z * z) list) (v : n list) : bool =
  match ty with
  | RInt t -> (match int_store t ps v with Ok _ -> true | Err _ -> false)
  | RDec fd -> (match dec64_store fd ps v with Ok _ -> true | Err _ -> false)
  | RLen ->
      let s = String.concat "" (List.map (fun x -> String.make 1 (Char.chr (int_of_n x))) v) in
      validate_range ps (zz s)

let run (f : string list) : string =
  match f with
  | "rngd" :: tn :: fd :: h :: nb :: rest ->
      (match ty_of tn (int_of_string fd) with
       | None -> "?"
       | Some ty ->
           let base = pairs (take (2 * int_of_string nb) rest) in
           (match compile_range ty base (unhex h) with
            | Ok ps -> show_parts ps
            | Err e -> if int_of_n e = 11 then "OOB" else "E"))
  | "chain" :: tn :: fd :: n :: rest ->
      (match ty_of tn (int_of_string fd) with
       | None -> "?"
       | Some ty ->
           let n = int_of_string n in
           let rs = List.map (fun h -> if h = "~" || h = "~p" then None else Some (unhex h)) (take n rest) in
           let vals = match drop n rest with _ :: vs -> vs | [] -> [] in
           (match compile_chain ty [] rs with
            | Err e -> if int_of_n e = 11 then "OOB" else "E"
            | Ok ps ->
                show_parts ps ^ " " ^
                String.concat "" (List.map (fun h -> if accepts ty ps (unhex h) then "1" else "0") vals)))
  | "strchain" :: n :: rest ->
      (* strchain <n> (<hex length | ~> <np>)*n <nv> <length>*nv : RestrictStr.compile_str_chain with the patterns named
         100 + 10 i + j as in impl/t_restrict.c *)
      let n = int_of_string n in
      let rec levels i r =
        if i > n then ([], r)
        else match r with
          | h :: np :: r' ->
              let np = int_of_string np in
              let pats = List.init np (fun j -> 100 + 10 * i + j) in
              let (ls, r'') = levels (i + 1) r' in
              (((if h = "~" then None else Some (unhex h)), pats) :: ls, r'')
          | _ -> ([], []) in
      let (lv, r) = levels 1 rest in
      let vals = match r with _ :: vs -> vs | [] -> [] in
      (match compile_str_chain { se_len = []; se_pats = [] } lv with
       | Err _ -> "E"
       | Ok t ->
           show_parts t.se_len ^ " " ^
           (if t.se_pats = [] then "-" else String.concat "," (List.map string_of_int t.se_pats)) ^ " " ^
           String.concat "" (List.map (fun v -> if validate_range t.se_len (zz v) then "1" else "0") vals))
  | _ -> "?"

let () = main_loop run
