(* tree_io.ml - text <-> Tree.v values (schema subset, data forest). Shared OCaml file: a run_<slice>.ml asks for
   it with the first-line comment  VERIF_USES: tree_io.ml  (tools/vlib.py build_model puts it between helpers.ml and
   the run file). Needs the extracted Tree.v types (sinfo, dnode, vorder, chc, skind) in the model file.

   Formats (all on one line, no TAB; produced by tools/treeenc.py and by the `dump` command of impl/lyx.c):

   schema line   entries separated by ';', fields by ',':
                   sid,kind,parent,flags,order,keys,min,max,dflts,choice
                 kind   c non-presence container | p presence container | l leaf | L leaf-list | k list | a anydata
                 parent sid of the data parent or -
                 flags  letters u (ordered-by user statement) s (config false) m (mandatory), or -
                 order  b strcmp | i integer | d decimal64 | o boolean | e/<hex name>=<value>/... enumeration
                 keys   key sids joined by + or -
                 min    decimal      max  decimal or -
                 dflts  canonical default values in hex joined by + (an empty value is ~) or -
                 choice chain of <choice id>.<case id>.<1 if default case>.<1 if mandatory choice> joined by + or -
   name table    entries separated by ';':  sid,parent|-,module,name
   dump          what lyx prints:  depth:module:name:(=<hex>|i|a<hex>):flags{:@module:name=<hex>};  repeated, or
                 the word empty; flags d (LYD_DEFAULT) s (config false). Opaque nodes are not supported. *)

exception Tree_io of string

let split c s = if s = "" then [] else String.split_on_char c s
let opt_dash f s = if s = "-" then None else Some (f s)
let list_dash c f s = if s = "-" then [] else List.map f (String.split_on_char c s)

let parse_order (s : string) : vorder =
  match s with
  | "b" -> OBytes
  | "i" -> OInt
  | "d" -> ODec
  | "o" -> OBool
  | _ when String.length s >= 1 && s.[0] = 'e' ->
      let items = List.tl (String.split_on_char '/' s) in
      OEnum (List.map (fun it ->
        match String.split_on_char '=' it with
        | [h; v] -> (unhex h, z_of_dec v)
        | _ -> raise (Tree_io ("enum item " ^ it))) items)
  | _ -> raise (Tree_io ("order " ^ s))

let parse_chc (s : string) : chc =
  match String.split_on_char '.' s with
  | [a; b; d; m] -> { ch_id = n_of_dec a; ch_case = n_of_dec b; ch_dflt = (d = "1"); ch_mand = (m = "1") }
  | _ -> raise (Tree_io ("choice " ^ s))

let parse_sentry (s : string) : n * sinfo =
  match String.split_on_char ',' s with
  | [sid; kind; parent; flags; order; keys; mn; mx; dflts; choice] ->
      let k = match kind with
        | "c" -> KCont false | "p" -> KCont true | "l" -> KLeaf | "L" -> KLeafList | "k" -> KList | "a" -> KAny
        | _ -> raise (Tree_io ("kind " ^ kind)) in
      (n_of_dec sid,
       { si_kind = k;
         si_parent = opt_dash n_of_dec parent;
         si_keys = list_dash '+' n_of_dec keys;
         si_userord = String.contains flags 'u';
         si_config = not (String.contains flags 's');
         si_dflts = list_dash '+' (fun h -> if h = "~" then [] else unhex h) dflts;
         si_choice = list_dash '+' parse_chc choice;
         si_mand = String.contains flags 'm';
         si_min = n_of_dec mn;
         si_max = opt_dash n_of_dec mx;
         si_order = parse_order order })
  | _ -> raise (Tree_io ("schema entry " ^ s))

let parse_schema (s : string) : (n * sinfo) list =
  List.map parse_sentry (List.filter (fun x -> x <> "") (split ';' s))

(* name table: (sid, parent sid option, module, name) with ints for speed *)
type names = (int * int option * string * string) list

let parse_names (s : string) : names =
  List.map (fun e ->
    match String.split_on_char ',' e with
    | [sid; parent; m; nm] -> (int_of_string sid, opt_dash int_of_string parent, m, nm)
    | _ -> raise (Tree_io ("name entry " ^ e))) (List.filter (fun x -> x <> "") (split ';' s))

let sid_of (nt : names) (parent : int option) (m : string) (nm : string) : int =
  let rec go = function
    | [] -> raise (Tree_io ("unknown node " ^ m ^ ":" ^ nm))
    | (s, p, m', nm') :: r -> if p = parent && m' = m && nm' = nm then s else go r in
  go nt

let name_of (nt : names) (s : int) : string * string =
  let rec go = function
    | [] -> raise (Tree_io ("unknown sid " ^ string_of_int s))
    | (s', _, m, nm) :: r -> if s' = s then (m, nm) else go r in
  go nt

(* one dump entry *)
type dline = { dl_depth : int; dl_mod : string; dl_name : string; dl_val : n list; dl_dflt : bool;
               dl_meta : (n list * n list) list }

let bytes_of_string (s : string) : n list =
  List.init (String.length s) (fun i -> n_of_int (Char.code s.[i]))
let string_of_bytes (l : n list) : string =
  String.concat "" (List.map (fun x -> String.make 1 (Char.chr (int_of_n x land 255))) l)

let parse_dline (s : string) : dline =
  match String.split_on_char ':' s with
  | depth :: m :: nm :: v :: flags :: rest ->
      if String.length m > 0 && m.[0] = '?' then raise (Tree_io "opaque node");
      let value =
        if v = "i" then []
        else if String.length v >= 1 && (v.[0] = '=' || v.[0] = 'a') then begin
          let h = String.sub v 1 (String.length v - 1) in
          if h = "" || h = "~" then [] else unhex h
        end else raise (Tree_io ("value " ^ v)) in
      let rec metas = function
        | [] -> []
        | am :: nv :: r when String.length am > 0 && am.[0] = '@' ->
            (match String.index_opt nv '=' with
             | Some i ->
                 let key = String.sub am 1 (String.length am - 1) ^ ":" ^ String.sub nv 0 i in
                 let h = String.sub nv (i + 1) (String.length nv - i - 1) in
                 (bytes_of_string key, (if h = "~" then [] else unhex h)) :: metas r
             | None -> raise (Tree_io ("meta " ^ nv)))
        | x :: _ -> raise (Tree_io ("meta " ^ x)) in
      { dl_depth = int_of_string depth; dl_mod = m; dl_name = nm; dl_val = value;
        dl_dflt = String.contains flags 'd'; dl_meta = metas rest }
  | _ -> raise (Tree_io ("dump entry " ^ s))

(* entries in DFS pre-order with depths -> forest *)
let parse_dump (nt : names) (s : string) : dnode list =
  if s = "empty" || s = "" then []
  else begin
    let lines = List.map parse_dline (List.filter (fun x -> x <> "") (String.split_on_char ';' s)) in
    (* returns (siblings at this depth, rest) *)
    let rec siblings (depth : int) (parent : int option) (ls : dline list) : dnode list * dline list =
      match ls with
      | l :: r when l.dl_depth = depth ->
          let sid = sid_of nt parent l.dl_mod l.dl_name in
          let (ch, r') = siblings (depth + 1) (Some sid) r in
          let (sibs, r'') = siblings depth parent r' in
          (DN (n_of_int sid, l.dl_val, l.dl_dflt, l.dl_meta, ch) :: sibs, r'')
      | _ -> ([], ls) in
    let (f, rest) = siblings 0 None lines in
    if rest <> [] then raise (Tree_io "dump depth structure");
    f
  end

let print_dump (sch : (n * sinfo) list) (nt : names) (f : dnode list) : string =
  if f = [] then "empty"
  else begin
    let b = Buffer.create 1024 in
    let rec go depth (l : dnode list) =
      List.iter (fun (DN (s, v, d, m, ch)) ->
        let (md, nm) = name_of nt (int_of_n s) in
        let si = sget sch s in
        Buffer.add_string b (Printf.sprintf "%d:%s:%s:" depth md nm);
        (match si.si_kind with
         | KLeaf | KLeafList -> Buffer.add_string b ("=" ^ hex v)
         | KAny -> Buffer.add_string b ("a" ^ hex v)
         | _ -> Buffer.add_string b "i");
        Buffer.add_char b ':';
        if d then Buffer.add_char b 'd';
        if not si.si_config then Buffer.add_char b 's';
        List.iter (fun (k, mv) ->
          let ks = string_of_bytes k in
          let i = String.index ks ':' in
          Buffer.add_string b (Printf.sprintf ":@%s:%s=%s" (String.sub ks 0 i)
                                 (String.sub ks (i + 1) (String.length ks - i - 1)) (hex mv))) m;
        Buffer.add_char b ';';
        go (depth + 1) ch) l in
    go 0 f;
    Buffer.contents b
  end

(* deterministic shuffle (xorshift) for re-insertion tests; instances of one user-ordered schema node keep their
   relative order (their order is the insertion order) *)
let shuffle_forest (sch : (n * sinfo) list) (seed : int) (f : dnode list) : dnode list =
  let st = ref (seed lor 1) in
  let rnd k = st := !st lxor (!st lsl 13) land 0x3fffffff; st := !st lxor (!st lsr 7); st := !st lxor (!st lsl 17) land 0x3fffffff;
    (!st land 0x3fffffff) mod k in
  let rec sh (l : dnode list) : dnode list =
    let l = List.map (fun (DN (s, v, d, m, ch)) -> DN (s, v, d, m, sh ch)) l in
    let a = Array.of_list l in
    let n = Array.length a in
    for i = n - 1 downto 1 do
      let j = rnd (i + 1) in
      let t = a.(i) in a.(i) <- a.(j); a.(j) <- t
    done;
    (* restore the original relative order of user-ordered instances *)
    let orig = List.filter (fun (DN (s, _, _, _, _)) -> userordered sch s) l in
    let q = ref orig in
    Array.iteri (fun i (DN (s, _, _, _, _)) ->
      if userordered sch s then begin
        (* take the next original instance of the same sid *)
        let rec take acc = function
          | [] -> raise (Tree_io "shuffle")
          | (DN (s', _, _, _, _) as x) :: r when s' = s -> q := List.rev_append acc r; x
          | x :: r -> take (x :: acc) r in
        a.(i) <- take [] !q
      end) a;
    Array.to_list a in
  sh f
