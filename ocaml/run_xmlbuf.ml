(* run_xmlbuf.ml - dispatch of the xmlbuf slice (XmlBuf); compiled after model_xmlbuf.ml and helpers.ml.
   Case: xbuf <events> <hex text>. Events, comma separated: pN plain character of N bytes, rN reference storing N
   bytes, x failing reference, cN CDATA section of N bytes, o CDATA without end, b invalid character, e end
   character, z end of text. The text (third field) is only for the C driver. Output:
   ok <dynamic> <length> <allocator calls> / err <allocator calls>; allocator calls: mN malloc, rN realloc, f free. *)
let ev_of (s : string) : ev =
  let num () = n_of_int (int_of_string (String.sub s 1 (String.length s - 1))) in
  match s.[0] with
  | 'p' -> EPlain (num ())
  | 'r' -> ERef (num ())
  | 'x' -> ERefBad
  | 'c' -> ECdata (num ())
  | 'o' -> ECdataOpen
  | 'b' -> EBadChar
  | 'e' -> EEnd
  | _ -> EEof

let show_tr (tr : al list) : string =
  if tr = [] then "-"
  else String.concat "," (List.map (function AMalloc n -> "m" ^ dec_of_n n | ARealloc n -> "r" ^ dec_of_n n | AFree -> "f") tr)

let show ((rw, tr) : (res * wr list) * al list) : string =
  let (r, ws) = rw in
  let bad = List.exists (function W (p, n, z) -> int_of_n p + int_of_n n > int_of_n z) ws in
  (match r with
   | RErr -> "err"
   | ROk (d, len) -> Printf.sprintf "ok %d %s" (if d then 1 else 0) (dec_of_n len)
   | RFuel -> "MODEL-FUEL") ^ " " ^ show_tr tr ^ (if bad then " MODEL-OVERFLOW" else "")

let run (f : string list) : string =
  match f with
  | "xbuf" :: evs :: _ ->
      let l = if evs = "-" then [] else List.map ev_of (String.split_on_char ',' evs) in
      show (parse_value l)
  (* the variant of the seeded change C05-5 (not compared with anything; for experiments) *)
  | "xbuf1" :: evs :: _ ->
      let l = if evs = "-" then [] else List.map ev_of (String.split_on_char ',' evs) in
      show (parse_value_oneshot l)
  | _ -> "?"

let () = main_loop run
