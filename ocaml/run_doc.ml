(* VERIF_USES: tree_io.ml *)
(* run_doc.ml - dispatch of the doc slice (XmlDoc.v, JsonDoc.v); compiled after model_doc.ml, helpers.ml, tree_io.ml.
   Case line = a lyx script with pseudo commands (lyx answers ?cmd to commands starting with #):
     docm TAB #s <schema> TAB #n <names> TAB #m <modules> TAB #k <json kinds> TAB #d <dump of t0> TAB
          { #b <fmt> <print opts> <hex of what libyang printed> } TAB <lyx commands>
   The model answers first  W=<seven bits>  (the executable hypotheses of the theorems hold on the dump: tabs_okb, canonb,
   docb lexableb, docb std_valb, jdocb jlexb, jdocb nonulb, parents_ltb), then for every #b command
     <fmt><opts> <hex of the MODEL's print of the dump> R=<the model's reader applied to LIBYANG's bytes gives
     clear_dflt (prune sel dump)> G=<the standard reader applied to libyang's bytes gives to_generic (prune sel dump)>
   joined by " | ". fmt: x XML, j JSON. opts: LYD_PRINT_* bits (0x01 siblings, 0x02 shrink, 0x04 keep empty containers,
   0x10 trim, 0x20 report-all, none of them explicit). *)
let field (f : string list) (tag : string) : string =
  let p = "#" ^ tag ^ " " in
  let pl = String.length p in
  let rec go = function
    | [] -> raise (Tree_io ("missing #" ^ tag))
    | x :: r -> if String.length x >= pl && String.sub x 0 pl = p then String.sub x pl (String.length x - pl) else go r in
  go f

let parse_mods (s : string) : (n * modinfo) list =
  List.map (fun e ->
    match String.split_on_char ',' e with
    | [id; nm; pfx; ns] -> (n_of_dec id, { mi_name = bytes_of_string nm; mi_prefix = bytes_of_string pfx; mi_ns = bytes_of_string ns })
    | _ -> raise (Tree_io ("module entry " ^ e))) (List.filter (fun x -> x <> "") (String.split_on_char ';' s))

let parse_doc_names (mods : (n * modinfo) list) (s : string) : (n * (n * n list)) list =
  List.map (fun e ->
    match String.split_on_char ',' e with
    | [sid; _; m; nm] ->
        let mb = bytes_of_string m in
        let rec find = function
          | [] -> raise (Tree_io ("module of " ^ e))
          | (k, mi) :: r -> if mi.mi_name = mb then k else find r in
        (n_of_dec sid, (find mods, bytes_of_string nm))
    | _ -> raise (Tree_io ("name entry " ^ e))) (List.filter (fun x -> x <> "") (String.split_on_char ';' s))

let parse_jkinds (s : string) : (n * jkind) list =
  List.map (fun e ->
    match String.split_on_char '=' e with
    | [sid; k] -> (n_of_dec sid, (match k with "n" -> JNum | "b" -> JBool | "e" -> JEmpty | _ -> JStr))
    | _ -> raise (Tree_io ("kind entry " ^ e))) (List.filter (fun x -> x <> "") (String.split_on_char ';' s))

let starts s p = String.length s >= String.length p && String.sub s 0 (String.length p) = p

let run (f : string list) : string =
  match f with
  | "docm" :: rest ->
      (try
         let sch = parse_schema (field rest "s") in
         let nt = parse_names (field rest "n") in
         let mods = parse_mods (field rest "m") in
         let tabs = { dt_names = parse_doc_names mods (field rest "n"); dt_mods = mods } in
         let jk = parse_jkinds (field rest "k") in
         let fo = parse_dump nt (field rest "d") in
         (* the executable hypotheses of the theorems on this case: side tables, canonical form, data classes of the XML
            theorems (libyang side / standard side) and of the JSON theorems *)
         let b2 b = if b then "1" else "0" in
         let hyp = "W=" ^ b2 (tabs_okb sch tabs) ^ b2 (canonb sch None fo) ^
                   b2 (List.for_all (docb sch tabs lexableb) fo) ^ b2 (List.for_all (docb sch tabs std_valb) fo) ^
                   b2 (List.for_all (jdocb sch tabs jk jlexb) fo) ^ b2 (List.for_all (jdocb sch tabs jk nonulb) fo) ^
                   b2 (parents_ltb sch) in
         let answers = hyp :: List.filter_map (fun c ->
           if starts c "#b " then begin
             match String.split_on_char ' ' c with
             | [_; fmt; opts; h] ->
                 let o = int_of_string opts in
                 let mode = if o land 0x10 <> 0 then WdTrim else if o land 0x20 <> 0 then WdAll else WdExplicit in
                 let sel = should_print sch mode (o land 4 <> 0) in
                 let lybytes = unhex h in
                 let expect = clear_dflt (prune sel fo) in
                 if fmt = "x" then begin
                   let mine = xml_print sch tabs sel fo in
                   let r = (match xml_parse sch tabs lybytes with Some g -> forest_eqb g expect | None -> false) in
                   let g = (match std_xml_content lybytes with
                            | Some ([], es) -> es = to_generic tabs (prune sel fo)
                            | _ -> false) in
                   Some (Printf.sprintf "x%d %s R=%d G=%d" o (hex mine) (if r then 1 else 0) (if g then 1 else 0))
                 end else begin
                   let mine = json_print sch tabs jk sel fo in
                   let r = (match json_parse sch tabs jk lybytes with Some g -> forest_eqb g expect | None -> false) in
                   let g = (match std_json_value lybytes with
                            | Some v -> v = json_tree sch tabs jk (prune sel fo)
                            | None -> false) in
                   (* LIBYANG's bytes against the RFC 7951 rendering of the selected part: every with-defaults mode (trim
                      included since f592167) *)
                   let d = lybytes = json_doc sch tabs jk (prune sel fo) in
                   Some (Printf.sprintf "j%d %s R=%d G=%d D=%d" o (hex mine) (if r then 1 else 0) (if g then 1 else 0)
                           (if d then 1 else 0))
                 end
             | _ -> Some "?b"
           end else None) rest in
         String.concat " | " answers
       with Tree_io m -> "E " ^ m)
  | _ -> "?"

let () = main_loop run
