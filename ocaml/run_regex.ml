(* run_regex.ml - dispatch of slice regex (Rewrite, Xsd, XsdParse); compiled after model_regex.ml and helpers.ml.
   rewrite <pattern>                       -> E | hex of the rewritten text | FUEL (model fuel exhausted: never)
   match <pattern> <string>+               -> per string "b b" (joined by ','), b = XSD answer 1/0, or "X X" (pattern
                                              outside the modelled XSD subset, or not UTF-8)
   matchlist <string> (<inv> <pattern>)*   -> 1/0 (validate_patterns over the XSD matcher), X as above
   typeset <string> then levels: L [G<length>] <inv> <pattern> ... -> 1/0 (validate_string over chain_type of the levels; L starts
                                              the next level of the typedef chain, G gives its length statement), X as above *)
let rec pairs = function
  | inv :: p :: tl -> { pat_code = unhex p; pat_inverted = (inv = "1") } :: pairs tl
  | _ -> []

(* fields after the string -> levels of (optional length, (inverted, pattern) list); a level is "L", then
   optionally "G<length argument>" (parts a..b or a, separated by '|'), then <inv> <pattern> pairs *)
let parse_length (t : string) =
  List.map (fun part ->
      match String.index_opt part '.' with
      | Some i -> (n_of_dec (String.sub part 0 i), n_of_dec (String.sub part (i + 2) (String.length part - i - 2)))
      | None -> (n_of_dec part, n_of_dec part))
    (String.split_on_char '|' t)

let levels (fs : string list) =
  let fin (g, cur) = (g, List.rev cur) in
  let rec go lv acc = function
    | [] -> List.rev (fin lv :: acc)
    | "L" :: tl -> go (None, []) (fin lv :: acc) tl
    | x :: tl when String.length x > 0 && x.[0] = 'G' ->
        go (Some (parse_length (String.sub x 1 (String.length x - 1))), snd lv) acc tl
    | inv :: p :: tl -> go (fst lv, (inv = "1", unhex p) :: snd lv) acc tl
    | _ -> List.rev (fin lv :: acc) in
  match fs with "L" :: tl -> go (None, []) [] tl | l -> go (None, []) [] l

(* number of characters of a UTF-8 string: bytes that are not continuation bytes (ly_utf8len) *)
let nchars (s : string) =
  let n = ref 0 in
  String.iter (fun c -> if (Char.code c) land 0xC0 <> 0x80 then incr n) s; !n

let run (f : string list) : string =
  match f with
  | ["rewrite"; h] ->
      (match rewrite (unhex h) with
       | Ok q -> hex q
       | Err e -> (match int_of_n e with 9 -> "FUEL" | _ -> "E"))
  | "match" :: p :: ss ->
      let pat = unhex p in
      (match parse pat with
       | None -> String.concat "," (List.map (fun _ -> "X X") ss)
       | Some _ ->
           String.concat ","
             (List.map (fun s -> match xsd_match pat (unhex s) with
                                 | Some true -> "1 1"
                                 | Some false -> "0 0"
                                 | None -> "X X") ss))
  | "matchlist" :: s :: ps ->
      let cm p s = match xsd_match p s with Some b -> Ok b | None -> Err (n_of_int 1) in
      (match validate_patterns cm (pairs ps) (unhex s) with
       | Ok true -> "1"
       | Ok false -> "0"
       | Err _ -> "X")
  | "typeset" :: s :: fs ->
      let cm p s = match xsd_match p s with Some b -> Ok b | None -> Err (n_of_int 1) in
      let t = chain_type { st_length = None; st_patterns = [] } (levels fs) in
      let raw = if s = "-" then "" else String.init (String.length s / 2) (fun i -> Char.chr (int_of_string ("0x" ^ String.sub s (2 * i) 2))) in
      (match validate_string cm t (n_of_int (nchars raw)) (unhex s) with
       | Ok true -> "1"
       | Ok false -> "0"
       | Err _ -> "X")
  | _ -> "?"

let () = main_loop run
