(* run_regex.ml - dispatch of slice regex (Rewrite, Xsd, XsdParse); compiled after model_regex.ml and helpers.ml.
   rewrite <pattern>                       -> E | hex of the rewritten text | FUEL (model fuel exhausted: never)
   match <pattern> <string>+               -> per string "b b" (joined by ','), b = XSD answer 1/0, or "X X" (pattern
                                              outside the modelled XSD subset, or not UTF-8)
   matchlist <string> (<inv> <pattern>)*   -> 1/0 (validate_patterns over the XSD matcher), X as above *)
let rec pairs = function
  | inv :: p :: tl -> { pat_code = unhex p; pat_inverted = (inv = "1") } :: pairs tl
  | _ -> []

let run (f : string list) : string =
  match f with
  | ["rewrite"; h] ->
      (match rewrite (unhex h) with
       | Ok q -> hex q
       | Err e -> (match int_of_n e with 9 -> "FUEL" | _ -> "E"))
  | "match" :: p :: ss ->
      let pat = unhex p in
      (match parse pat with
       | None -> String.concat "," (List.map (fun _ -> "X X") ss)
       | Some _ ->
           String.concat ","
             (List.map (fun s -> match xsd_match pat (unhex s) with
                                 | Some true -> "1 1"
                                 | Some false -> "0 0"
                                 | None -> "X X") ss))
  | "matchlist" :: s :: ps ->
      let cm p s = match xsd_match p s with Some b -> Ok b | None -> Err (n_of_int 1) in
      (match validate_patterns cm (pairs ps) (unhex s) with
       | Ok true -> "1"
       | Ok false -> "0"
       | Err _ -> "X")
  | _ -> "?"

let () = main_loop run
