(* run_types2.ml - dispatch of slice types2 (TypesMore); compiled after model_types2.ml and helpers.ml.
   Type names and their parameters are those of the table TYPES in impl/t_types2.c (module types2):
     en   enumeration {red=10, green=-3, blue=11, "dark blue"=5, "7"=0}       (declaration order)
     bt   bits {b@0, a@2, cc@9, d@33, e@70}   bs  bits {x@0, y@1, z@2}        (position order, as compiled)
     bin  binary {length "0 | 2..4 | 48..49"}
     s    string        sl  string {length "0 | 2..5 | 8"}
     un   union {int8 {range 1..10} | enumeration {auto=0, "11"=1, "5"=2} | string {length 2..3}}
     un2  union {string {length 1} | int8} *)
let zz = z_of_dec
let pr l = List.map (fun (a, b) -> (zz a, zz b)) l
let bs (s : string) : n list = List.init (String.length s) (fun i -> n_of_int (Char.code s.[i]))

let en_def = [(bs "red", zz "10"); (bs "green", zz "-3"); (bs "blue", zz "11"); (bs "dark blue", zz "5"); (bs "7", zz "0")]
let bt_def = [(bs "b", n_of_int 0); (bs "a", n_of_int 2); (bs "cc", n_of_int 9); (bs "d", n_of_int 33); (bs "e", n_of_int 70)]
let bs_def = [(bs "x", n_of_int 0); (bs "y", n_of_int 1); (bs "z", n_of_int 2)]
let bin_parts = pr [("0", "0"); ("2", "4"); ("48", "49")]
let sl_parts = pr [("0", "0"); ("2", "5"); ("8", "8")]
let un_ms = [MInt (I8, pr [("1", "10")]); MEnum [(bs "auto", zz "0"); (bs "11", zz "1"); (bs "5", zz "2")]; MStr (pr [("2", "3")])]
let un2_ms = [MStr (pr [("1", "1")]); MInt (I8, [])]

type v = VE of (n list * z) | VB of n list * n | VBin of (n list * n list) | VS of n list | VU of (nat * mval) | VI of (n list * n list)

(* idr  identityref {base ba; base bb;} in module types2: ba, bb; iab {base ba; base bb;}; ia {base ba;}; ib {base bb;};
        iab2 {base iab;}  (base -> derived arrays); other modules of the context have no identities *)
let t2m = bs "types2"
let idn x = (t2m, bs x)
let idr_schema = { ids_modules = [(t2m, [bs "ba"; bs "bb"; bs "iab"; bs "ia"; bs "ib"; bs "iab2"])];
                   ids_derived = [(idn "ba", [idn "iab"; idn "ia"]); (idn "bb", [idn "iab"; idn "ib"]); (idn "iab", [idn "iab2"])] }
let idr_bases = [idn "ba"; idn "bb"]

let bits_def_of = function "bt" -> bt_def | _ -> bs_def
let un_of = function "un" -> un_ms | _ -> un2_ms

let store (ty : string) (s : n list) : v option =
  match ty with
  | "en" -> (match enum_store en_def s with Ok it -> Some (VE it) | Err _ -> None)
  | "bt" | "bs" -> (match bits_store (bits_def_of ty) s with Ok bm -> Some (VB (s, bm)) | Err _ -> None)
  | "bin" -> (match binary_store bin_parts s with Ok x -> Some (VBin x) | Err _ -> None)
  | "s" -> (match str_store [] s with Ok x -> Some (VS x) | Err _ -> None)
  | "sl" -> (match str_store sl_parts s with Ok x -> Some (VS x) | Err _ -> None)
  | "un" | "un2" -> (match union_store (un_of ty) s with Ok x -> Some (VU x) | Err _ -> None)
  | "idr" -> (match idref_store (nat_of_int 8) idr_schema t2m idr_bases s with Ok x -> Some (VI x) | Err _ -> None)
  | _ -> None

let canon (ty : string) (x : v) : n list =
  match x with
  | VE it -> enum_canon it
  | VB (_, bm) -> bits_canon (bits_def_of ty) bm
  | VBin b -> binary_canon b
  | VS s -> s
  | VU u -> union_canon u
  | VI i -> idref_canon i

let detail (ty : string) (x : v) : string =
  match x with
  | VE it -> " " ^ dec_of_z (snd it)
  | VB (_, bm) -> " " ^ hex (le_bytes (bits_size (bits_def_of ty)) bm)
  | VBin b -> " " ^ hex (fst b)
  | VS _ -> ""
  | VI _ -> ""
  | VU u -> " " ^ string_of_int (int_of_nat (fst u))

let equal (ty : string) (a : v) (b : v) : bool =
  match a, b with
  | VE x, VE y -> enum_compare x y
  | VB (_, x), VB (_, y) -> bits_compare x y
  | VBin x, VBin y -> binary_compare x y
  | VS x, VS y -> str_compare x y
  | VU x, VU y -> union_compare x y
  | VI x, VI y -> idref_compare x y
  | _ -> false

let sortc (ty : string) (a : v) (b : v) : comparison =
  match a, b with
  | VE x, VE y -> enum_sort x y
  | VB (_, x), VB (_, y) -> bits_sort (bits_size (bits_def_of ty)) x y
  | VBin x, VBin y -> binary_sort x y
  | VS x, VS y -> str_sort x y
  | VU x, VU y -> union_sort x y
  | VI x, VI y -> idref_sort x y
  | _ -> Eq

let run (f : string list) : string =
  match f with
  | ["tv"; ty; h] ->
      (match store ty (unhex h) with None -> "E" | Some x -> hex (canon ty x) ^ detail ty x)
  | ["cmp"; ty; a; b] ->
      (match store ty (unhex a), store ty (unhex b) with
       | Some x, Some y -> if equal ty x y then "0" else "1"
       | _ -> "E")
  | "srt" :: ty :: vals ->
      (* the values are inserted one by one; each goes after the last element that is not greater than it *)
      let stored = List.map (fun h -> store ty (unhex h)) vals in
      if List.exists (fun o -> o = None) stored then "E"
      else begin
        let rec insert y l =
          (* position after the last element x with not (y < x): scan from the right *)
          match l with
          | [] -> [y]
          | x :: r ->
              if List.exists (fun z -> sortc ty y z <> Lt) r then x :: insert y r
              else (match sortc ty y x with Lt -> y :: x :: r | _ -> x :: insert y r) in
        let seq = List.fold_left (fun acc o -> match o with Some x -> insert x acc | None -> acc) [] stored in
        String.concat " " (List.map (fun x -> hex (canon ty x)) seq)
      end
  | ["ip4z"; a; l] ->
      (* the stored address and prefix length of the text a.b.c.d/l; the driver refuses lengths above 32 *)
      if int_of_string l > 32 then "E"
      else let (x, y) = ip4p_store (n_of_dec a) (n_of_dec l) in dec_of_n x ^ " " ^ dec_of_n y
  | "iidp" :: _ :: _ :: toks ->
      (* the path as a structure: S <hex module> <hex name> | K <hex key> <hex value> | L <hex value> | P <position>;
         printed by IidCanon.iid_print, then read back and printed again *)
      let rec segs toks cur acc =
        let flush () = match cur with None -> acc | Some (m, n, ps) -> (((m, n), List.rev ps) :: acc) in
        match toks with
        | [] -> List.rev (flush ())
        | "S" :: m :: n :: r -> segs r (Some (unhex m, unhex n, [])) (flush ())
        | "K" :: k :: v :: r -> (match cur with Some (m, n, ps) -> segs r (Some (m, n, PKey (unhex k, unhex v) :: ps)) acc | None -> [])
        | "L" :: v :: r -> (match cur with Some (m, n, ps) -> segs r (Some (m, n, PLeaf (unhex v) :: ps)) acc | None -> [])
        | "P" :: d :: r -> (match cur with Some (m, n, ps) -> segs r (Some (m, n, PPos (n_of_dec d) :: ps)) acc | None -> [])
        | _ -> [] in
      let p = segs toks None [] in
      let c1 = iid_print p in
      (match iid_parse c1 with
       | Some q -> hex c1 ^ " " ^ hex (iid_print q)
       | None -> hex c1 ^ " P")
  | _ -> "?"

let () = main_loop run
