(* VERIF_USES: tree_io.ml *)
(* run_tree.ml - dispatch of the tree slice (Tree.v foundation); compiled after model_tree.ml, helpers.ml, tree_io.ml.
   Case line (also a valid lyx script: lyx answers ?cmd to the pseudo commands that start with #):
     treeio TAB #s <schema line> TAB #n <name table> TAB #d <dump of the parsed tree> TAB #p <seed> TAB <lyx commands>
   Answer: C=<canonb> U=<uniq_idsb> K=<schema_okb> R=<re-insertion in shuffled order gives the same forest> <dump> *)
let field (f : string list) (tag : string) : string =
  let p = "#" ^ tag ^ " " in
  let pl = String.length p in
  let rec go = function
    | [] -> raise (Tree_io ("missing #" ^ tag))
    | x :: r -> if String.length x >= pl && String.sub x 0 pl = p then String.sub x pl (String.length x - pl) else go r in
  go f

let b2s b = if b then "1" else "0"

let run (f : string list) : string =
  match f with
  | "treeio" :: rest ->
      (try
         let sch = parse_schema (field rest "s") in
         let nt = parse_names (field rest "n") in
         let fo = parse_dump nt (field rest "d") in
         let seed = int_of_string (field rest "p") in
         let re = rebuild sch (shuffle_forest sch seed fo) in
         Printf.sprintf "C=%s U=%s K=%s R=%s %s" (b2s (canonb sch None fo)) (b2s (uniq_idsb sch fo)) (b2s (schema_okb sch))
           (b2s (forest_eqb re fo)) (print_dump sch nt fo)
       with Tree_io m -> "E " ^ m)
  | _ -> "?"

let () = main_loop run
