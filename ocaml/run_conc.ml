(* run_conc.ml - dispatch of the conc slice (Sched.v); compiled after model_conc.ml and helpers.ml.

   A case line is the line of the C driver impl/t_conc.c (conc <nthr> <reps> <flags> <shared> <ndocs> docs... ops...)
   followed by the model's view of the same scenario:
     M:<ops>   one field per model thread (the C threads in order, then the main thread that frees the shared tree):
               comma separated  L<e> log_store | E ly_err_last | C ly_err_clean | I<hex> lydict_insert |
               R<hex> lydict_remove | P<v>:<hex> lazily caching print of shared value v with canonical string <hex> |
               F<v>:<hex> its free | Y lyb_cache_module_hash + read | V<f> private work
     O:<order> comma separated call order: <t> = thread t runs one API call to its end, <t>/<k> = thread t executes
               exactly k steps (preemption inside a call)
     K:<hex>,.. the strings whose final reference count is reported
   Output: dangling=<n> leak=<strings of K left in the dictionary> lockviol=<n> res=<t>:<E results>;...  where an E
   result is noerr | e<number of items> | dangling *)

let split_on c s = if s = "" then [] else String.split_on_char c s

let parse_op (s : string) : apiop =
  let rest = String.sub s 1 (String.length s - 1) in
  match s.[0] with
  | 'L' -> ALogStore (n_of_dec rest)
  | 'E' -> AErrLast
  | 'C' -> AErrClean
  | 'I' -> ADictInsert (unhex rest)
  | 'R' -> ADictRemove (unhex rest)
  | 'P' -> (match String.split_on_char ':' rest with
            | [v; h] -> APrintLazy (nat_of_int (int_of_string v), unhex h) | _ -> APriv N0)
  | 'F' -> (match String.split_on_char ':' rest with
            | [v; h] -> AFreeLazy (nat_of_int (int_of_string v), unhex h) | _ -> APriv N0)
  | 'Y' -> ALybHash
  | 'V' -> APriv (n_of_dec rest)
  | _ -> APriv N0

let parse_order (s : string) : (nat * nat option) list =
  List.map (fun e ->
      match String.split_on_char '/' e with
      | [t; k] -> (nat_of_int (int_of_string t), Some (nat_of_int (int_of_string k)))
      | _ -> (nat_of_int (int_of_string e), None)) (split_on ',' s)

let starts p s = String.length s >= String.length p && String.sub s 0 (String.length p) = p
let after p s = String.sub s (String.length p) (String.length s - String.length p)

let run (f : string list) : string =
  match f with
  | "conc" :: _ ->
      let ms = List.filter (starts "M:") f in
      let os = List.filter (starts "O:") f in
      let ks = List.filter (starts "K:") f in
      if ms = [] || os = [] then "nomodel"
      else begin
        let opss = List.map (fun m -> List.map parse_op (split_on ',' (after "M:" m))) ms in
        let order = parse_order (after "O:" (List.hd os)) in
        let keys = match ks with [] -> [] | k :: _ -> List.map unhex (split_on ',' (after "K:" k)) in
        let st0 = init (fun _ -> N0) (List.map compile opss) in
        let (st, tr) = run_calls order st0 in
        let nthr = List.length opss in
        let res = Array.make nthr [] in
        List.iter (fun (t, e) ->
            let i = int_of_nat t in
            match e with
            | EvErrGot None -> res.(i) <- "noerr" :: res.(i)
            | EvErrGot (Some []) -> res.(i) <- "noerr" :: res.(i)
            | EvErrGot (Some l) -> res.(i) <- Printf.sprintf "e%d" (List.length l) :: res.(i)
            | EvDangling false -> res.(i) <- "dangling" :: res.(i)
            | _ -> ()) tr;
        let leak = List.length (List.filter (fun k -> s_dict st k <> N0) keys) in
        Printf.sprintf "dangling=%d leak=%d lockviol=%d done=%b res=%s"
          (int_of_nat (count_ev is_dangling tr)) leak (int_of_nat (count_ev is_bad_access tr)) (all_done st)
          (String.concat ";" (List.mapi (fun i l -> Printf.sprintf "%d:%s" i (String.concat "," (List.rev l))) (Array.to_list res)))
      end
  | _ -> "?"

let () = main_loop run
