(* run_iff.ml - dispatch of the iff slice (IfFeature); compiled after model_iff.ml and helpers.ml *)
let show_err e = if int_of_n e = 7 then "EINT" else if int_of_n e = 99 then "MODEL-FUEL" else "E"

(* number of 2-bit records up to and including the k-th F record (3), as the C driver counts them *)
let count_codes (expr : n list) (k : int) : int =
  let arr = Array.of_list (List.map int_of_n expr) in
  let rec go pos seen =
    if seen = k then pos
    else if pos / 4 >= Array.length arr then pos
    else go (pos + 1) (if (arr.(pos / 4) lsr (2 * (pos mod 4))) land 3 = 3 then seen + 1 else seen) in
  go 0 0

let show_c ((expr, feat), cnt) =
  let names = List.map (function None -> "NULL" | Some w -> hex w) feat in
  let n = count_codes expr (int_of_n cnt) in
  let nb = (n + 3) / 4 in
  let rec take k l = if k = 0 then [] else match l with [] -> [] | x :: r -> x :: take (k - 1) r in
  Printf.sprintf "%s %d %s" (hex (take nb expr)) n (String.concat "," names)

let run (f : string list) : string =
  match f with
  | ["iffc"; h] ->
      (match compile_c lookup_abc true (unhex h) with
       | IOob -> "OOB" | IErr e -> show_err e | IOk c -> show_c c)
  | ["iffc10"; h] ->
      (match compile_c lookup_abc false (unhex h) with
       | IOob -> "OOB" | IErr e -> show_err e | IOk c -> show_c c)
  | "iffv" :: h :: asg :: _ ->
      (match compile_c lookup_abc true (unhex h) with
       | IOob -> "OOB" | IErr e -> show_err e
       | IOk c ->
           let b i = asg.[i] = '1' in
           (match iff_value c (env_abc (b 0) (b 1) (b 2)) with
            | IOob -> "OOB" | IErr e -> show_err e | IOk v -> if v then "1" else "0"))
  | _ -> "?"

let () = main_loop run
