(* run_types.ml - dispatch of slice types (IntLex, Dec64, TypesMisc); compiled after model_types.ml
   and helpers.ml. Leaf names encode the type exactly as in impl/t_types.c:
     i8 i16 i32 i64 u8 u16 u32 u64, <int>r = with the fixed range below, d1 d2 d9 d18 (fraction-digits),
     d1r d2r d9r d18r, b, and L<name> = leaf-list of the same type.
   The range lists are the compiled form (for decimal64: scaled by 10^fraction-digits) of the range
   statements in the module text of impl/t_types.c. *)
let zz = z_of_dec
let pr l = List.map (fun (a, b) -> (zz a, zz b)) l

let parts_of (name : string) =
  match name with
  | "i8r" -> pr [("-100", "-10"); ("0", "0"); ("5", "20"); ("100", "127")]
  | "i16r" -> pr [("-32768", "-32000"); ("-1", "1"); ("32767", "32767")]
  | "i32r" -> pr [("-2147483648", "-1000"); ("-5", "5"); ("10", "10"); ("1000", "2000000000")]
  | "i64r" -> pr [("-9223372036854775808", "-9223372036854775807"); ("-1", "1"); ("9223372036854775806", "9223372036854775807")]
  | "u8r" -> pr [("1", "10"); ("20", "20"); ("200", "255")]
  | "u16r" -> pr [("0", "0"); ("1000", "2000"); ("65535", "65535")]
  | "u32r" -> pr [("10", "20"); ("4294967295", "4294967295")]
  | "u64r" -> pr [("0", "9"); ("9223372036854775807", "9223372036854775808"); ("18446744073709551614", "18446744073709551615")]
  | "d1r" -> pr [("-9223372036854775808", "-1005"); ("-10", "10"); ("9223372036854775800", "9223372036854775807")]
  | "d2r" -> pr [("-1050", "-125"); ("0", "0"); ("314", "10000")]
  | "d9r" -> pr [("-1", "1"); ("1000000000", "2500000000")]
  | "d18r" -> pr [("-1500000000000000000", "-1"); ("500000000000000000", "9000000000000000000")]
  | _ -> []

type ty = TInt of ity | TDec of int | TBool | TNone

let ty_of (name0 : string) : ty * string =
  let name = if String.length name0 > 0 && name0.[0] = 'L' then String.sub name0 1 (String.length name0 - 1) else name0 in
  let base = if String.length name > 1 && name.[String.length name - 1] = 'r' then String.sub name 0 (String.length name - 1) else name in
  let t = match base with
    | "i8" -> TInt I8 | "i16" -> TInt I16 | "i32" -> TInt I32 | "i64" -> TInt I64
    | "u8" -> TInt U8 | "u16" -> TInt U16 | "u32" -> TInt U32 | "u64" -> TInt U64
    | "d1" -> TDec 1 | "d2" -> TDec 2 | "d9" -> TDec 9 | "d18" -> TDec 18
    | "b" -> TBool
    | _ -> TNone in
  (t, name)

(* stored value: integers and decimal64 as Z, boolean as 0/1 *)
type v = VZ of z | VB of bool

let store (name : string) (s : n list) : (ty * v) option =
  let (t, nm) = ty_of name in
  match t with
  | TInt it -> (match int_store it (parts_of nm) s with Ok x -> Some (t, VZ x) | Err _ -> None)
  | TDec fd -> (match dec64_store (nat_of_int fd) (parts_of nm) s with Ok x -> Some (t, VZ x) | Err _ -> None)
  | TBool -> (match bool_store s with Ok x -> Some (t, VB x) | Err _ -> None)
  | TNone -> None

let canon (t : ty) (x : v) : n list =
  match t, x with
  | TInt _, VZ z -> int_canon z
  | TDec fd, VZ z -> dec64_canon (nat_of_int fd) z
  | TBool, VB b -> bool_canon b
  | _ -> []

let equal (t : ty) (a : v) (b : v) : bool =
  match t, a, b with
  | TInt _, VZ x, VZ y -> int_compare x y
  | TDec _, VZ x, VZ y -> dec64_compare x y
  | TBool, VB x, VB y -> bool_compare x y
  | _ -> false

let sortc (t : ty) (a : v) (b : v) : comparison =
  match t, a, b with
  | TInt _, VZ x, VZ y -> int_sort x y
  | TDec _, VZ x, VZ y -> dec64_sort x y
  | TBool, VB x, VB y -> bool_sort x y
  | _ -> Eq

let run (f : string list) : string =
  match f with
  | [("intv" | "decv" | "boolv"); name; h] ->
      (match store name (unhex h) with None -> "E" | Some (t, x) -> hex (canon t x))
  | ["decvn"; name; h; _] ->
      (* the bytes placed after the value are not an input of the model: since /repo commits f731599 and
         f933623 lyplg_type_parse_dec64 reads nothing at or beyond value_len, so the answer is that of decv *)
      (match store name (unhex h) with None -> "E" | Some (t, x) -> hex (canon t x))
  | ["cmp"; name; a; b] ->
      (match store name (unhex a), store name (unhex b) with
       | Some (t, x), Some (_, y) -> if equal t x y then "0" else "1"
       | _ -> "E")
  | ["sort"; name; a; b] ->
      (* a is inserted first; b goes after the last element that is not greater than b *)
      (match store name (unhex a), store name (unhex b) with
       | Some (t, x), Some (_, y) ->
           (match sortc t y x with
            | Lt -> hex (canon t y) ^ " " ^ hex (canon t x)
            | _ -> hex (canon t x) ^ " " ^ hex (canon t y))
       | _ -> "E")
  | "range" :: _ :: v :: rest ->
      let rec parts = function
        | lo :: hi :: r -> (zz lo, zz hi) :: parts r
        | _ -> [] in
      if validate_range (parts rest) (zz v) then "1" else "0"
  | _ -> "?"

let () = main_loop run
