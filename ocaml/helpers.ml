(* helpers.ml — line-protocol driver around the OCaml extracted from the Coq models.
   Same input as the C drivers in ../impl (one case per line, TAB separated, hex byte strings),
   one output line per case. *)

let rec pos_of_int (i : int) : positive =
  if i = 1 then XH
  else if i land 1 = 0 then XO (pos_of_int (i lsr 1))
  else XI (pos_of_int (i lsr 1))
let n_of_int (i : int) : n = if i = 0 then N0 else Npos (pos_of_int i)
let rec int_of_pos = function
  | XH -> 1
  | XO p -> 2 * int_of_pos p
  | XI p -> 2 * int_of_pos p + 1
let int_of_n = function N0 -> 0 | Npos p -> int_of_pos p
let rec nat_of_int i = if i = 0 then O else S (nat_of_int (i - 1))
let rec int_of_nat = function O -> 0 | S k -> 1 + int_of_nat k

(* decimal strings of arbitrary size <-> N / Z (values can exceed 63 bits) *)
let n_of_dec (s : string) : n =
  let ten = n_of_int 10 in
  let acc = ref N0 in
  String.iter (fun ch -> acc := N.add (N.mul ten !acc) (n_of_int (Char.code ch - 48))) s;
  !acc
let dec_of_n (x : n) : string =
  if x = N0 then "0"
  else begin
    let ten = n_of_int 10 in
    let b = Buffer.create 20 in
    let rec go x acc =
      if x = N0 then acc
      else go (N.div x ten) (Char.chr (48 + int_of_n (N.modulo x ten)) :: acc) in
    List.iter (Buffer.add_char b) (go x []);
    Buffer.contents b
  end

let hexd c =
  match c with
  | '0' .. '9' -> Char.code c - 48
  | 'a' .. 'f' -> Char.code c - 87
  | 'A' .. 'F' -> Char.code c - 55
  | _ -> 0
let unhex (h : string) : n list =
  if h = "-" then []
  else begin
    let len = String.length h / 2 in
    let rec go i acc =
      if i < 0 then acc
      else go (i - 1) (n_of_int ((hexd h.[2 * i] lsl 4) lor hexd h.[2 * i + 1]) :: acc) in
    go (len - 1) []
  end
let hex (l : n list) : string =
  if l = [] then "-"
  else begin
    let b = Buffer.create 64 in
    List.iter (fun x -> Buffer.add_string b (Printf.sprintf "%02x" (int_of_n x land 255))) l;
    Buffer.contents b
  end

let split_tab s = String.split_on_char '\t' s


(* Z <-> decimal string with sign *)
let z_of_dec (s : string) : z =
  if String.length s > 0 && s.[0] = '-' then Z.opp (Z.of_N (n_of_dec (String.sub s 1 (String.length s - 1))))
  else Z.of_N (n_of_dec s)
let dec_of_z (x : z) : string =
  if Z.ltb x Z0 then "-" ^ dec_of_n (Z.abs_N x) else dec_of_n (Z.abs_N x)

(* main loop: [run] maps the TAB-separated fields of a case line to the result line *)
let main_loop (run : string list -> string) =
  try
    while true do
      let line = input_line stdin in
      let out = try run (split_tab line) with Stack_overflow -> "MODEL-STACK" | Not_found -> "MODEL-NOTFOUND" in
      print_string out;
      print_char '\n'
    done
  with End_of_file -> ()
