(* run_depset.ml - dispatch of slice depset (DepSet.v); compiled after model_depset.ml and helpers.ml.
   depset <start> <n> (<flags> <imports>)*n  ->  the indices of the dependency set of module <start>, comma separated *)
let has (s : string) (ch : char) = String.contains s ch

let run (f : string list) : string =
  match f with
  | "depset" :: start :: n :: rest ->
      let n = int_of_string n in
      let rec mods k r =
        if k = n then []
        else match r with
          | fl :: imps :: r' ->
              let il = if imps = "-" then [] else List.map (fun x -> nat_of_int (int_of_string x)) (String.split_on_char ',' imps) in
              { m_imports = il; m_feat = has fl 'f'; m_data = has fl 'd'; m_grp = has fl 'g'; m_aug = has fl 'a';
                m_dev = has fl 'v'; m_tpd = has fl 't' } :: mods (k + 1) r'
          | _ -> [] in
      let c = mods 0 rest in
      let s = nat_of_int (int_of_string start) in
      if dep_fuel_out c s then "FUEL"
      else String.concat "," (List.map (fun x -> string_of_int (int_of_nat x)) (dep_set_of c s))
  | _ -> "?"

let () = main_loop run
