(* run_sorted.ml - dispatch of the sorted slice (RBTree, Sorted); compiled after model_sorted.ml and helpers.ml.
   Same case lines and output format as impl/t_sorted.c (see its header comment). *)
let z_of_int (i : int) : z = z_of_dec (string_of_int i)
let int_of_z (x : z) : int = int_of_string (dec_of_z x)
let mk_elt (k : int) (id : int) : elt = (z_of_int k, n_of_int id)
let show_elt ((k, id) : elt) = Printf.sprintf "%d.%d" (int_of_z k) (int_of_n id)

let rec dump b (t : elt tree) =
  match t with
  | Leaf -> Buffer.add_char b '.'
  | Node (c, l, k, r) ->
      Buffer.add_char b '(';
      Buffer.add_char b (match c with Red -> 'R' | Black -> 'B');
      Buffer.add_string b (show_elt k);
      dump b l; dump b r;
      Buffer.add_char b ')'

let dump_s t = let b = Buffer.create 256 in dump b t; Buffer.contents b
let inv_s t = if rb_check elt_cmp t then "ok" else "MODEL-INV"
let arg_of tok = if String.length tok < 2 then 0 else int_of_string (String.sub tok 1 (String.length tok - 1))
let split_ops s = List.filter (fun x -> x <> "") (String.split_on_char ' ' s)

exception Null_deref

let run_rbs every ops =
  let ops = split_ops ops in
  let nops = List.length ops in
  let t = ref Leaf and next = ref 0 in
  let out = Buffer.create 1024 in
  (try
    List.iteri (fun opi tok ->
      if opi > 0 then Buffer.add_char out ' ';
      let a = arg_of tok in
      let show = every <= 1 || opi mod every = 0 || opi = nops - 1 in
      let sz = int_of_nat (size !t) in
      let res =
        match tok.[0] with
        | 'i' ->
            let x = mk_elt a !next in
            incr next;
            let mx = if !t = Leaf then true else rb_insert_max elt_cmp !t x in
            (match rb_insert elt_cmp !t x with
             | None -> raise Null_deref
             | Some t' -> t := t'; if mx then "1" else "0")
        | 'r' ->
            if a < 0 || a >= sz then "x"
            else (match rb_remove !t (nat_of_int a) with
                  | None -> raise Null_deref
                  | Some t' -> t := t'; "-")
        | 'f' ->
            if a < 0 || a >= sz then "x"
            else
              let x = List.nth (inorder !t) a in
              (match rb_find elt_cmp elt_ideq !t x with None -> "n" | Some j -> string_of_int (int_of_nat j))
        | 'g' ->
            if !t = Leaf then "x"
            else (match rb_find elt_cmp elt_ideq !t (mk_elt a 1000000) with None -> "n" | Some j -> string_of_int (int_of_nat j))
        | _ -> "?" in
      Buffer.add_string out res;
      Buffer.add_char out '/';
      Buffer.add_string out (if show then dump_s !t else "~");
      Buffer.add_char out '/';
      Buffer.add_string out (inv_s !t)) ops
  with Null_deref -> Buffer.add_string out "NULL-DEREF");
  Buffer.contents out

let run_lyds ty place every ops =
  ignore ty;
  let ops = split_ops ops in
  let nops = List.length ops in
  let s = ref { sibs = []; rbt = None } and pool = ref [] and next = ref 0 in
  let src = ref { sibs = []; rbt = None } in
  let chain = ref None in
  let after = String.length place > 1 && place.[1] = '2' in
  let out = Buffer.create 1024 in
  let rec remove_at i l = match l with [] -> [] | y :: r -> if i = 0 then r else y :: remove_at (i - 1) r in
  (try
    List.iteri (fun opi tok ->
      if opi > 0 then Buffer.add_char out ' ';
      let a = arg_of tok in
      let show = every <= 1 || opi mod every = 0 || opi = nops - 1 in
      let n = List.length !s.sibs in
      let res =
        match tok.[0] with
        | 'i' ->
            let x = mk_elt a !next in
            incr next;
            (match lyds_insert elt_cmp elt_ideq !s x false with None -> raise Null_deref | Some s' -> s := s'; "+")
        | 'a' ->
            let x = mk_elt a !next in
            incr next;
            s := lyds_append !s x; "+"
        | 'u' | 'd' ->
            if a < 0 || a >= n then "x"
            else
              let x = List.nth !s.sibs a in
              (match lyds_unlink elt_cmp elt_ideq !s (nat_of_int a) with
               | None -> raise Null_deref
               | Some (s', carries) ->
                   (* 0 no metadata, 1 metadata with a one-node tree, 2 metadata whose tree pointer is NULL (the copy a
                      duplicated leader got): an alone leader keeps what it has *)
                   let carries = if carries then 1 else (match !s.sibs, !s.rbt with [_], Some Leaf -> 2 | _ -> 0) in
                   s := s';
                   if tok.[0] = 'u' then pool := !pool @ [(x, carries)];
                   "-")
        | 'r' ->
            if a < 0 || a >= List.length !pool then "x"
            else
              let (x, carries) = List.nth !pool a in
              pool := remove_at a !pool;
              (match lyds_insert elt_cmp elt_ideq !s x (carries = 1) with
               | None -> raise Null_deref
               | Some s' -> s := (if carries = 2 then dup_first_meta true !s s' else s'); "+")
        | 'q' -> if List.exists (fun (k, _) -> int_of_z k = a) !s.sibs then "1" else "0"
        | 'c' ->
            let x = mk_elt a !next in
            incr next;
            (match lyds_insert elt_cmp elt_ideq !src x false with None -> raise Null_deref | Some s' -> src := s'; "+")
        | 'C' ->
            let x = mk_elt a !next in
            incr next;
            src := lyds_append !src x; "+"
        | 'p' ->
            if !src.sibs = [] then "x"
            else begin
              (* the duplicates get their identities in source order *)
              let xs = List.map (fun (k, _) -> let x = (k, n_of_int !next) in incr next; x) !src.sibs in
              let src_meta = !src.rbt <> None in
              let top = String.length place > 0 && place.[0] = 't' in
              let r =
                if top then begin
                  (* duplicates without parent (lyd_dup_siblings into nothing), then lyd_insert_sibling of the chain: one node
                     goes the lyd_insert_node way, several are moved (lyds_merge) *)
                  let c = if a = 1 || a = 4 then Some (lyds_dup_nolyds src_meta { sibs = []; rbt = None } xs)
                          else lyds_dup elt_cmp elt_ideq true false src_meta { sibs = []; rbt = None } xs in
                  match c with
                  | None -> None
                  | Some c ->
                      (match c.sibs with
                       | [x] when !s.sibs <> [] -> lyds_insert elt_cmp elt_ideq !s x false
                       | _ -> lyds_merge elt_cmp elt_ideq !s c)
                end else
                match a with
                | 0 | 2 -> lyds_dup elt_cmp elt_ideq true after src_meta !s xs
                | 1 | 4 -> Some (lyds_dup_nolyds src_meta !s xs)
                | _ ->
                    (* lyd_dup_single of each source instance: every one is inserted by the default path *)
                    let first = ref true in
                    List.fold_left (fun acc x ->
                      match acc with
                      | None -> None
                      | Some st ->
                          (match lyds_insert elt_cmp elt_ideq st x false with
                           | None -> None
                           | Some st' ->
                               let st' = if !first then dup_first_meta src_meta st st' else st' in
                               first := false; Some st')) (Some !s) xs in
              match r with None -> raise Null_deref | Some s' -> s := s'; "+"
            end
        | 's' ->
            (* lyd_unlink_siblings at the instance at position a: it and all following siblings become the chain *)
            if !chain <> None || a < 0 || a >= n then "x"
            else (match lyds_split elt_cmp elt_ideq !s (nat_of_int a) with
                  | None -> raise Null_deref
                  | Some (s1, c) -> s := s1; chain := Some c; "-")
        | 'm' ->
            (* lyd_insert_child / lyd_insert_sibling of the chain: one single node goes the lyd_insert_node way (siblings
               behind the (leaf-)list exist exactly for the placements *2), several nodes are moved (lyds_merge) *)
            (match !chain with
             | None -> "x"
             | Some c ->
                 chain := None;
                 let r =
                   match c.sibs with
                   | [x] when not after ->
                       lyds_insert elt_cmp elt_ideq !s x (match c.rbt with Some (Node (_, _, _, _)) -> true | _ -> false)
                   | _ -> lyds_merge elt_cmp elt_ideq !s c in
                 (match r with None -> raise Null_deref | Some s' -> s := s'; "+"))
        | 'g' ->
            (* lyd_merge_tree / lyd_merge_siblings of the source list; 1 = LYD_MERGE_DESTRUCT: the source instances
               themselves move, the pool holds the red-black nodes of the source tree; 0: duplicates (new identities for
               those that are inserted, in source order) *)
            if !src.sibs = [] then "x"
            else begin
              let r =
                if a = 1 then begin
                  let pool = match !src.rbt with Some (Node (_, _, _, _)) -> List.length !src.sibs | _ -> 0 in
                  let r = lyd_merge_list elt_cmp elt_ideq false (nat_of_int pool) !s !src.sibs in
                  src := { sibs = []; rbt = None };
                  r
                end else begin
                  let keys = ref (List.map (fun (k, _) -> int_of_z k) !s.sibs) in
                  let xs = List.filter_map (fun (k, _) ->
                    if List.mem (int_of_z k) !keys then None
                    else begin keys := int_of_z k :: !keys; let x = (k, n_of_int !next) in incr next; Some x end) !src.sibs in
                  lyd_merge_list elt_cmp elt_ideq false O !s xs
                end in
              match r with None -> raise Null_deref | Some s' -> s := s'; "+"
            end
        | _ -> "?" in
      Buffer.add_string out res;
      Buffer.add_char out '/';
      if show then begin
        Buffer.add_string out "s=";
        Buffer.add_string out (String.concat "," (List.map show_elt !s.sibs));
        Buffer.add_string out ";t=";
        Buffer.add_string out (match !s.rbt with None -> "-" | Some t -> dump_s t);
        Buffer.add_string out ";m=";
        Buffer.add_string out (match !s.rbt with None -> "-" | Some _ -> "0");
        Buffer.add_string out ";p=";
        Buffer.add_string out (String.concat "," (List.map (fun (x, c) -> show_elt x ^ (if c = 1 then "T" else if c = 2 then "m" else "")) !pool))
      end else Buffer.add_char out '~';
      Buffer.add_char out '/';
      (* model-side invariant: the tree (when present) satisfies rb_check and its in-order walk is the sibling order *)
      Buffer.add_string out
        (match !s.rbt with
         | None -> "ok"
         | Some Leaf -> "ok"
         | Some t -> if not (rb_check elt_cmp t) then "MODEL-INV" else if inorder t = !s.sibs then "ok" else "S")) ops
  with Null_deref -> Buffer.add_string out "NULL-DEREF");
  Buffer.contents out

(* ---- sib: all children of one parent (Siblings.v) ---- *)
let sib_sys i = int_of_nat i = 2
let sib_user i = let k = int_of_nat i in k = 4 || k = 5
let sib_hi _ = nat_of_int 8

let show_snode (n : snode) =
  match n.sidx with
  | Some i -> Printf.sprintf "%d:%d#%d" (int_of_nat i) (int_of_z n.skey) (int_of_n n.sid)
  | None -> Printf.sprintf "~%c#%d" (Char.chr (int_of_z n.skey)) (int_of_n n.sid)

let run_sib place ops =
  let ops = split_ops ops in
  let l = ref [] and pool = ref [] and next = ref 0 in
  let out = Buffer.create 1024 in
  let rec remove_nth_l i l = match l with [] -> [] | y :: r -> if i = 0 then r else y :: remove_nth_l (i - 1) r in
  let ins x =
    (* the children hash table exists in a container with at least 4 children (LYD_HT_MIN_ITEMS) *)
    let ht = place = "c" && List.length !l >= 4 in
    l := sib_insert sib_sys false sib_hi ht !l x in
  List.iteri (fun opi tok ->
    if opi > 0 then Buffer.add_char out ' ';
    let n = List.length !l in
    let mk sidx key = let x = { sidx = sidx; skey = z_of_int key; sid = n_of_int !next } in incr next; x in
    let rest = String.sub tok 1 (String.length tok - 1) in
    let res =
      match tok.[0] with
      | 'L' ->
          let a = int_of_string rest in
          let lidx = [| 0; 0; 1; 3; 6; 7; 8 |] in
          if a < 1 || a > 6 then "x"
          else
            let si = lidx.(a) in
            if List.exists (fun m -> m.sidx = Some (nat_of_int si)) !l then "x"
            else (ins (mk (Some (nat_of_int si)) 0); "+")
      | 'S' -> ins (mk (Some (nat_of_int 2)) (int_of_string rest)); "+"
      | 'U' -> ins (mk (Some (nat_of_int 4)) (int_of_string rest)); "+"
      | 'V' -> ins (mk (Some (nat_of_int 5)) (int_of_string rest)); "+"
      | 'O' -> ins (mk None (Char.code (if rest = "" then 'x' else rest.[0]))); "+"
      | 'A' | 'B' ->
          (match String.split_on_char '.' rest with
           | [a; b] ->
               let i = int_of_string a and j = int_of_string b in
               if i < 0 || i >= n || j < 0 || j >= n then "x"
               else (match sib_move sib_user false (tok.[0] = 'A') !l (nat_of_int i) (nat_of_int j) with
                     | None -> "E"
                     | Some l' -> l := l'; "+")
           | _ -> "?")
      | 'X' | 'Y' ->
          let i = int_of_string rest in
          if i < 0 || i >= n then "x"
          else begin
            if tok.[0] = 'Y' then pool := !pool @ [List.nth !l i];
            l := remove_at (nat_of_int i) !l; "-"
          end
      | 'R' ->
          let j = int_of_string rest in
          if j < 0 || j >= List.length !pool then "x"
          else begin
            let x = List.nth !pool j in
            pool := remove_nth_l j !pool;
            ins x; "+"
          end
      | _ -> "?" in
    Buffer.add_string out res;
    Buffer.add_char out '/';
    Buffer.add_string out (String.concat "," (List.map show_snode !l));
    Buffer.add_string out "/ok") ops;
  Buffer.contents out

let run (f : string list) : string =
  match f with
  | ["rbs"; every; ops] -> run_rbs (int_of_string every) ops
  | ["lyds"; ty; place; every; ops] ->
      if List.mem ty ["i8"; "str"; "d64"; "un"; "l1"; "l2"] then run_lyds ty place (int_of_string every) ops else "?"
  | ["sib"; place; ops] -> run_sib place ops
  | _ -> "?"

let () = main_loop run
