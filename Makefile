# Top-level build of the verification framework (MANIFEST.setup_cmd = make setup)
.PHONY: setup coq model clean
setup: coq model
	python3 tools/setup.py

coq:
	python3 tools/gen_consts.py
	cd coq && coq_makefile -f _CoqProject -o Makefile && timeout 3000 $(MAKE) -j16

model: coq
	cp coq/model.ml coq/model.mli ocaml/
	cd ocaml && ocamlfind ocamlopt -w -a -inline 100 model.mli model.ml modelrun.ml -o modelrun

clean:
	-cd coq && $(MAKE) clean
	rm -f coq/Makefile coq/Makefile.conf coq/model.ml coq/model.mli ocaml/model.ml ocaml/model.mli ocaml/modelrun ocaml/*.cm* ocaml/*.o
