# Top-level build of the verification framework (MANIFEST.setup_cmd = make setup)
.PHONY: setup clean
setup:
	python3 tools/setup.py

clean:
	-cd coq && $(MAKE) clean
	rm -rf coq/Makefile coq/Makefile.conf coq/model_*.ml coq/model_*.mli ocaml/_b_* ocaml/modelrun_*
