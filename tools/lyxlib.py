"""lyxlib.py - building scripts for impl/lyx.c and reading its answers."""
from vlib import hexs, unhex

# option constants (values of the libyang headers; checked against the tree by props/consts check)
PARSE_ONLY = 0x010000
PARSE_STRICT = 0x020000
PARSE_OPAQ = 0x040000
PARSE_NO_STATE = 0x080000
PARSE_ORDERED = 0x200000
VAL_NO_STATE = 0x1
VAL_PRESENT = 0x2
VAL_MULTI = 0x4
VAL_OPERATIONAL = 0x8
PRINT_SIBLINGS = 0x01
PRINT_SHRINK = 0x02
PRINT_KEEPEMPTY = 0x04
WD_EXPLICIT = 0x00
WD_TRIM = 0x10
WD_ALL = 0x20
WD_ALL_TAG = 0x40
WD_IMPL_TAG = 0x80
CMP_FULL = 0x01          # LYD_COMPARE_FULL_RECURSION
CMP_DEFAULTS = 0x02      # LYD_COMPARE_DEFAULTS
CMP_OPAQ = 0x04
DUP_RECURSIVE = 0x01
DUP_NO_META = 0x02
DUP_WITH_PARENTS = 0x04
DUP_WITH_FLAGS = 0x08
DIFF_DEFAULTS = 0x01
MERGE_DESTRUCT = 0x01
MERGE_DEFAULTS = 0x02
MERGE_WITH_FLAGS = 0x04
NEWPATH_OUTPUT = 0x01
NEWPATH_UPDATE = 0x20
NEWPATH_OPAQ = 0x40
IMPLICIT_NO_STATE = 0x01
CTX_ALL_IMPLEMENTED = 0x01
CTX_NO_YANGLIBRARY = 0x04
CTX_EXPLICIT_COMPILE = 0x80
CTX_SET_PRIV_PARSED = 0x40


import os
from vlib import REPO
TEST_MODULES = os.path.join(REPO, "tests", "modules", "yang")


class Script:
    def __init__(self):
        self.cmds = []

    def add(self, *words):
        self.cmds.append(" ".join(str(w) for w in words))
        return len(self.cmds) - 1

    def ctx(self, c=0, opts=0, searchdir=None):
        if searchdir:
            return self.add("ctx", "c%d" % c, opts, searchdir)
        return self.add("ctx", "c%d" % c, opts)

    def load(self, name, c=0, rev="-", feats="-"):
        return self.add("load", "c%d" % c, name, rev, feats)

    def mod(self, text, c=0, feats="-"):
        return self.add("mod", "c%d" % c, feats, hexs(text))

    def parse(self, t, fmt, data, popts=PARSE_STRICT, vopts=VAL_PRESENT, c=0):
        return self.add("parse", "c%d" % c, "t%d" % t, fmt, popts, vopts, hexs(data))

    def print(self, t, fmt, opts=PRINT_SIBLINGS | PRINT_SHRINK):
        return self.add("print", "t%s" % t, fmt, opts)

    def dump(self, t, opts=0):
        return self.add("dump", "t%d" % t, opts)

    def line(self):
        return "lyx\t" + "\t".join(self.cmds)


def results(out):
    """split the answer line of a case into per-command results (+ the end summary as last item)"""
    return out.split(" | ")


def rc(res):
    """leading return code of a result ('0', '7/15/too-many-elements', '0 <hex>')"""
    head = res.split(" ")[0].split("/")[0].split("!")[0].split("~")[0]
    try:
        return int(head)
    except ValueError:
        return None


def payload(res):
    parts = res.split(" ")
    return unhex(parts[1]) if len(parts) > 1 else b""
