#!/usr/bin/env python3
"""t2.py <props.module> <ClassName> [--tier quick|thorough] [--kind rel|asan] [--show N]
Development helper: run the correspondence (Comp) or oracle (Oracle) class on the current /repo tree
and print the disagreements / failures."""
import argparse
import importlib
import os
import random
import sys

sys.path.insert(0, os.path.dirname(os.path.abspath(__file__)))
import vlib  # noqa: E402
import check  # noqa: E402


def main():
    ap = argparse.ArgumentParser()
    ap.add_argument("module")
    ap.add_argument("cls")
    ap.add_argument("--tier", default="quick")
    ap.add_argument("--kind", default="rel")
    ap.add_argument("--show", type=int, default=10)
    ap.add_argument("--seed", type=int, default=1)
    a = ap.parse_args()
    vlib.build_lib("rel")
    vlib.gen_consts()
    ok, out = vlib.coq_make()
    if not ok:
        print(out[-3000:])
        print("WARNING: coq build failed (continuing if the extraction exists)")
    obj = getattr(importlib.import_module(a.module), a.cls)()
    rep = vlib.Report("DEV", a.tier, a.seed)
    rng = random.Random("dev-%d" % a.seed)
    if hasattr(obj, "judge"):
        fails = check.run_oracle(rep, obj, rng, a.tier, a.kind)
        print(rep.oracles)
        for f in fails[:a.show]:
            print("FAIL tag=%s detail=%s\n  case=%s\n  out=%s\n  err=%s" % (f[0], f[1], f[2][:600], f[3][:600], f[4][:2500]))
    else:
        mism = check.run_t2(rep, obj, rng, a.tier, a.kind)
        print(rep.t2)
        for m in mism[:a.show]:
            print("MISMATCH case=%s\n  model=%s\n  impl =%s\n  %s" % (m[0][:600], m[1][:600], m[2][:600], m[3][-600:]))
    return 0


if __name__ == "__main__":
    sys.exit(main())
