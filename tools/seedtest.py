#!/usr/bin/env python3
"""seedtest.py <seeded-dir>... [--tier quick|thorough] [--props C06,C13] [--keep]

Runs the registered checks against a seeded change (seeded/<name>/patch.diff + meta.json) WITHOUT touching /repo or
/verif: a scratch git worktree of /repo gets the patch, a scratch copy of /verif (with its compiled Coq files) runs the
check of the property the change is meant to break (meta.json "property"; --props adds others) with VERIF_REPO pointing
at the worktree and its own build cache. Writes seeded/<name>/result.json (which checks fired, first VIOLATION lines,
replay summary) and removes the scratch directories.
"""
import argparse
import json
import os
import re
import shutil
import subprocess
import sys
import tempfile
import time

VERIF = os.path.dirname(os.path.dirname(os.path.abspath(__file__)))
REPO = "/repo"


def sh(cmd, **kw):
    return subprocess.run(cmd, shell=isinstance(cmd, str), stdout=subprocess.PIPE, stderr=subprocess.STDOUT, text=True, **kw)


def run_one(sdir, tier, extra_props, keep, seeds):
    sdir = os.path.abspath(sdir)
    name = os.path.basename(sdir.rstrip("/"))
    meta = json.load(open(os.path.join(sdir, "meta.json")))
    props = [meta["property"]] + [p for p in extra_props if p != meta["property"]]
    tmp = tempfile.mkdtemp(prefix="seed-%s-" % name, dir="/tmp")
    wt = os.path.join(tmp, "repo")
    vs = os.path.join(tmp, "verif")
    br = os.path.join("/var/tmp", "vb-seed-%s-%d" % (name, os.getpid()))
    res = {"name": name, "property": meta["property"], "tier": tier, "checks": {}, "at": time.strftime("%Y-%m-%d %H:%M:%S")}
    try:
        r = sh(["git", "-C", REPO, "worktree", "add", "--detach", wt, "HEAD"])
        if r.returncode:
            raise RuntimeError("worktree: " + r.stdout)
        res["repo_head"] = sh(["git", "-C", REPO, "rev-parse", "--short", "HEAD"]).stdout.strip()
        r = sh(["git", "-C", wt, "apply", "--whitespace=nowarn", os.path.join(sdir, "patch.diff")])
        if r.returncode:
            r3 = sh(["git", "-C", wt, "apply", "-3", "--whitespace=nowarn", os.path.join(sdir, "patch.diff")])
            if r3.returncode:
                res["error"] = "patch does not apply to the current tree: " + r.stdout[-500:]
                return res
        sh(["rsync", "-a", "--exclude", ".git", "--exclude", "replays", "--exclude", "seeded", VERIF + "/", vs + "/"])
        env = dict(os.environ)
        env.update({"VERIF_REPO": wt, "VERIF_BUILD_ROOT": br})
        for pid in props:
            fired = []
            for seed in seeds:
                env["VERIF_SEED"] = str(seed)
                t0 = time.time()
                r = sh([sys.executable, os.path.join(vs, "tools", "check.py"), pid, "--tier", tier], env=env, cwd=vs)
                vio = [l for l in r.stdout.split("\n") if l.startswith("VIOLATION")]
                ent = {"seed": seed, "rc": r.returncode, "violations": len(vio), "wall_s": round(time.time() - t0, 1),
                       "first": vio[:3], "tail": r.stdout[-400:]}
                if vio:
                    m = re.search(r"replay=(\S+)", vio[0])
                    if m and os.path.exists(m.group(1)):
                        rp = json.load(open(m.group(1)))
                        ent["replay"] = {k: (str(v)[:300]) for k, v in rp.items() if k in
                                         ("what", "oracle", "component", "detail", "broken", "case", "tag", "model_output", "impl_output")}
                    ent["with_input"] = not vio[0].rstrip().endswith("no-failing-input-found")
                fired.append(ent)
                if vio:
                    break
            res["checks"][pid] = fired
        res["caught_by"] = [p for p, f in res["checks"].items() if any(e["violations"] for e in f)]
        res["caught"] = meta["property"] in res["caught_by"]
    finally:
        if not keep:
            sh(["git", "-C", REPO, "worktree", "remove", "--force", wt])
            shutil.rmtree(tmp, ignore_errors=True)
            shutil.rmtree(br, ignore_errors=True)
            sh(["git", "-C", REPO, "worktree", "prune"])
    json.dump(res, open(os.path.join(sdir, "result.json"), "w"), indent=1)
    return res


def main():
    ap = argparse.ArgumentParser()
    ap.add_argument("dirs", nargs="+")
    ap.add_argument("--tier", default="quick")
    ap.add_argument("--props", default="")
    ap.add_argument("--seeds", default="1")
    ap.add_argument("--keep", action="store_true")
    a = ap.parse_args()
    for d in a.dirs:
        r = run_one(d, a.tier, [p for p in a.props.split(",") if p], a.keep, [int(x) for x in a.seeds.split(",")])
        print("%s: property %s caught=%s by=%s %s" % (r["name"], r["property"], r.get("caught"), r.get("caught_by"), r.get("error", "")))
    return 0


if __name__ == "__main__":
    sys.exit(main())
