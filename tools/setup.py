#!/usr/bin/env python3
"""setup.py - pre-build what the checks need for the unchanged tree (static libyang in its build
flavours and the impl drivers), so that quick checks start from warm caches."""
import glob
import os
import sys
from concurrent.futures import ThreadPoolExecutor

sys.path.insert(0, os.path.dirname(os.path.abspath(__file__)))
import vlib  # noqa: E402


def main():
    kinds = ["rel", "asan"]
    vlib.build_lib("rel")
    print(vlib.gen_consts().strip())
    ok, out = vlib.coq_make()
    print(out[-3000:])
    if not ok:
        print("SETUP: Coq development failed to build")
        return 1
    for s in vlib.slices():
        vlib.build_model(s)
    for k in kinds:
        vlib.build_lib(k)
    drivers = [os.path.basename(p)[:-2] for p in glob.glob(os.path.join(vlib.IMPL, "*.c"))]
    jobs = [(d, k) for d in drivers for k in kinds]

    def b(j):
        try:
            vlib.build_driver(*j)
        except vlib.BuildError as e:
            print(e)
    with ThreadPoolExecutor(max_workers=vlib.NCPU) as ex:
        list(ex.map(b, jobs))
    return 0


if __name__ == "__main__":
    sys.exit(main())
