#!/usr/bin/env python3
"""setup.py - pre-build what the checks need for the unchanged tree (static libyang in its build
flavours and the impl drivers), so that quick checks start from warm caches."""
import glob
import os
import sys
from concurrent.futures import ThreadPoolExecutor

sys.path.insert(0, os.path.dirname(os.path.abspath(__file__)))
import vlib  # noqa: E402


def main():
    kinds = ["rel", "asan"]
    vlib.build_lib("rel")
    print(vlib.gen_consts().strip())
    # build what the registered property checks rest on (Properties_<id>*.v, Extract_<slice>.v and their imports);
    # files of slices that no registered check uses yet are not allowed to break the setup
    import importlib
    tops, used_slices = [], set()
    for pf in sorted(glob.glob(os.path.join(vlib.VERIF, "tools", "props", "C[0-9][0-9].py"))):
        pid = os.path.basename(pf)[:-3]
        prop = importlib.import_module("props." + pid)
        sl = [c.slice for c in prop.components() if getattr(c, "slice", "")]
        used_slices |= set(sl)
        tops += vlib.property_files(pid, sl)[0]
    tops = sorted(set(tops))
    ok, out = vlib.coq_make([t[:-2] + ".vo" for t in tops])
    print(out[-3000:])
    if not ok:
        # not fatal: every check rebuilds its own closure and reports a proof that does not build as a violation of
        # *its* property; one slice must not take the checks of all the other properties down with it
        print("SETUP: parts of the Coq development failed to build (the checks resting on them will report it)")
    for s in sorted(used_slices):
        try:
            vlib.build_model(s)
        except Exception as e:      # noqa: BLE001
            print("SETUP: model runner of slice %s does not build: %s" % (s, str(e)[-300:]))
    for k in kinds:
        vlib.build_lib(k)
    drivers = [os.path.basename(p)[:-2] for p in glob.glob(os.path.join(vlib.IMPL, "*.c"))]
    jobs = [(d, k) for d in drivers for k in kinds]

    failed = []

    def b(j):
        try:
            vlib.build_driver(*j)
        except vlib.BuildError as e:
            print(e)
            failed.append(j)
    with ThreadPoolExecutor(max_workers=vlib.NCPU) as ex:
        list(ex.map(b, jobs))
    if failed:
        print("SETUP: drivers that do not build: %s (checks using them will report it)" % failed)
    return 0


if __name__ == "__main__":
    sys.exit(main())
