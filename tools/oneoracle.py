#!/usr/bin/env python3
"""oneoracle.py <Cxx> <oracle-name> [--seeds 1,2,3] [--tier thorough] [--kind rel|asan]

Development helper: runs ONE property oracle of a property over several seeds against the tree VERIF_REPO points at and
prints the failures grouped by tag (first case line of each)."""
import argparse
import importlib
import os
import random
import sys

sys.path.insert(0, os.path.dirname(os.path.abspath(__file__)))
import vlib  # noqa: E402
import check  # noqa: E402


class Rep:
    def __init__(self):
        self.oracles = {}

    def count(self, *a, **k):
        pass

    def sample(self, *a, **k):
        pass


def main():
    ap = argparse.ArgumentParser()
    ap.add_argument("pid")
    ap.add_argument("oracle")
    ap.add_argument("--seeds", default="1")
    ap.add_argument("--tier", default="thorough")
    ap.add_argument("--kind", default="rel")
    a = ap.parse_args()
    prop = importlib.import_module("props." + a.pid)
    orcs = [o for o in (prop.oracles_() if hasattr(prop, "oracles_") else prop.oracles()) if o.name == a.oracle]
    if not orcs:
        print("no such oracle; have:", [o.name for o in (prop.oracles_() if hasattr(prop, "oracles_") else prop.oracles())])
        return 2
    vlib.build_lib(a.kind)
    tot = {}
    for s in a.seeds.split(","):
        rep = Rep()
        fails = check.run_oracle(rep, orcs[0], random.Random(int(s)), a.tier, a.kind)
        print("seed %s: %s" % (s, rep.oracles))
        for tag, detail, l, o, e in fails:
            t = tot.setdefault(tag, [0, detail, l, e])
            t[0] += 1
    for tag, (n, detail, l, e) in tot.items():
        print("TAG %s x%d: %s\n   case: %s\n   err: %s" % (tag, n, str(detail)[:400], l[:3000], str(e)[-400:]))
    return 0


if __name__ == "__main__":
    sys.exit(main())
