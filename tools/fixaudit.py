#!/usr/bin/env python3
"""fixaudit.py - lists the fix: commits of /repo that no known-findings file records as `fixed` (and fixed entries that name
a commit /repo does not have). Run before committing /verif."""
import os
import subprocess
import sys

sys.path.insert(0, os.path.dirname(os.path.abspath(__file__)))
import vlib  # noqa: E402


def main():
    log = subprocess.run(["git", "-C", "/repo", "log", "--reverse", "--format=%h %s", "921cb7f..HEAD"],
                         stdout=subprocess.PIPE, text=True, check=True).stdout.strip().split("\n")
    commits = {l.split(" ", 1)[0][:7]: l.split(" ", 1)[1] for l in log}
    rec = {}
    for k in vlib.load_known():
        if k.get("status") != "fixed":
            continue
        for key in ("commit", "fixed_by", "commits"):
            v = k.get(key)
            for c in (v if isinstance(v, list) else str(v or "").replace(",", " ").split()):
                rec.setdefault(str(c)[:7], []).append((k.get("property"), k.get("tag")))
    miss = [(c, s) for c, s in commits.items() if c not in rec]
    for c, s in miss:
        print("UNRECORDED %s %s" % (c, s))
    for c in rec:
        if c not in commits and len(c) == 7 and all(ch in "0123456789abcdef" for ch in c):
            print("UNKNOWN-COMMIT %s %s" % (c, rec[c][:2]))
    print("%d fix commits, %d unrecorded" % (len(commits), len(miss)))
    return 0


if __name__ == "__main__":
    sys.exit(main())
