#!/usr/bin/env python3
"""check.py <property-id> [--tier quick|thorough] [--replay <file>]

Decides one property of /verif/properties.jsonl for /repo's current working tree:
  P   re-check the Coq theorems of coq/Properties_<id>.v (after regenerating Gen/Consts.v from the
      tree, tie T1) and parse their Print Assumptions,
  T2  run the extracted model and the implementation on the same generated cases and diff,
  O   run the property-level oracles on the implementation (these only ever report concrete
      failing inputs),
  S   when P or T2 no longer checks, search for a concrete failing input of the property itself;
      report VIOLATION with it, or VIOLATION ... no-failing-input-found naming what broke.
Exit 0 = held on everything explored; exit 1 = at least one VIOLATION line was printed.
"""
import argparse
import importlib
import json
import os
import random
import sys
import time

sys.path.insert(0, os.path.dirname(os.path.abspath(__file__)))
import vlib  # noqa: E402
from vlib import log  # noqa: E402


def load_prop(pid):
    return importlib.import_module("props." + pid)


def run_t2(rep, comp, rng, tier, kind="rel", budget_scale=1.0):
    """Correspondence of one component: returns list of mismatching (line, model_out, impl_out)."""
    lines = []
    corpus = os.path.join(vlib.VERIF, "corpus", comp.name + ".txt")
    if os.path.exists(corpus):
        lines += [l.rstrip("\n") for l in open(corpus) if l.strip() and not l.startswith("#")]
    lines += comp.gen(rng, tier, budget_scale)
    # de-duplicate, keep order
    seen = set()
    ulines = []
    for l in lines:
        if l not in seen:
            seen.add(l)
            ulines.append(l)
    lines = ulines
    exe = vlib.build_driver(comp.driver, kind, getattr(comp, "extra_cflags", ""))
    model = vlib.build_model(comp.slice)
    t0 = time.time()
    mout, _ = vlib.run_sharded(model, lines, timeout=600)
    t1 = time.time()
    env = dict(os.environ)
    env["ASAN_OPTIONS"] = "detect_leaks=0:abort_on_error=1:allocator_may_return_null=1"
    env["UBSAN_OPTIONS"] = "halt_on_error=1:abort_on_error=1:print_stacktrace=1"
    iout, ierr = vlib.run_sharded(exe, lines, timeout=600, env=env)
    t2 = time.time()
    mism = []
    if len(mout) != len(lines) or len(iout) != len(lines):
        raise vlib.BuildError("driver protocol error for %s: %d cases, %d model answers, %d implementation answers"
                              % (comp.name, len(lines), len(mout), len(iout)))
    for i, (l, m, o) in enumerate(zip(lines, mout, iout)):
        rep.count(comp.name, l, nontrivial=True)
        if comp.norm(l, m) != comp.norm(l, o):
            mism.append((l, m, o, ierr.get(i, "")))
    for l in lines[:2]:
        rep.sample({"component": comp.name, "case": l[:300]})
    if lines:
        k = rng.randrange(len(lines))
        rep.sample({"component": comp.name, "case": lines[k][:300], "model": mout[k][:200], "impl": iout[k][:200]})
    rep.t2[comp.name + ("" if kind == "rel" else "@" + kind)] = {
        "cases": len(lines), "mismatches": len(mism), "model_s": round(t1 - t0, 2), "impl_s": round(t2 - t1, 2),
        "driver": comp.driver, "build": kind}
    return mism


def run_oracle(rep, orc, rng, tier, kind="rel", budget_scale=1.0):
    """Property-level oracle on the implementation. Returns list of failures (tag, detail, line)."""
    lines = []
    corpus = os.path.join(vlib.VERIF, "corpus", orc.name + ".txt")
    if os.path.exists(corpus):
        lines += [l.rstrip("\n") for l in open(corpus) if l.strip() and not l.startswith("#")]
    lines += orc.gen(rng, tier, budget_scale)
    seen = set()
    lines = [l for l in lines if not (l in seen or seen.add(l))]
    exe = vlib.build_driver(orc.driver, kind, getattr(orc, "extra_cflags", "")) if orc.driver else None
    env = dict(os.environ)
    env["ASAN_OPTIONS"] = "detect_leaks=%d:abort_on_error=1:allocator_may_return_null=1" % (1 if getattr(orc, "leaks", False) else 0)
    env["UBSAN_OPTIONS"] = "halt_on_error=1:abort_on_error=1:print_stacktrace=1"
    env["TSAN_OPTIONS"] = "halt_on_error=0:exitcode=0"
    t0 = time.time()
    if exe:
        outs, errs = vlib.run_sharded(exe, lines, timeout=getattr(orc, "timeout", 600), env=env,
                                      shards=getattr(orc, "shards", None))
    else:
        outs, errs = orc.run(lines), {}
    fails = []
    for i, (l, o) in enumerate(zip(lines, outs)):
        rep.count(orc.name, l, nontrivial=True)
        orc.last_err = errs.get(i, "")
        j = orc.judge(l, o)
        if j:
            tag, detail = j
            fails.append((tag, detail, l, o, errs.get(i, "")))
    skipped = getattr(orc, "skipped", 0)
    if lines and skipped * 20 > len(lines):
        fails.append((None, "%d of %d generated cases were not judged because the implementation rejected an input that is "
                            "valid by construction" % (skipped, len(lines)), lines[0], outs[0], ""))
    for l, o in list(zip(lines, outs))[:1]:
        rep.sample({"oracle": orc.name, "case": l[:300], "impl": o[:200]})
    if lines:
        k = rng.randrange(len(lines))
        rep.sample({"oracle": orc.name, "case": lines[k][:300], "impl": outs[k][:200]})
    rep.oracles[orc.name + ("" if kind == "rel" else "@" + kind)] = {
        "cases": len(lines), "failures": len(fails), "not_judged": skipped, "impl_s": round(time.time() - t0, 2),
        "build": kind, "what": orc.__doc__ or ""}
    return fails


def encode_script(script):
    """known_findings.json replay script -> case line; {"t": text} arguments are hex encoded"""
    cmds = []
    for cmd in script:
        cmds.append(" ".join(vlib.hexs(a["t"]) if isinstance(a, dict) else str(a) for a in cmd))
    return "\t".join(cmds)


def replay_known(rep):
    """for each listed known finding with a replay recipe: run it; print KNOWN-FINDING when it still fails"""
    import re
    for k in rep.known:
        if k.get("status") != "known" or "replay" not in k:
            continue
        rp = k["replay"]
        try:
            exe = vlib.build_driver(rp["driver"], "rel", rp.get("extra_cflags", ""))
        except vlib.BuildError:
            continue
        if "corpus_line" in rp:
            fn, idx = rp["corpus_line"]
            line = [l.rstrip("\n") for l in open(os.path.join(vlib.VERIF, fn)) if l.strip() and not l.startswith("#")][idx]
        elif "line" in rp:
            line = rp["line"]
        else:
            line = rp.get("component", "lyx") + "\t" + encode_script(rp["script"])
        outs, _ = vlib.run_cases(exe, [line], timeout=120)
        still = bool(re.search(rp["still_fails_if"], outs[0])) if outs else False
        rep.count("known:" + k["tag"], line)
        if still:
            rep.print_known(k)
        else:
            rep.notes.append("known finding %s no longer reproduces with its recorded witness (output: %s)" % (k["tag"], (outs[0] if outs else "")[:200]))


def main():
    ap = argparse.ArgumentParser()
    ap.add_argument("pid")
    ap.add_argument("--tier", default=os.environ.get("VERIF_TIER", "quick"))
    ap.add_argument("--replay")
    ap.add_argument("--no-proof", action="store_true", help="(development) skip the Coq step")
    args = ap.parse_args()
    pid = args.pid
    tier = "thorough" if args.tier.startswith("t") else "quick"
    seed = int(os.environ.get("VERIF_SEED", "1"))
    rng = random.Random("%s-%d" % (pid, seed))
    rep = vlib.Report(pid, tier, seed)
    prop = load_prop(pid)

    if args.replay:
        return prop.replay(rep, json.load(open(args.replay)))

    # ---------------- builds from the current tree ----------------
    try:
        vlib.build_lib("rel")
        vlib.gen_consts()
    except vlib.BuildError as e:
        log(str(e))
        rep.broken.append("build")
        rep.violation({"what": "the working tree does not build; nothing can be shown", "detail": str(e)[-2000:]},
                      no_input=True)
        return rep.finish()

    # ---------------- P: proofs ----------------
    proof_ok = True
    if not args.no_proof and getattr(prop, "LEVEL", "proof") != "proof" and not vlib.property_files(pid)[0]:
        rep.notes.append("no Coq theorems are claimed for this property (level %s): the proof step is skipped" % prop.LEVEL)
    elif not args.no_proof:
        # build exactly what this property rests on: its Properties files, the extracted models its correspondence
        # runs, and their imports (a slice of another property that is being worked on cannot break this check)
        slices_ = [c.slice for c in prop.components() if getattr(c, "slice", "")]
        tops, closure = vlib.property_files(pid, slices_)
        ok, out = vlib.coq_make([t[:-2] + ".vo" for t in tops])
        bad = vlib.scan_forbidden(closure)
        pr = vlib.check_properties_file(pid)
        rep.model_files = closure
        if tier == "thorough" and pr["ok"] and ok and not os.environ.get("VERIF_NO_COQCHK"):
            # independent re-check of the compiled property files and everything they depend on (coqchk), with the list of
            # axioms / unsafe features it finds; any entry other than <none> fails the proof step
            rep.coqchk = {}
            import re as _re
            from concurrent.futures import ThreadPoolExecutor as _TPE
            ptops = [t for t in tops if t.startswith("Properties_")]
            limit = int(os.environ.get("VERIF_COQCHK_LIMIT", "900"))

            def _chk(t):
                return t, vlib.sh("ulimit -v 14000000; timeout %d coqchk -silent -o -Q . LY LY.%s" % (limit, t[:-2]),
                                  cwd=vlib.COQ, timeout=limit + 300)
            with _TPE(max_workers=3) as ex_:
                results_ = list(ex_.map(_chk, ptops))
            for t, (rc_, out_) in results_:
                if rc_ == 124:
                    # the independent checker is slow on the exhaustive sweeps (every code point, every short string): running
                    # out of time is recorded, it is not a failed obligation (coqc has checked the file)
                    rep.coqchk[t] = {"rc": "timeout", "summary": {}}
                    rep.notes.append("coqchk did not finish on %s within its time limit" % t)
                    continue
                summ = {}
                for key in ("Axioms", "Constants/Inductives relying on type-in-type",
                            "Constants/Inductives relying on unsafe (co)fixpoints", "Inductives whose positivity is assumed"):
                    m_ = _re.search(_re.escape("* " + key) + r":\s*(.*?)(?:\n\s*\n|\Z)", out_, flags=_re.S)
                    summ[key] = " ".join(m_.group(1).split()) if m_ else "?"
                rep.coqchk[t] = {"rc": rc_, "summary": summ}
                if rc_ != 0 or any(v != "<none>" for v in summ.values()):
                    pr["ok"] = False
                    pr["output"] += "\ncoqchk on %s: rc=%s %s" % (t, rc_, summ)
        rep.obligations = pr["theorems"]
        rep.discharged = sum(1 for t in pr["theorems"] if t["checked"])
        axioms = sorted({a for t in pr["theorems"] for a in t["axioms"]})
        rep.trusted = [
            "Coq 8.16.1 kernel (coqc, full .vo compilation; vm_compute used, native_compute not used)",
            "axioms reported by Print Assumptions for the property theorems: " + (", ".join(axioms) if axioms else "none (all closed under the global context)"),
            "tools/gen_consts.py (constants/tables scraped from /repo, tie T1)",
            "Coq extraction with ExtrOcamlBasic (Extract Inductive bool/option/unit/list/prod/sumbool/sumor, Extract Inlined Constant andb/orb/fst/snd) + OCaml 4.13.1 + ocaml/modelrun.ml",
            "impl/*.c white-box drivers, tools/*.py generators, comparators and oracles (tie T2)",
        ] + list(getattr(prop, "TRUSTED", []))
        if not pr["ok"] or bad or not ok:
            proof_ok = False
            rep.broken.append("Coq: " + (pr["file"] if not pr["ok"] else "development build"))
            rep.notes.append("coq output tail: " + (pr["output"] if not pr["ok"] else out)[-1500:])
            if bad:
                rep.notes.append("forbidden commands: " + "; ".join(bad[:10]))
    rep.assumptions = list(getattr(prop, "ASSUMPTIONS", []))

    kinds = ["rel"]
    if tier == "thorough" or getattr(prop, "ASAN_QUICK", False):
        kinds.append("asan")

    # ---------------- T2: correspondence ----------------
    mism_all = []
    for comp in prop.components():
        for kind in kinds:
            if kind != "rel" and not getattr(comp, "sanitize", True):
                continue
            try:
                mism = run_t2(rep, comp, rng, tier, kind)
            except vlib.BuildError as e:
                rep.broken.append("driver %s does not build against the tree" % comp.driver)
                rep.notes.append(str(e)[-1500:])
                mism = []
                proof_ok = False
            # disagreements that are instances of a listed known finding are attributed to it, not to the tie
            if mism and hasattr(comp, "witness"):
                rest = []
                for mm in mism:
                    w = comp.witness(mm[0], mm[1], mm[2])
                    k = rep.known_tag(w[0]) if (w and w[0]) else None
                    if k:
                        rep.print_known(k)
                    else:
                        rest.append(mm)
                mism = rest
            if mism:
                rep.broken.append("correspondence %s (%s): %d cases differ" % (comp.name, kind, len(mism)))
                mism_all.append((comp, kind, mism))

    # ---------------- O: property-level oracles on the implementation ----------------
    found_input = False
    scale = 1.0 if (proof_ok and not mism_all) else 4.0       # S: deeper search when something broke
    for orc in (prop.oracles_() if hasattr(prop, 'oracles_') else prop.oracles()):
        okinds = [k for k in (getattr(orc, "kinds", None) or kinds) if k in vlib.KIND_FLAGS]
        if tier == "quick":
            okinds = [k for k in okinds if k == "rel" or getattr(orc, "quick_sanitize", False)]
        for kind in okinds:
            try:
                fails = run_oracle(rep, orc, rng, tier, kind, scale)
            except vlib.BuildError as e:
                rep.broken.append("driver %s does not build against the tree" % orc.driver)
                rep.notes.append(str(e)[-1500:])
                proof_ok = False
                continue
            for tag, detail, line, out, err in fails:
                if rep.violation({"what": "property oracle %s failed on the implementation" % orc.name,
                                  "oracle": orc.name, "build": kind, "case": line, "impl_output": out,
                                  "detail": detail, "tag": tag, "stderr": err}, tag=tag):
                    found_input = True

    # ---------------- S: search for a failing input of the property when P/T2 broke ----------------
    for comp, kind, mism in mism_all:
        hit = False
        for (line, m, o, err) in mism[:200]:
            w = comp.witness(line, m, o) if hasattr(comp, "witness") else None
            if w:
                tag, detail = w
                hit = True
                if rep.violation({"what": "model/implementation disagreement on %s and the property itself fails on "
                                          "this input" % comp.name, "component": comp.name, "build": kind, "case": line,
                                  "model_output": m, "impl_output": o, "detail": detail, "stderr": err}, tag=tag):
                    found_input = True
                break
        if not hit and not found_input:
            line, m, o, err = mism[0]
            rep.violation({"what": "correspondence between the Coq model and the implementation no longer checks",
                           "broken": "T2 correspondence of component %s (build %s)" % (comp.name, kind),
                           "component": comp.name, "case": line, "model_output": m, "impl_output": o,
                           "n_mismatches": len(mism), "stderr": err,
                           "theorems_resting_on_it": [t["name"] for t in rep.obligations]}, no_input=True)
            found_input = True
    if not proof_ok and not found_input:
        rep.violation({"what": "a proof obligation of this property no longer checks against the current tree",
                       "broken": rep.broken, "notes": rep.notes}, no_input=True)

    # known findings are replayed explicitly from their recorded witness on every run
    replay_known(rep)

    rc = rep.finish(level=getattr(prop, "LEVEL", "proof"),
                    checker_cmd="make -C coq (coq_makefile, coqc 8.16.1) && coqc -Q coq LY coq/Properties_%s.v" % pid)
    log("[%s] %s tier: %d evaluations, %d theorems, %d violations, %.1fs" % (
        pid, tier, rep.evaluations, len(rep.obligations), len(rep.violations), time.time() - rep.t0))
    return rc


if __name__ == "__main__":
    sys.exit(main())
