"""validenc.py - encoder of slice `valid` (coq/RfcValid.v vschema = Tree.schema + schema tree + unique table).

  stree_line(module)    the schema TREE with choices and cases:  N<sid>(children)  C<choice id>.<mandatory>(cases)
                        K<case id>.<is default case>(children); children in lys_getnext order (list keys first)
  uniq_line(module)     <list sid>:<statement>|<statement>;...  statement = paths joined by ',', path = data sids joined by '/'
                        ('-' when the module has no unique statement)
  fields(module)        the four pseudo commands (#s #n #t #u) a case line carries for the model
  supported(module)     treeenc.supported + no leaf-list with default values AND min/max-elements (the model does not
                        materialise implicit default instances, which libyang counts)
  SListU                yanggen.SList with several unique statements whose leaf paths may go through containers and
                        choices/cases (attribute uniques = [[path text, ...], ...])
  py_violations(module, forest)   INDEPENDENT reading of the RFC 7950 rules in Python on yanggen instances: the set of
                        violated rule classes (used to build valid-by-construction instances for the richer unique
                        statements and as a third opinion next to Coq's rfc_valid and libyang)"""
import treeenc
import yanggen


class SListU(yanggen.SList):
    """list with several unique statements; a path names schema nodes (choice and case names included)"""

    def yang(self, ind, cfg_parent=True):
        s = "%slist %s {" % (ind, self.name)
        if self.keys:
            s += ' key "%s";' % " ".join(self.keys)
        for u in self.uniques:
            s += ' unique "%s";' % " ".join(u)
        if self.minel:
            s += " min-elements %d;" % self.minel
        if self.maxel is not None:
            s += " max-elements %d;" % self.maxel
        if self.userord:
            s += " ordered-by user;"
        if not self.config and cfg_parent:
            s += " config false;"
        s += self.common() + "\n"
        for c in self.children:
            s += c.yang(ind + "  ", cfg_parent and self.config)
        return s + ind + "}\n"


def list_uniques(n):
    """unique statements of a list as lists of path texts"""
    if getattr(n, "uniques", None):
        return [list(u) for u in n.uniques]
    if n.unique:
        return [list(n.unique)]
    return []


def resolve(children, path):
    """descendant schema node identifier -> list of DATA schema nodes from the first step to the leaf (choice and case
    names are consumed)"""
    out = []
    cur = children
    steps = path.split("/")
    i = 0
    while i < len(steps):
        nm = steps[i]
        hit = None
        for c in cur:
            if c.name == nm:
                hit = c
                break
        if hit is None:
            raise KeyError(path)
        if hit.kind == "choice":
            cn = steps[i + 1]
            cur = dict(hit.cases)[cn]
            i += 2
            continue
        out.append(hit)
        if hit.kind in ("container", "list"):
            cur = hit.children
        i += 1
    return out


def ordered_children(n):
    if n.kind == "list":
        keys = [k for kn in n.keys for k in n.children if k.name == kn]
        return keys + [x for x in n.children if x.name not in n.keys]
    return n.children


def stree_line(module):
    enc = treeenc._Enc(module)
    nch = [0]

    def rec(nodes):
        s = ""
        for n in nodes:
            if n.kind == "choice":
                cid = nch[0]
                nch[0] += 1
                s += "C%d.%d(" % (cid, 1 if n.mandatory else 0)
                for ci, (cn, cns) in enumerate(n.cases):
                    s += "K%d.%d(%s)" % (ci, 1 if n.default == cn else 0, rec(cns))
                s += ")"
            else:
                sid = enc.sid_of[id(n)]
                if n.kind in ("container", "list"):
                    s += "N%d(%s)" % (sid, rec(ordered_children(n)))
                else:
                    s += "N%d()" % sid
        return s
    return rec(module.nodes) or "-"


def uniq_line(module):
    enc = treeenc._Enc(module)
    out = []
    for sid, n, parent, cfg, chain in enc.entries:
        if n.kind == "list":
            us = list_uniques(n)
            if us:
                out.append("%d:%s" % (sid, "|".join(",".join("/".join(str(enc.sid_of[id(x)]) for x in resolve(n.children, p))
                                                                for p in u) for u in us)))
    return ";".join(out) or "-"


def fields(module):
    return ["#s " + treeenc.schema_line(module), "#n " + treeenc.name_table(module), "#t " + stree_line(module),
            "#u " + uniq_line(module)]


def supported(module):
    if not treeenc.supported(module):
        return False
    for n in module.all_nodes():
        if n.must:
            return False
        if n.kind == "leaf-list" and n.defaults and (n.minel or n.maxel is not None):
            return False
    return True


# ------------------------------------------------------------------------------------------------
# RFC 7950 in Python (independent of the Coq text): violated rule classes of an instance
# ------------------------------------------------------------------------------------------------
def _case_nodes(cns):
    """data schema nodes of one sibling level below a case / choice (nested choices transparent)"""
    out = []
    for n in cns:
        if n.kind == "choice":
            for _, c in n.cases:
                out += _case_nodes(c)
        else:
            out.append(n)
    return out


def _has(data, schema_nodes):
    ids = {id(s) for s in schema_nodes}
    return any(id(d.schema) in ids for d in data)


def _np(n):
    return n.kind == "container" and not n.presence


def _required(schema_children, data, eff, viol, type_ok):
    """7.6.5 / 7.9.4 / 7.7.5: constraints that depend on what exists; eff = the closest ancestor that is not a
    non-presence container exists (or, for a case, another node of the case exists)"""
    for n in schema_children:
        if n.kind == "choice":
            if eff and n.mandatory and not _has(data, _case_nodes([n])):
                viol.add("nomandchoice")
            for _, cns in n.cases:
                _required(cns, data, eff and _has(data, _case_nodes(cns)), viol, type_ok)
            continue
        inst = [d for d in data if d.schema is n]
        if eff:
            if n.kind == "leaf" and n.mandatory and not inst:
                viol.add("nomand")
            if n.kind in ("list", "leaf-list") and len(inst) < (n.minel or 0):
                viol.add("nomin")
        if _np(n) and not inst and eff:
            _required(n.children, [], True, viol, type_ok)


def _in_effect(schema_children, data, target, eff=True, chd=False):
    """7.6.1: is the (absent) node `target` of this level in effect as far as cases go; None = not at this level"""
    for n in schema_children:
        if n is target:
            return eff
        if n.kind == "choice":
            has = _has(data, _case_nodes([n]))
            for cn, cns in n.cases:
                e = eff and (_has(data, _case_nodes(cns)) or (n.default == cn and not has))
                r = _in_effect(cns, data, target, e)
                if r is not None:
                    return r
    return None


def _uvals(schema_children, data, nodes):
    """values of the leaf reached through the data schema nodes `nodes` (7.8.3 with 7.6.1)"""
    n = nodes[0]
    inst = [d for d in data if d.schema is n]
    if len(nodes) == 1:
        if inst:
            return [d.value for d in inst]
        if n.default is not None and _in_effect(schema_children, data, n):
            return [n.default]
        return []
    if inst:
        out = []
        for d in inst:
            out += _uvals(n.children, d.children, nodes[1:])
        return out
    if _np(n) and _in_effect(schema_children, data, n):
        return _uvals(n.children, [], nodes[1:])
    return []


def _level(schema_children, data, viol, type_ok):
    flat = _case_nodes(schema_children)
    # at most one instance of leaf / container
    for n in flat:
        inst = [d for d in data if d.schema is n]
        if n.kind in ("leaf", "container") and len(inst) > 1:
            viol.add("dup")
        if n.kind == "list" and n.keys:
            seen = set()
            for d in inst:
                k = tuple(next((c.value for c in d.children if c.schema.name == kn), None) for kn in n.keys)
                if None in k:
                    viol.add("nokey")
                if k in seen:
                    viol.add("dup")
                seen.add(k)
            # the effective config of a list is the generator's n.config
        if n.kind == "leaf-list" and n.config and _cfg(n):
            vals = [d.value for d in inst]
            if len(set(vals)) != len(vals):
                viol.add("dup")
        if n.kind in ("list", "leaf-list") and n.maxel is not None and len(inst) > n.maxel:
            viol.add("nomax")
        if n.kind == "list":
            for u in list_uniques(n):
                paths = [resolve(n.children, p) for p in u]
                for i in range(len(inst)):
                    for j in range(i + 1, len(inst)):
                        if all(set(_uvals(n.children, inst[i].children, p)) & set(_uvals(n.children, inst[j].children, p))
                               for p in paths):
                            viol.add("nouniq")

    # one case per choice
    def cases(ns):
        for n in ns:
            if n.kind == "choice":
                if sum(1 for _, cns in n.cases if _has(data, _case_nodes(cns))) > 1:
                    viol.add("dupcase")
                for _, cns in n.cases:
                    cases(cns)
    cases(schema_children)
    _required(schema_children, data, True, viol, type_ok)
    for d in data:
        if d.schema.kind in ("leaf", "leaf-list"):
            if type_ok is not None and not type_ok(d.schema, d.value):
                viol.add("type")
        else:
            _level(d.schema.children, d.children, viol, type_ok)


def _cfg(n):
    """effective config of a schema node (false below a config false ancestor)"""
    while n is not None:
        if not n.config:
            return False
        n = n.parent
    return True


def _prune(forest):
    """7.5.1: a non-presence container without children is equivalent to its absence"""
    out = []
    for d in forest:
        c = yanggen.DNode(d.schema, d.value, _prune(d.children), list(d.meta))
        if _np(d.schema) and not c.children:
            continue
        out.append(c)
    return out


def py_violations(module, forest, type_ok=None):
    viol = set()
    _level(module.nodes, _prune(forest), viol, type_ok)
    return viol
