"""treeenc.py - encode a yanggen Module for the Tree.v foundation (coq/Tree.v, ocaml/tree_io.ml).

  schema_line(module)  -> the compact schema line (format: header of ocaml/tree_io.ml)
  name_table(module)   -> 'sid,parent|-,module,name;...' used to read / print lyx dumps
  supported(module)    -> can Tree.v model this module (no augments / rpcs / notifications / features) and does it
                          implement the value order of every system-ordered key / leaf-list type?
  key_type_ok(t)       -> filter for yanggen.SchemaGen(key_filter=...)

sids are assigned in the order in which libyang's lys_getnext() walks the compiled module depth-first: choices and cases
are transparent, the keys of a list come first in key order (the compiler moves them to the front), then the other
children in their order."""
import yanggen
from vlib import hexs


def order_tag(t):
    """value-order tag of a yanggen type, None when Tree.v does not implement the type's sort callback"""
    if isinstance(t, yanggen.TString):
        return "b"
    if isinstance(t, yanggen.TInt):
        return "i"
    if isinstance(t, yanggen.TDec64):
        return "d"
    if isinstance(t, yanggen.TBool):
        return "o"
    if isinstance(t, yanggen.TEnum):
        return "e" + "".join("/%s=%d" % (hexs(n), v) for n, v in t.names)
    return None


def key_type_ok(t):
    return order_tag(t) is not None


class _Enc:
    def __init__(self, module):
        self.m = module
        self.entries = []       # (sid, node, parent sid, effective config, chain)
        self.sid_of = {}        # id(node) -> sid
        self.nsid = 0
        self.nchoice = 0
        self.walk(module.nodes, None, True, [])

    def walk(self, nodes, parent, cfg, chain):
        for n in nodes:
            if n.kind == "choice":
                cid = self.nchoice
                self.nchoice += 1
                for ci, (cn, cns) in enumerate(n.cases):
                    self.walk(cns, parent, cfg, chain + [(cid, ci, 1 if n.default == cn else 0, 1 if n.mandatory else 0)])
                continue
            c = cfg and n.config
            sid = self.nsid
            self.nsid += 1
            self.sid_of[id(n)] = sid
            self.entries.append((sid, n, parent, c, chain))
            if n.kind == "container":
                self.walk(n.children, sid, c, [])
            elif n.kind == "list":
                keys = [k for kn in n.keys for k in n.children if k.name == kn]
                rest = [x for x in n.children if x.name not in n.keys]
                self.walk(keys + rest, sid, c, [])


def _entry(enc, sid, n, parent, cfg, chain):
    kind = {"container": "c", "leaf": "l", "leaf-list": "L", "list": "k"}[n.kind]
    if n.kind == "container" and n.presence:
        kind = "p"
    flags = ""
    if getattr(n, "userord", False):
        flags += "u"
    if not cfg:
        flags += "s"
    if getattr(n, "mandatory", False):
        flags += "m"
    order = "b"
    if n.kind in ("leaf", "leaf-list"):
        order = order_tag(n.type) or "b"
    keys = "-"
    if n.kind == "list" and n.keys:
        keys = "+".join(str(enc.sid_of[id(k)]) for kn in n.keys for k in n.children if k.name == kn)
    mn = getattr(n, "minel", 0) or 0
    mx = getattr(n, "maxel", None)
    dfl = []
    if n.kind == "leaf" and n.default is not None:
        dfl = [n.default]
    elif n.kind == "leaf-list":
        dfl = list(n.defaults)
    dflts = "+".join((hexs(d) if d != "" else "~") for d in dfl) if dfl else "-"
    ch = "+".join("%d.%d.%d.%d" % c for c in chain) if chain else "-"
    return "%d,%s,%s,%s,%s,%s,%d,%s,%s,%s" % (sid, kind, "-" if parent is None else parent, flags or "-", order, keys, mn,
                                              "-" if mx is None else mx, dflts, ch)


def schema_line(module):
    enc = _Enc(module)
    return ";".join(_entry(enc, *e) for e in enc.entries)


def name_table(module):
    enc = _Enc(module)
    return ";".join("%d,%s,%s,%s" % (sid, "-" if parent is None else parent, module.name, n.name)
                    for sid, n, parent, _, _ in enc.entries)


def supported(module):
    if module.augments or module.rpcs or module.notifs or module.features or module.imports:
        return False
    enc = _Enc(module)
    for sid, n, parent, cfg, _ in enc.entries:
        if n.when or n.iffeature:
            return False
        if n.kind == "leaf-list" and cfg and not n.userord and order_tag(n.type) is None:
            return False
        if n.kind == "list" and cfg and n.keys and not n.userord:
            for k in n.children:
                if k.name in n.keys and order_tag(k.type) is None:
                    return False
    return True
