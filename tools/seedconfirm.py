#!/usr/bin/env python3
"""seedconfirm.py <candidate-dir> [--jobs N]

Independent confirmation of a seeded change produced by a sub-agent (patch.diff, demo.c / run.sh, meta.json) in a scratch
worktree of /repo: (1) the demonstration passes on the unchanged tree, (2) with the patch the library builds, (3) the
complete existing test suite passes, (4) the demonstration fails. Writes <candidate-dir>/confirm.json and removes the
worktree with its build output.
"""
import argparse
import json
import os
import re
import shutil
import subprocess
import sys
import tempfile
import time


def sh(cmd, cwd=None, timeout=3600):
    p = subprocess.run(cmd, shell=True, cwd=cwd, stdout=subprocess.PIPE, stderr=subprocess.STDOUT, text=True, timeout=timeout)
    return p.returncode, p.stdout


def demo(cdir, wt):
    """build and run the demonstration inside the worktree; returns (exit code, output tail)"""
    dst = os.path.join(wt, "_demo")
    shutil.rmtree(dst, ignore_errors=True)
    shutil.copytree(cdir, dst)
    if os.path.exists(os.path.join(dst, "run.sh")):
        rc, out = sh("sh _demo/run.sh", cwd=wt, timeout=600)
        if rc == 0 or "demo" in out or True:
            return rc, out[-600:]
    rc, out = sh("cc _demo/demo.c -I build/libyang -I build -I src -I build/compat -L build -lyang -Wl,-rpath,$PWD/build -o _demo/demo "
                 "&& ./_demo/demo", cwd=wt, timeout=600)
    return rc, out[-600:]


def main():
    ap = argparse.ArgumentParser()
    ap.add_argument("dir")
    ap.add_argument("--jobs", type=int, default=8)
    a = ap.parse_args()
    cdir = os.path.abspath(a.dir)
    name = os.path.basename(cdir.rstrip("/"))
    tmp = tempfile.mkdtemp(prefix="sc-%s-" % name, dir="/tmp")
    wt = os.path.join(tmp, "repo")
    res = {"name": name, "at": time.strftime("%Y-%m-%d %H:%M:%S")}
    try:
        rc, out = sh("git -C /repo worktree add --detach %s HEAD" % wt)
        assert rc == 0, out
        res["repo_head"] = sh("git -C /repo rev-parse --short HEAD")[1].strip()
        rc, out = sh("cmake -G Ninja -B build -DCMAKE_BUILD_TYPE=Debug >/dev/null && cmake --build build -j%d 2>&1 | tail -3" % a.jobs, cwd=wt)
        res["baseline_build_rc"] = rc
        rc0, out0 = demo(cdir, wt)
        res["demo_unchanged"] = {"rc": rc0, "out": out0}
        rc, out = sh("git apply --whitespace=nowarn %s" % os.path.join(cdir, "patch.diff"), cwd=wt)
        if rc:
            rc, out = sh("git apply -3 --whitespace=nowarn %s" % os.path.join(cdir, "patch.diff"), cwd=wt)
        res["patch_applies"] = (rc == 0)
        if rc:
            res["error"] = out[-500:]
        else:
            rc, out = sh("cmake --build build -j%d 2>&1 | tail -5" % a.jobs, cwd=wt)
            res["patched_build_rc"] = rc
            res["patched_build_warnings"] = len(re.findall(r"warning:", out))
            rc, out = sh("ctest --test-dir build -j%d --timeout 900 2>&1 | tail -12" % a.jobs, cwd=wt, timeout=3600)
            failed = re.findall(r"^\s*\d+ - (\S+)", out, flags=re.M)
            res["ctest"] = {"rc": rc, "summary": [l for l in out.split("\n") if "tests passed" in l or "tests failed" in l][-1:],
                            "failed": failed}
            rc1, out1 = demo(cdir, wt)
            res["demo_patched"] = {"rc": rc1, "out": out1}
            suite_ok = (rc == 0) or set(failed) <= {"ly_perf_100000"}
            res["confirmed"] = bool(rc0 == 0 and rc1 != 0 and suite_ok and res["patched_build_rc"] == 0)
    finally:
        sh("git -C /repo worktree remove --force %s; git -C /repo worktree prune" % wt)
        shutil.rmtree(tmp, ignore_errors=True)
    json.dump(res, open(os.path.join(cdir, "confirm.json"), "w"), indent=1)
    print(json.dumps({k: res.get(k) for k in ("name", "confirmed", "ctest", "error")}, indent=None)[:600])
    print("demo unchanged rc=%s patched rc=%s" % (res.get("demo_unchanged", {}).get("rc"), res.get("demo_patched", {}).get("rc")))
    return 0 if res.get("confirmed") else 1


if __name__ == "__main__":
    sys.exit(main())
