"""C11 - compilation gives schema constructs their RFC 7950 meaning"""
from props import comps_iff, comps_restrict, comps_flatten, comps_depset

PID = "C11"
LEVEL = "proof"


def components():
    return [comps_iff.IffCompile(), comps_iff.IffValue(), comps_restrict.RangeDirect(), comps_restrict.RangeChain(),
            comps_restrict.StringChain(), comps_depset.DepSets()]


def oracles_():
    return [comps_iff.IffDenote(), comps_restrict.RestrictRfc(), comps_flatten.FlattenEquiv(), comps_flatten.LoadOrder(),
            comps_flatten.HistoryIndep()]


ASSUMPTIONS = [
    "Restrict.v keeps the mathematical integers of range / length boundaries; the C code stores int64 / uint64 in a union and "
    "compares with the signedness of the built-in type (equal because every stored value passed the limits of its type)",
    "DepSet.v: all modules implemented, no submodules; a module is reduced to its imports and six content flags (features, "
    "data nodes, groupings, augments, deviations, typedefs) from which LYS_IS_SINGLE_DEP_SET / lys_has_dep_mods are computed",
    "that import chains through lys_has_dep_mods modules are ALL the ways one module's compiled tree depends on another is "
    "not proved; it is what the oracle history-indep tests",
]

MANIFEST = {
    "text": "PROVED in Coq over hand-written models of the C code (three kernels; everything else of the property is search). "
            "(1) if-feature (Properties_C11_iff.v; model of lys_compile_iffeature / lysc_iffeature_value as of /repo 299b7de, "
            "6f66310, 685c1af): C11_iffeature_correct - for every string r of the RFC 7950 if-feature grammar (any "
            "parenthesisation, separators any run of isspace characters) with parse tree e, whose feature names resolve and "
            "whose length satisfies the bound len_ok, compilation succeeds and the compiled prefix code evaluates under every "
            "feature assignment to the and/or/not denotation of e, without leaving the arrays; "
            "C11_iffeature_eval_prefix_correct for the evaluator alone; C11_render_full_in_grammar / "
            "C11_render_min_in_grammar (the generators' renderings are in the grammar); Examples C11_former_witness "
            "(regression, not (not a)), C11_lenient_not_placement (the ungrammatical 'a not and b' compiles like 'not a and b': "
            "a leniency, stated, not a violation). "
            "(2) range / length restrictions along typedef chains (Properties_C11_restrict.v; model as of /repo 72878af, "
            "b6c3725). On texts of the range-arg grammar (RFC ABNF with any isspace around tokens, + sign and leading zeros "
            "allowed), for an ascending base, excluding the shape 'x..M | max': C11_range_compile_iff - compilation succeeds "
            "exactly for the legal restrictions (min only first / max only last boundary, numbers within the built-in type, "
            "parts ascending and disjoint, every part inside ONE part of the base) and returns the parts written; "
            "C11_range_compile_iff_subset - the same with value-set inclusion when the base parts do not touch; "
            "C11_range_chain_intersection - the effective restriction of the last typedef accepts exactly the values every "
            "restriction of the chain accepts. For ARBITRARY argument texts: C11_range_rejects_widening (whatever compiles "
            "under a restricted base lies inside it), C11_range_chain_never_widens, C11_range_compiled_ascending (parts may "
            "touch), C11_range_validate_agrees (lyplg_type_validate_range decides membership in the compiled parts), "
            "C11_range_no_overread (the base check never indexes beyond the parts array), C11_range_total (model fuel), "
            "C11_range_parts_in_type (given a base within the type), C11_range_inherits_all_parts / "
            "C11_range_unrestricted_level_neutral (a typedef that restates no range / length - in the model also one that only "
            "adds a pattern - hands down ALL inherited parts). The model carries the code's remaining departures from RFC 7950 "
            "with C11_range_rejects_illformed_refuted (1..9..3, 127 | max, decimal64 '-', +5, 05, -0, -.5 are accepted) and "
            "C11_range_strictness_refuted (3..7 under 1..5 | 6..9, 0..min, 1.50 are rejected), each a listed known finding "
            "with a replayed witness; Examples C11_range_former_witnesses (1 50, 5 1, 1||: fixed defects, now rejected) and "
            "C11_range_first_part_copy_refuted (regression against a first-part-only copy of an inherited length). "
            "(2b) string types along a typedef chain, length AND patterns (Properties_C11_restrstr.v; model RestrictStr.v of "
            "lys_compile_type_ case LY_TYPE_STRING on top of Restrict.v; a pattern is an opaque value with an arbitrary "
            "matcher): C11_string_chain_independent - for ANY levels (each = optional length argument text + pattern "
            "statements) the chain compiles to exactly (the length chain of the length statements alone, the base's patterns "
            "followed by all levels' patterns in order) and fails exactly when the length chain fails; "
            "C11_string_chain_accepts - the leaf accepts a value iff its length passes the effective length and EVERY pattern "
            "of EVERY level matches, whichever levels restate which; C11_string_level_inherits_length (a level without a "
            "length statement keeps ALL inherited parts), C11_string_level_keeps_patterns; Example "
            "C11_string_chain_regressions (first-part-only copy of an inherited length; inherited patterns lost when only the "
            "length is restated). "
            "(3) dependency sets (Properties_C11_depset.v; lys_unres_dep_sets_create with a start module, as of /repo 64300ce; "
            "all modules implemented, no submodules): C11_depset_exact - the set computed for a module with data nodes or "
            "features is exactly the set of such modules connected to it by import chains, in either direction, through "
            "modules the traversal enters (lys_has_dep_mods); C11_depset_total - the model's fuel always suffices. "
            "Each file ends with an Example that the hypotheses are satisfiable (C11_hypotheses_satisfiable, "
            "C11_range_hypotheses_satisfiable, C11_depset_examples). "
            "Tie (T2, extracted OCaml models vs the C functions on the same generated inputs): lys_compile_iffeature / "
            "lysc_iffeature_value (exhaustive small ASTs x renderings x assignments); lys_compile_type_range called directly "
            "with a hand-made base, and through lys_parse_mem on typedef chains of depth 1-4 (int8..uint64, decimal64, string "
            "/ binary length, levels without restriction or with only a pattern) with lyd_value_validate probes around every "
            "boundary; chains of string typedefs whose levels have a length, patterns, both or neither (component strchain: compiled "
            "length parts, the compiled patterns of the leaf type in order, probe lengths); lys_unres_dep_sets_create on "
            "generated families of 2-7 modules (exact set and order). "
            "SEARCH ONLY (testing, no proof): flatten-equiv - a generated structured module set (typedef chains with defaults "
            "/ units, groupings with uses nested up to three levels, refine incl. the same target at several levels, "
            "uses-augment, own and foreign augments incl. choice cases, submodules with their own import prefixes, deviations, "
            "if-feature expressions, when) against its hand-flattened twin written by a Python flattener from RFC 7950, under "
            "all 8 feature assignments: equal LYS_OUT_YANG_COMPILED prints, schema-node sets equal to the Python if-feature "
            "denotation, equal verdicts on valid and single-mutation instance documents; load-order - all load orders, "
            "implemented later, explicit compile, parse from text; history-indep - module families with dependency chains "
            "through modules without data nodes and cross-module if-feature / when / leafref / identityref / default / typedef "
            "references: module list, compiled prints, schema-node sets, lys_find_path probes and data verdicts equal after "
            "every history ending in the same implemented set and feature states (load orders, features at load time or "
            "changed later by lys_set_implemented, one or several ly_ctx_compile(), failed operations in between); "
            "restrict-rfc - the library against an independent Python reading of RFC 7950 9.2.4 / 9.4.4.",
    "note": "Modelled (transcribed branch by branch, tied by T2, not verified against the C source): lys_compile_iffeature, "
            "lysc_iffeature_value; lys_compile_type_range, range_part_minmax, range_part_check_value_syntax, "
            "range_part_check_ascendancy, the hand-down of the compiled restriction in lys_compile_type (in Restrict.v a typedef without own "
            "range / length is one 'no restriction' level; RestrictStr.v adds the string case with the duplication of the "
            "inherited length / patterns - lysc_range_dup, lysc_patterns_dup and lys_compile_type_patterns as 'all parts' / "
            "'append' - tied by strchain), "
            "lyplg_type_validate_range, ly_parse_int / ly_parse_uint (slice types); lys_unres_dep_sets_create(_mod_r), "
            "LYS_IS_SINGLE_DEP_SET, lys_has_dep_mods for implemented modules without submodules. NOT modelled, covered by the "
            "oracles only: expansion of typedef / grouping / uses / refine / augment / submodule / deviation (lys_compile_node*, "
            "schema_compile_amend.c), prefix scopes of submodules, load order, feature changes, recompilation. Outside "
            "everything: what a pattern matches (patterns are opaque here; regular expressions are property C18), enum / bits restrictions, leafref / must / when XPath compilation beyond the few "
            "fixed shapes the families use, extensions, RPCs / notifications, YIN. Oracle conventions: in the compiled prints "
            "compared by flatten-equiv the when statements are removed (the twin re-roots the XPath; its meaning is compared on "
            "instance documents) and runs of siblings added by uses-augments are sorted (libyang's order among them depends on "
            "pending augments; RFC 7950 does not fix it); in history-indep a module whose default names an identity is loaded "
            "after the identity's module (libyang takes identities of implemented modules only, by design) and with "
            "LY_CTX_EXPLICIT_COMPILE a failing call only comes when nothing is pending (C09 finding "
            "ctx-explicit-revert-pending). Known (listed, replayed) for C11: the seven range-syntax departures "
            "range-repeated-dots, range-max-touching, range-dec64-sign-only, range-lenient-number, range-touching-base, "
            "range-kw-position, range-dec64-trailing-zeros. Fixed in /repo, a reappearance is a plain violation: "
            "iff-not-paren 299b7de, range-juxtaposed-parts 72878af, range-double-bar-overread b6c3725, "
            "refine-nested-inner-wins 9a6fde6, leaflist-min-typedef-default 7484206, typedef-chain-inherit-null bf5769e, "
            "depset-skips-typedef-deviation-modules 64300ce.",
    "technique": "Coq proofs over hand-written models + differential correspondence (extracted OCaml vs C) for if-feature, "
                 "range / length restrictions and dependency sets; generated-module differential testing (structured vs "
                 "hand-flattened, load orders, histories) for the rest",
}
