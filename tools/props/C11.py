"""C11 - compilation gives schema constructs their RFC 7950 meaning"""
from props import comps_iff

PID = "C11"
LEVEL = "proof"


def components():
    return [comps_iff.IffCompile(), comps_iff.IffValue()]


def oracles_():
    return [comps_iff.IffDenote()]


MANIFEST = {
    "text": "Coq theorem C11_iffeature_correct: every string of the RFC 7950 if-feature grammar (any parenthesisation and "
            "white space) with parse tree e whose features resolve compiles, and the compiled prefix code evaluates under every "
            "feature assignment to the denotation of e (and/or/not); C11_iffeature_eval_prefix_correct for the evaluator alone. "
            "Tie: extracted model vs lys_compile_iffeature/lysc_iffeature_value (T2, exhaustive ASTs up to 5-7 nodes x all "
            "renderings of a family x all 8 assignments).",
    "note": "Only the if-feature part of the property is modelled. Typedef/grouping/augment/deviation expansion and range "
            "narrowing are not modelled in Coq yet (planned: Restrict, Compile).",
    "technique": "Coq proof over hand-written model + differential correspondence (extracted OCaml vs C)",
}
