"""C11 - compilation gives schema constructs their RFC 7950 meaning"""
from props import comps_iff, comps_restrict, comps_flatten, comps_depset

PID = "C11"
LEVEL = "proof"


def components():
    return [comps_iff.IffCompile(), comps_iff.IffValue(), comps_restrict.RangeDirect(), comps_restrict.RangeChain(),
            comps_depset.DepSets()]


def oracles_():
    return [comps_iff.IffDenote(), comps_restrict.RestrictRfc(), comps_flatten.FlattenEquiv(), comps_flatten.LoadOrder(),
            comps_flatten.HistoryIndep()]


MANIFEST = {
    "text": "PROVED (Coq) are the two kernels of the property. (1) if-feature: C11_iffeature_correct - every string of the "
            "RFC 7950 if-feature grammar (any parenthesisation and white space) with parse tree e whose features resolve "
            "compiles, and the compiled prefix code evaluates under every feature assignment to the denotation of e (and/or/"
            "not); C11_iffeature_eval_prefix_correct for the evaluator alone. (2) range / length restrictions along typedef "
            "chains (Properties_C11_restrict.v, model of the code as of /repo 72878af + b6c3725): C11_range_compile_iff - on every "
            "text of the range-arg grammar the compiler accepts exactly the legal restrictions (keywords resolved against the "
            "base, numbers within the built-in type, parts ascending and disjoint, every part inside a part of the base) and "
            "returns the parts written; C11_range_chain_intersection - the effective restriction of the last typedef of a chain "
            "accepts exactly the values every restriction of the chain accepts. For ARBITRARY argument texts: "
            "C11_range_rejects_widening (whatever compiles under a restricted base lies inside it), "
            "C11_range_chain_never_widens, C11_range_compiled_ascending, C11_range_validate_agrees (lyplg_type_validate_range "
            "decides membership), C11_range_no_overread (the base check never indexes beyond the parts array), "
            "C11_range_total, C11_range_parts_in_type; C11_range_inherits_all_parts / C11_range_unrestricted_level_neutral (a "
            "typedef that restates no range / length - or only adds a pattern - hands down ALL parts of the inherited "
            "restriction; regression Example against a first-part-only copy). The model follows the code and carries its remaining leniencies with "
            "refutation theorems and replayed witnesses: 1..9..3 / 127 | max / decimal64 - / +5 are accepted, 3..7 under "
            "1..5 | 6..9 / 0..min / 1.50 are rejected. The former defects (1 50 widened its base; 1|| read beyond the parts "
            "array) are fixed and kept as regression Examples. "
            "(3) dependency sets (Properties_C11_depset.v): C11_depset_exact - the set computed for a module is exactly the "
            "modules with data nodes or features connected to it by import chains (either direction) through modules "
            "lys_has_dep_mods lets the traversal pass; C11_depset_total - the model's fuel always suffices. "
            "Tie: extracted models vs lys_compile_iffeature / lysc_iffeature_value and vs lys_compile_type_range called "
            "directly and through lys_parse_mem on generated typedef chains (depth 1-4, int8..uint64, decimal64 fd 1/2/9/18, "
            "string / binary length) with lyd_value_validate probes at every boundary +-1 (T2). "
            "SEARCH ONLY (testing, no proof): the equivalence of structured and flattened module sets and load-order "
            "independence - oracle flatten-equiv (generated typedef chains with defaults / units, groupings with nested uses, "
            "refine and uses-augment, own and foreign augments incl. choice cases and uses'd subtrees, a submodule, "
            "deviations, if-feature expressions, when; hand-flattened twin written by a Python flattener from RFC 7950; all 8 "
            "feature assignments: equal LYS_OUT_YANG_COMPILED prints, schema-node sets equal to the Python if-feature "
            "denotation, equal verdicts on valid and single-mutation instance documents) and oracle load-order (all load "
            "orders, implemented-later, explicit compile, parse from text); oracle history-indep (module families with "
            "dependency chains THROUGH modules without data nodes - augment-only, grouping-only, identity-only, feature-only, "
            "deviation-only, typedef-only - and if-feature / when / leafref / identityref / default references crossing "
            "modules: module list, compiled prints of every module, schema-node sets, lys_find_path probes and data verdicts "
            "must be the same after every history that ends in the same implemented set and feature states: load orders, "
            "features at load time or changed later by lys_set_implemented (on, off, on-then-off), explicit compile with one "
            "or several ly_ctx_compile(), failed operations in between); oracle restrict-rfc compares the library with an "
            "independent Python reading of RFC 7950 9.2.4.",
    "note": "Modelled in Coq: lys_compile_iffeature, lysc_iffeature_value; lys_compile_type_range, range_part_minmax, "
            "range_part_check_value_syntax, range_part_check_ascendancy, the hand-down of the base restriction in "
            "lys_compile_type, lyplg_type_validate_range (ly_parse_int / ly_parse_uint from slice types). NOT modelled in Coq: "
            "the expansion of typedef / grouping / uses / refine / augment / submodule / deviation (lys_compile_node*, "
            "schema_compile_amend.c), pattern restrictions, enum / bits restrictions, load order - these are covered by "
            "search only (comps_flatten.py). History independence as a whole is oracle-level (history-indep); its kernel, the "
            "dependency set of lys_unres_dep_sets_create (which modules are recompiled when a module changes), is modelled in "
            "DepSet.v (all modules implemented, no submodules) and tied by the component depset (families of 2-7 modules with "
            "random imports / features / data / groupings / typedefs / augments / deviations, exact set and order): "
            "C11_depset_exact proves that the set computed for a module is exactly the set of modules with data nodes or features "
            "connected to it by import chains (either direction) through modules lys_has_dep_mods lets the traversal pass "
            "(no fuel hypothesis: C11_depset_total). That these "
            "chains are ALL the ways a compiled tree can depend on another module is the modelling assumption behind "
            "lys_has_dep_mods (checked by history-indep, which found the typedef-only / deviation-only gaps fixed by 64300ce). "
            "Statements living in submodules resolve prefixes in the submodule's own imports: flatten-equiv moves augments of "
            "fb / deviations of fd into submodules that import fa under a prefix the module does not define or uses for "
            "another module, history-indep has the clash variant for if-feature / when / leafref / identityref / typedef "
            "references. In history-indep a "
            "module whose default refers to an identity is loaded after the module of the identity (libyang takes identities "
            "of implemented modules only, by design), and with LY_CTX_EXPLICIT_COMPILE a failing call only comes when nothing "
            "is pending (the revert of pending work is listed under C09: ctx-explicit-revert-pending). In the compiled prints compared by flatten-equiv the when statements are removed "
            "(the flattened twin re-roots the XPath; its meaning is compared on instance documents) and the order among "
            "children added by the augments of nested uses follows libyang (RFC 7950 does not fix it). The three defects the "
            "search found (nested refine: inner won; leaf-list min-elements kept a typedef default; NULL dereference in "
            "lys_compile_type on a chain of three typedefs) are fixed in /repo (9a6fde6, 7484206, bf5769e): nothing is "
            "attributed or avoided any more, a reappearance is a violation.",
    "technique": "Coq proof over hand-written models + differential correspondence (extracted OCaml vs C) for if-feature and "
                 "restrictions; generated-module differential testing (structured vs hand-flattened, load orders) for the rest",
}
