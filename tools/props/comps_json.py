"""comps_json.py - correspondence components (T2) of slice `json`:
json_print_string() vs JsonText.json_esc and lyjson_string() vs JsonText.json_string
(driver impl/t_json.c, model ocaml/run_json.ml)."""
import json

import gens
from props.comps import Comp
from vlib import hexs, unhex

# bytes at the case-split boundaries of printer, lexer and proofs
INTERESTING = [0x01, 0x08, 0x09, 0x0A, 0x0C, 0x0D, 0x1F, 0x20, 0x21, 0x22, 0x23, 0x2F, 0x30, 0x39, 0x41, 0x46, 0x47, 0x5B,
               0x5C, 0x5D, 0x61, 0x66, 0x67, 0x75, 0x7E, 0x7F, 0x80, 0xBF, 0xC2, 0xC3, 0xA9, 0xE2, 0xED, 0xEF, 0xF0, 0xF4, 0xFF]

JSON_TOK = [b"\\n", b"\\\"", b"\\\\", b"\\/", b"\\b", b"\\f", b"\\r", b"\\t", b"A", b"\xc3\xa9", b"\xf0\x9f\x98\x80",
            b"\\uD800", b"\\uDC00", b"\\uD83D\\uDE00", b"\\u12", b"\\uZZZZ", b"\\x", b"\\u0041", b"\\u00e9", b"\\u00E9",
            b"\\u20AC", b"\\u000A", b"\\u000a", b"\\u0000", b"\\u0001", b"\\u001F", b"\\u007F", b"\\u0080", b"\\u07FF",
            b"\\u0800", b"\\uFDD0", b"\\uFDEF", b"\\uFFFD", b"\\uFFFE", b"\\uFFFF", b"\\u", b"\\u1", b"\\u123", b"\\uGGGG",
            b"\\u@@@@", b"\\u````", b"\\u/:/:", b"\\u\xc3\xa9\xc3\xa9", b"\\u\xff\xff\xff\xff", b"\\u\x80\x80\x80\x80",
            b"\\u00\"1", b"\\u0 41", b"\\U0041", b"\\", b"\"", b"/", b" ", b"\n", b"\t", b"\r", b"\x01", b"\x7f", b"\x80",
            b"\xc3", b"\xe2\x82\xac", b"\xef\xbf\xbe", b"\xed\xa0\x80", b"\xf0\x81\x80\x80", b"\xf4\x90\x80\x80", b"u",
            b"b", b"0", b"x", b"[", b"]", b"\\a", b"\\'", b"\\0", b"\\N"]

MIXED = b"a\\n\\\"b\\u00e9\xc3\xa9\\\\\\/\xf0\x9f\x98\x80\\t\\u20AC\xe2\x82\xac\\r[]\\u000A\"tail"


def getutf8_len(b, i):
    """port of the acceptance test of ly_getutf8 (src/ly_common.c): length of the character at b[i:] or 0"""
    def at(k):
        return b[k] if k < len(b) else 0
    c = at(i)
    if c < 0x80:
        return 0 if (c < 0x20 and c not in (9, 10, 13)) else 1
    if c & 0xE0 == 0xC0:
        if at(i + 1) & 0xC0 != 0x80:
            return 0
        v = ((c & 0x1F) << 6) | (at(i + 1) & 0x3F)
        return 0 if v < 0x80 else 2
    if c & 0xF0 == 0xE0:
        if at(i + 1) & 0xC0 != 0x80 or at(i + 2) & 0xC0 != 0x80:
            return 0
        v = ((c & 0x0F) << 12) | ((at(i + 1) & 0x3F) << 6) | (at(i + 2) & 0x3F)
        return 0 if (v < 0x800 or 0xD7FF < v < 0xE000 or v > 0xFFFD) else 3
    if c & 0xF8 == 0xF0:
        if at(i + 1) & 0xC0 != 0x80 or at(i + 2) & 0xC0 != 0x80 or at(i + 3) & 0xC0 != 0x80:
            return 0
        v = ((c & 0x07) << 18) | ((at(i + 1) & 0x3F) << 12) | ((at(i + 2) & 0x3F) << 6) | (at(i + 3) & 0x3F)
        return 0 if (v < 0x1000 or v > 0x10FFFF) else 4
    return 0


def lexable(b):
    """XmlTextP.lexable: every character is accepted by ly_getutf8"""
    i = 0
    while i < len(b):
        u = getutf8_len(b, i)
        if not u:
            return False
        i += u
    return True


def valid_utf8(b):
    try:
        b.decode("utf-8")
        return True
    except UnicodeDecodeError:
        return False


def unprint(t):
    """inverse of the format json_print_string() writes: t = text after the opening quote; returns (s, consumed)
    when t starts with the printed form of s followed by the closing quote, else None"""
    out = bytearray()
    i = 0
    while i < len(t):
        c = t[i]
        if c == 0x22:
            return bytes(out), i + 1
        if c == 0x5C:
            e = t[i + 1:i + 2]
            if e in (b"\"", b"\\"):
                out += e
                i += 2
            elif e == b"r":
                out.append(13)
                i += 2
            elif e == b"t":
                out.append(9)
                i += 2
            elif e == b"u" and t[i + 2:i + 4] == b"00" and len(t) >= i + 6 and \
                    all(ch in b"0123456789ABCDEF" for ch in t[i + 4:i + 6]):
                v = int(t[i + 4:i + 6], 16)
                if not (v < 0x20 or v == 0x7F) or v in (0, 9, 13):
                    return None
                out.append(v)
                i += 6
            else:
                return None
        elif c < 0x20 or c == 0x7F:
            return None
        else:
            out.append(c)
            i += 1
    return None


class JsonEsc(Comp):
    """json_print_string vs JsonText.json_esc (jsonesc), and print-then-lex through both sides (jsonrt).
    witness: the implementation's own output is not read back to the input by lyjson_string (C01), or is not the
    RFC 8259 string for a valid UTF-8 input (C12, judged by Python's json module)."""
    name = "jsonesc"
    driver = "t_json"
    slice = "json"

    def gen(self, rng, tier, scale=1.0):
        S = []
        for b in range(1, 256):
            S.append(bytes([b]))
        for a in INTERESTING:
            for b in INTERESTING:
                S.append(bytes([a, b]))
        for cp in gens.BOUNDARY_CPS + gens.BAD_CPS:
            if cp:
                S.append(gens.enc_cp(cp))
                S.append(b"a" + gens.enc_cp(cp) + b"\"")
        S += gens.bad_utf8_samples()
        S += [b"", b"a\x00b", b"\x00", b"\"\x00\"", bytes(range(1, 256)), b"\\u0041", b"\\\"", b"\"\\", b"\\" * 7]
        for _ in range(self.n(tier, 600, 40000, scale)):
            r = rng.random()
            if r < 0.6:
                s = gens.yang_string(rng)
            elif r < 0.8:
                s = gens.raw_bytes(rng, 8, alphabet=INTERESTING)
            else:
                s = gens.raw_bytes(rng, 8)
            if rng.random() < 0.1:
                s = gens.mutate(rng, s, alphabet=INTERESTING)
            S.append(s)
        L = []
        for s in S:
            L.append("jsonesc\t" + hexs(s))
            L.append("jsonrt\t" + hexs(s))
        return L

    def witness(self, line, model_out, impl_out):
        f = line.split("\t")
        s = unhex(f[1]) if f[1] != "-" else b""
        if 0 in s:
            s = s[:s.index(0)]
        if f[0] == "jsonrt":
            if lexable(s):
                t = impl_out.split(" ")
                if len(t) != 2 or t[0] != hexs(s):
                    return ("json-roundtrip", "lyjson_string(json_print_string(%s)) gives %s" % (hexs(s), impl_out))
            return None
        if f[0] == "jsonesc" and valid_utf8(s) and impl_out not in ("E", "?", ""):
            try:
                o = unhex(impl_out) if impl_out != "-" else b""
                v = json.loads(o.decode("utf-8"), strict=True)
                if not isinstance(v, str) or v.encode("utf-8", "surrogatepass") != s:
                    return ("json-not-rfc8259", "printed %s for %s reads as a different string" % (impl_out, hexs(s)))
            except (ValueError, UnicodeError):
                return ("json-not-rfc8259", "printed %s for %s is not a JSON string" % (impl_out, hexs(s)))
        return None


class JsonStr(Comp):
    """lyjson_string vs JsonText.json_string.
    witness: the input is the printed form of a lexable string and the implementation does not return that string."""
    name = "jsonstr"
    driver = "t_json"
    slice = "json"

    def gen(self, rng, tier, scale=1.0):
        T = []
        for b in range(1, 256):
            T.append(bytes([b]) + b"\"")
            T.append(b"\\" + bytes([b]) + b"\"")
            T.append(b"\\u00" + bytes([b]) + b"1\"")
            T.append(b"\\u" + bytes([b]) * 4 + b"\"")
        for a in INTERESTING:
            for b in INTERESTING:
                T.append(bytes([a, b]) + b"\"")
                T.append(bytes([a, b]))
        for t in JSON_TOK:
            T.append(t)
            T.append(t + b"\"")
            T.append(b"a" + t + b"b\"" + b",x")
            T.append(t + t + b"\"")
        for b in gens.bad_utf8_samples():
            T.append(b + b"\"")
            T.append(b"x" + b + b"y\"z")
        for cp in gens.BOUNDARY_CPS + gens.BAD_CPS:
            if cp:
                T.append(gens.enc_cp(cp) + b"\"")
            if cp < 0x10000:
                T.append(b"\\u%04X\"" % cp)
                T.append(b"\\u%04x\"" % cp)
        # the escape grows the output: long runs around the buffer sizes of lyjson_string (24, +128)
        for n in (3, 4, 5, 6, 7, 19, 20, 21, 23, 24, 25, 37, 38, 39, 40, 41, 50, 51, 147, 148, 149, 150, 151, 152, 153, 300):
            T.append(b"a" * n + b"\\n\"")
            T.append(b"a" * n + b"\\u20AC" + b"b" * n + b"\\n" + b"c" * n + b"\"")
            T.append(b"\\u20AC" * n + b"\"")
            T.append(b"\\n" + b"\xf0\x9f\x98\x80" * n + b"\\t\"")
        for _ in range(self.n(tier, 1500, 100000, scale)):
            k = rng.randrange(0, 7)
            s = b"".join(rng.choice(JSON_TOK) if rng.random() < 0.75 else gens.enc_cp(gens.rand_cp(rng)) for _ in range(k))
            if rng.random() < 0.8:
                s += b"\"" + rng.choice([b"", b",", b": 1", b"\"x\""])
            if rng.random() < 0.15:
                s = gens.mutate(rng, s)
            if 0 in s:
                continue
            T.append(s)
        for _ in range(self.n(tier, 300, 20000, scale)):
            # printed forms (Python port of the printer's format) of mostly valid strings
            s = gens.yang_string(rng) if rng.random() < 0.8 else gens.raw_bytes(rng, 6, alphabet=INTERESTING)
            T.append(py_print(s)[1:] + rng.choice([b"", b"}", b" "]))
        for i in range(len(MIXED) + 1):
            T.append(MIXED[:i])
        T += [b"", b"\"", b"a\x00b\"", b"\\u00\x0041\"", b"\\\x00\""]
        return ["jsonstr\t" + hexs(t) for t in T]

    def witness(self, line, model_out, impl_out):
        f = line.split("\t")
        t = unhex(f[1]) if f[1] != "-" else b""
        if 0 in t:
            t = t[:t.index(0)]
        u = unprint(t)
        if u and lexable(u[0]):
            if impl_out != "%s %d" % (hexs(u[0]), u[1]):
                return ("json-roundtrip", "printed form of %s is read as %s" % (hexs(u[0]), impl_out))
        return None


def py_print(s):
    """the format of json_print_string(), used only to generate lexer inputs"""
    o = bytearray(b"\"")
    for b in s:
        if b == 0:
            break
        if b == 0x22:
            o += b"\\\""
        elif b == 0x5C:
            o += b"\\\\"
        elif b == 13:
            o += b"\\r"
        elif b == 9:
            o += b"\\t"
        elif b < 0x20 or b == 0x7F:
            o += b"\\u%04X" % b
        else:
            o.append(b)
    o += b"\""
    return bytes(o)
