"""comps.py - correspondence components (T2) shared by several properties.

A component names an impl driver (impl/<driver>.c), generates case lines understood by both that
driver and ocaml/modelrun, optionally normalises outputs, and optionally turns a disagreeing case
into a witness that the *property itself* fails on the implementation (witness())."""
import itertools
import xml.parsers.expat

import gens
from vlib import hexs, unhex


class Comp:
    name = ""
    driver = ""       # impl/<driver>.c
    slice = ""        # coq/Extract_<slice>.v + ocaml/run_<slice>.ml
    sanitize = True

    def norm(self, line, out):
        return out

    def n(self, tier, quick, thorough, scale=1.0):
        return int((thorough if tier == "thorough" else quick) * scale)


class Utf8(Comp):
    """ly_getutf8 / ly_pututf8 / ly_checkutf8 vs Utf8.v"""
    name = "utf8"
    driver = "t_xml"
    slice = "xml"

    def gen(self, rng, tier, scale=1.0):
        L = []
        cps = list(range(0, 0x100)) + gens.BOUNDARY_CPS + gens.BAD_CPS
        for c in gens.BOUNDARY_CPS + gens.BAD_CPS:
            cps += [c - 1, c + 1] if c else []
        cps += [rng.randrange(0, 0x120000) for _ in range(self.n(tier, 300, 20000, scale))]
        cps += [0xFFFFFFFF, 0x80000000, 0x110000, 0x1FFFFF, 0x200000]
        for cp in cps:
            L.append("pututf8\t%d" % cp)
            if cp < 0x200000:
                e = gens.enc_cp(cp)
                if 0 not in e:
                    L.append("getutf8\t" + hexs(e))
                    L.append("checkutf8\t" + hexs(e))
                    # truncated and followed by other bytes
                    if len(e) > 1:
                        L.append("getutf8\t" + hexs(e[:-1]))
                        L.append("checkutf8\t" + hexs(e[:-1]))
                    L.append("getutf8\t" + hexs(e + b"A"))
                    L.append("checkutf8\t" + hexs(e + b"\x80"))
        for b in gens.bad_utf8_samples():
            L.append("getutf8\t" + hexs(b))
            L.append("checkutf8\t" + hexs(b))
        for _ in range(self.n(tier, 500, 50000, scale)):
            b = gens.raw_bytes(rng, 5, alphabet=[0x41, 0x7f, 0x80, 0x8f, 0x90, 0x9f, 0xa0, 0xbf, 0xc0, 0xc1, 0xc2, 0xdf, 0xe0, 0xed,
                                                  0xef, 0xf0, 0xf4, 0xf5, 0xf7, 0xf8, 0xff, 0x1f, 0x09, 0xb7, 0xbe])
            if b:
                L.append("getutf8\t" + hexs(b))
                L.append("checkutf8\t" + hexs(b))
        return L


XML_TOK = [b"&", b"&lt;", b"&gt;", b"&amp;", b"&apos;", b"&quot;", b"&#", b"&#x", b";", b"<", b">", b"\"", b"'", b"<![CDATA[", b"]]>",
           b"]", b"]]", b"&#65;", b"&#x41;", b"&#x1F600;", b"&#xD800;", b"&#0;", b"&#9;", b"&#4294967361;", b"&#xfffe;", b"&#xFDD0;",
           b"&#x10FFE;", b"&#x110000;", b"&#x;", b"&#xg;", b"&lt", b"&amp ", b" ", b"\n", b"\t", b"\r", b"a", b"\xc3\xa9",
           b"\xe2\x82\xac", b"\xf0\x9f\x98\x80", b"\x01", b"\x80", b"\xc3", b"&#x0A;", b"&#00065;", b"&#x00000041;", b"x", b"1",
           # what lyxml_dump_text writes for CR and (in attribute values) TAB, LF since 6fdbff2 / 47fa563, and relatives
           b"&#xD;", b"&#x9;", b"&#xA;", b"&#xd;", b"&#xa;", b"&#13;", b"&#10;", b"&#xD", b"&#xD;&#xA;", b"\r\n"]

# CR / TAB / LF rich payloads (regression cases of the former findings xml-cr, xml-attr-ws)
WS_ALPHA = [b"\r", b"\n", b"\t", b" ", b"\r\n", b"a", b"&", b"<", b">", b"\"", b"'", b"]]>", b"\xc3\xa9", b"\xf0\x9f\x98\x80", b"\x7f"]


def ws_rich_strings(rng, n):
    """every string of length <= 3 over CR, LF, TAB, 'a', then n random ones over WS_ALPHA"""
    out = []
    for k in (1, 2, 3):
        out += [b"".join(t) for t in itertools.product([b"\r", b"\n", b"\t", b"a"], repeat=k)]
    out += [b"x\ry", b"a\tb\nc", b"a\tb\nc\r\n", b"\r", b"\r\n", b" \r ", b"\n\r"]
    for _ in range(n):
        out.append(b"".join(rng.choice(WS_ALPHA) for _ in range(rng.choice([1, 2, 3, 5, 8]))))
    return out


class XmlEsc(Comp):
    """lyxml_dump_text vs XmlText.xml_esc"""
    name = "xmlesc"
    driver = "t_xml"
    slice = "xml"

    def gen(self, rng, tier, scale=1.0):
        L = []
        for b in range(1, 256):
            for a in (0, 1):
                L.append("xmlesc\t%d\t%s" % (a, hexs(bytes([b]))))
        for _ in range(self.n(tier, 400, 20000, scale)):
            s = gens.yang_string(rng) if rng.random() < 0.7 else gens.raw_bytes(rng, 8)
            L.append("xmlesc\t%d\t%s" % (rng.randrange(2), hexs(s)))
        for s in ws_rich_strings(rng, self.n(tier, 200, 10000, scale)):
            for a in (0, 1):
                L.append("xmlesc\t%d\t%s" % (a, hexs(s)))
        return L


class XmlEscStd(Comp):
    """C12 oracle at function level: what lyxml_dump_text() writes for a string of XML characters, put into an element
    (attribute=0) or between double quotes into an attribute (attribute=1), is read by expat (which does end-of-line
    handling and attribute-value normalisation as XML 1.0 requires); expat must report exactly the string. Payloads are
    rich in CR, TAB and LF: regression cases of the fixed findings xml-cr (6fdbff2) and xml-attr-ws (47fa563)."""
    name = "xmlesc-std"
    driver = "t_xml"
    kinds = None
    quick_sanitize = False
    MAX_REPORTS = 6      # one broken escape fails hundreds of cases; report the first few (shortest first), leave room for others

    def __init__(self):
        self.reported = 0

    def gen(self, rng, tier, scale=1.0):
        L = []
        strs = ws_rich_strings(rng, self.n(tier, 300, 20000, scale))
        for _ in range(self.n(tier, 200, 10000, scale)):
            s = gens.yang_string(rng)       # YANG characters = XML Chars
            if b"\xef\xbf\xbe" not in s and b"\xef\xbf\xbf" not in s:
                strs.append(s)
        strs = sorted(set(strs), key=lambda b: (len(b), b))
        for s in strs:
            if s:
                for a in (0, 1):
                    L.append("xmlesc\t%d\t%s" % (a, hexs(s)))
        return L

    def judge(self, line, out):
        j = self.judge1(line, out)
        if j:
            self.reported += 1
            if self.reported > self.MAX_REPORTS:
                return None
        return j

    def judge1(self, line, out):
        f = line.split("\t")
        attr, want = f[1] == "1", unhex(f[2])
        try:
            text = unhex(out)
        except ValueError:
            return (None, "lyxml_dump_text failed or crashed: " + out[:200])
        doc = b'<?xml version="1.0" encoding="UTF-8"?>' + ((b'<a b="' + text + b'"/>') if attr else (b"<a>" + text + b"</a>"))
        got = []
        p = xml.parsers.expat.ParserCreate()
        p.buffer_text = True
        p.StartElementHandler = lambda name, attrs: got.append(attrs.get("b", "")) if attr else None
        p.CharacterDataHandler = lambda data: got.append(data) if not attr else None
        try:
            p.Parse(doc, True)
        except xml.parsers.expat.ExpatError as e:
            return (None, "printed %s %r is not well-formed XML: %s" % ("attribute value" if attr else "content", text, e))
        got = "".join(got).encode("utf-8")
        if got != want:
            return (None, "lyxml_dump_text(attribute=%d) wrote %r for %r; a conformant XML reader (expat) reads %r"
                    % (attr, text, want, got))
        return None


_RT_SEARCH = []


def xml_rt_search():
    """search for a string whose function-level round trip lyxml_parse_value(lyxml_dump_text(s)) fails on the
    implementation (driver command xmlrt); returns a description of the first (shortest) one or None. Run once."""
    if _RT_SEARCH:
        return _RT_SEARCH[0]
    import random
    import vlib
    exe = vlib.build_driver("t_xml", "rel", "")
    rng = random.Random(12)
    strs = ws_rich_strings(rng, 400) + [bytes([b]) for b in range(1, 128) if b >= 32 or b in (9, 10, 13)]
    strs += [s for s in (gens.yang_string(rng) for _ in range(400)) if s]
    strs = sorted(set(strs), key=lambda b: (len(b), b))
    lines = ["xmlrt\t%d\t%s" % (a, hexs(s)) for s in strs for a in (0, 1)]
    outs, _ = vlib.run_cases(exe, lines, timeout=120)
    found = None
    for l, o in zip(lines, outs):
        f = l.split("\t")
        if o.split(" ")[:2] != [f[2], "1"]:
            found = "lyxml_parse_value(lyxml_dump_text(%r, attribute=%s) + terminator) gives %s instead of the string (case %s)" \
                    % (unhex(f[2]), f[1], o, l.replace("\t", " "))
            break
    _RT_SEARCH.append(found)
    return found


class XmlVal(Comp):
    """lyxml_parse_value vs XmlText.xml_value; witness = round trip through the implementation"""
    name = "xmlval"
    driver = "t_xml"
    slice = "xml"

    def witness(self, line, model_out, impl_out):
        """the lexer departs from its model: is there a string that the printer/lexer pair of the implementation does
        not round-trip (property C01 itself)?"""
        d = xml_rt_search()
        return (None, d) if d else None

    def gen(self, rng, tier, scale=1.0):
        L = []
        for t in XML_TOK:
            for e in (60, 34, 39):
                L.append("xmlval\t%d\t%s" % (e, hexs(t + bytes([e]))))
                L.append("xmlval\t%d\t%s" % (e, hexs(b"a" + t + b"b" + bytes([e]) + b"/")))
        for _ in range(self.n(tier, 1500, 100000, scale)):
            k = rng.randrange(0, 6)
            s = b"".join(rng.choice(XML_TOK) if rng.random() < 0.75 else gens.enc_cp(gens.rand_cp(rng)) for _ in range(k))
            e = rng.choice([60, 34, 39])
            if rng.random() < 0.8:
                s += bytes([e]) + rng.choice([b"", b"/a>", b" x"])
            if rng.random() < 0.15:
                s = gens.mutate(rng, s)
            if 0 in s:
                continue
            L.append("xmlval\t%d\t%s" % (e, hexs(s)))
        # every position truncation of one long mixed document
        doc = b"a&lt;b&#x41;<![CDATA[x]y]]>\xc3\xa9&amp;\xf0\x9f\x98\x80&#65;<"
        for i in range(len(doc) + 1):
            L.append("xmlval\t60\t" + hexs(doc[:i]))
        # printer then lexer (command xmlrt: value read, stopped at the terminator, white-space-only flag), on strings rich
        # in CR/TAB/LF and white-space-only strings: ties the third component of C01_xml_text_roundtrip
        strs = ws_rich_strings(rng, self.n(tier, 200, 10000, scale))
        strs += [b"".join(rng.choice([b" ", b"\t", b"\n", b"\r"]) for _ in range(rng.randrange(1, 6))) for _ in range(60)]
        strs += [gens.yang_string(rng) for _ in range(self.n(tier, 200, 10000, scale))]
        for s in strs:
            if s:
                for a in (0, 1):
                    L.append("xmlrt\t%d\t%s" % (a, hexs(s)))
        return L
