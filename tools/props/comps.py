"""comps.py - correspondence components (T2) shared by several properties.

A component names an impl driver (impl/<driver>.c), generates case lines understood by both that
driver and ocaml/modelrun, optionally normalises outputs, and optionally turns a disagreeing case
into a witness that the *property itself* fails on the implementation (witness())."""
import gens
from vlib import hexs, unhex


class Comp:
    name = ""
    driver = ""       # impl/<driver>.c
    slice = ""        # coq/Extract_<slice>.v + ocaml/run_<slice>.ml
    sanitize = True

    def norm(self, line, out):
        return out

    def n(self, tier, quick, thorough, scale=1.0):
        return int((thorough if tier == "thorough" else quick) * scale)


class Utf8(Comp):
    """ly_getutf8 / ly_pututf8 / ly_checkutf8 vs Utf8.v"""
    name = "utf8"
    driver = "t_xml"
    slice = "xml"

    def gen(self, rng, tier, scale=1.0):
        L = []
        cps = list(range(0, 0x100)) + gens.BOUNDARY_CPS + gens.BAD_CPS
        for c in gens.BOUNDARY_CPS + gens.BAD_CPS:
            cps += [c - 1, c + 1] if c else []
        cps += [rng.randrange(0, 0x120000) for _ in range(self.n(tier, 300, 20000, scale))]
        cps += [0xFFFFFFFF, 0x80000000, 0x110000, 0x1FFFFF, 0x200000]
        for cp in cps:
            L.append("pututf8\t%d" % cp)
            if cp < 0x200000:
                e = gens.enc_cp(cp)
                if 0 not in e:
                    L.append("getutf8\t" + hexs(e))
                    L.append("checkutf8\t" + hexs(e))
                    # truncated and followed by other bytes
                    if len(e) > 1:
                        L.append("getutf8\t" + hexs(e[:-1]))
                        L.append("checkutf8\t" + hexs(e[:-1]))
                    L.append("getutf8\t" + hexs(e + b"A"))
                    L.append("checkutf8\t" + hexs(e + b"\x80"))
        for b in gens.bad_utf8_samples():
            L.append("getutf8\t" + hexs(b))
            L.append("checkutf8\t" + hexs(b))
        for _ in range(self.n(tier, 500, 50000, scale)):
            b = gens.raw_bytes(rng, 5, alphabet=[0x41, 0x7f, 0x80, 0x8f, 0x90, 0x9f, 0xa0, 0xbf, 0xc0, 0xc1, 0xc2, 0xdf, 0xe0, 0xed,
                                                  0xef, 0xf0, 0xf4, 0xf5, 0xf7, 0xf8, 0xff, 0x1f, 0x09, 0xb7, 0xbe])
            if b:
                L.append("getutf8\t" + hexs(b))
                L.append("checkutf8\t" + hexs(b))
        return L


XML_TOK = [b"&", b"&lt;", b"&gt;", b"&amp;", b"&apos;", b"&quot;", b"&#", b"&#x", b";", b"<", b">", b"\"", b"'", b"<![CDATA[", b"]]>",
           b"]", b"]]", b"&#65;", b"&#x41;", b"&#x1F600;", b"&#xD800;", b"&#0;", b"&#9;", b"&#4294967361;", b"&#xfffe;", b"&#xFDD0;",
           b"&#x10FFE;", b"&#x110000;", b"&#x;", b"&#xg;", b"&lt", b"&amp ", b" ", b"\n", b"\t", b"\r", b"a", b"\xc3\xa9",
           b"\xe2\x82\xac", b"\xf0\x9f\x98\x80", b"\x01", b"\x80", b"\xc3", b"&#x0A;", b"&#00065;", b"&#x00000041;", b"x", b"1"]


class XmlEsc(Comp):
    """lyxml_dump_text vs XmlText.xml_esc"""
    name = "xmlesc"
    driver = "t_xml"
    slice = "xml"

    def gen(self, rng, tier, scale=1.0):
        L = []
        for b in range(1, 256):
            for a in (0, 1):
                L.append("xmlesc\t%d\t%s" % (a, hexs(bytes([b]))))
        for _ in range(self.n(tier, 400, 20000, scale)):
            s = gens.yang_string(rng) if rng.random() < 0.7 else gens.raw_bytes(rng, 8)
            L.append("xmlesc\t%d\t%s" % (rng.randrange(2), hexs(s)))
        return L


class XmlVal(Comp):
    """lyxml_parse_value vs XmlText.xml_value; witness = round trip through the implementation"""
    name = "xmlval"
    driver = "t_xml"
    slice = "xml"

    def gen(self, rng, tier, scale=1.0):
        L = []
        for t in XML_TOK:
            for e in (60, 34, 39):
                L.append("xmlval\t%d\t%s" % (e, hexs(t + bytes([e]))))
                L.append("xmlval\t%d\t%s" % (e, hexs(b"a" + t + b"b" + bytes([e]) + b"/")))
        for _ in range(self.n(tier, 1500, 100000, scale)):
            k = rng.randrange(0, 6)
            s = b"".join(rng.choice(XML_TOK) if rng.random() < 0.75 else gens.enc_cp(gens.rand_cp(rng)) for _ in range(k))
            e = rng.choice([60, 34, 39])
            if rng.random() < 0.8:
                s += bytes([e]) + rng.choice([b"", b"/a>", b" x"])
            if rng.random() < 0.15:
                s = gens.mutate(rng, s)
            if 0 in s:
                continue
            L.append("xmlval\t%d\t%s" % (e, hexs(s)))
        # every position truncation of one long mixed document
        doc = b"a&lt;b&#x41;<![CDATA[x]y]]>\xc3\xa9&amp;\xf0\x9f\x98\x80&#65;<"
        for i in range(len(doc) + 1):
            L.append("xmlval\t60\t" + hexs(doc[:i]))
        return L
