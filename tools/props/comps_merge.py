"""comps_merge.py - T2 component of the merge slice (coq/Merge.v).

MergeModel: (module, target, source) generated as in oracles.MergeDup, restricted to what Tree.v models -> libyang
(impl/lyx.c) parses both with validation, dumps them, merges (lyd_merge_siblings with every combination of
LYD_MERGE_DESTRUCT / DEFAULTS / WITH_FLAGS), dumps the result, the source afterwards, merges the same source again and
dumps, runs the read-only invariant checker -> the extracted model computes Merge.merge on the dumped inputs; all dumps
must be identical byte for byte (default flags and metadata included).

Two stages as in comps_tree.TreeIO: the dumps of the parsed operands are the model's INPUT, so gen() runs the parse part of
the script once on the implementation and stores the dumps in the case line as pseudo commands."""
import treeenc
import yanggen
from lyxlib import Script, results, rc, MERGE_DESTRUCT, MERGE_DEFAULTS, MERGE_WITH_FLAGS
from props.comps import Comp
from props.comps_tree import tree_case, stage1, pseudo


def dump_paths(dump):
    """{instance path: (value field, flags)} of a dump, for nodes that have an identity; keys of a list are read from the
    entries that follow it (coarse: names + values, enough to look for property failures in a disagreeing case)"""
    out = {}
    if dump in ("empty", "", "-"):
        return out
    stack = []
    for seg in dump.split(";"):
        if not seg:
            continue
        p = seg.split(":")
        depth, name, val, flags = int(p[0]), p[2], p[3], p[4]
        stack = stack[:depth] + [(name, val)]
        out.setdefault(tuple(stack), []).append((val, flags))
    return out


class MergeModel(Comp):
    """lyd_merge_siblings vs Merge.merge on dumped operands (all option combinations, second merge, source afterwards)"""
    name = "mergemodel"
    driver = "lyx"
    slice = "merge"

    def gen(self, rng, tier, scale=1.0):
        pre = []
        for i in range(self.n(tier, 1500, 15000, scale)):
            m, ig = tree_case(rng, userord=(i % 3 == 0), state=(i % 3 == 0), meta_prob=0.05 if i % 2 else 0.0)
            if i % 7 == 0:
                ig.edp = 0.8                # many explicit nodes that carry the default value
            t = ig.forest(m)
            r = rng.random()
            if r < 0.75:
                src = yanggen.cross(rng, t, ig.forest(m), m.nodes)
            elif r < 0.9:
                src = ig.forest(m)
            elif r < 0.95:
                src = [n.clone() for n in t]
            else:
                src = []
            if rng.random() < 0.05:
                t = []
            opts = rng.choice([0, 0, MERGE_DESTRUCT, MERGE_DEFAULTS, MERGE_WITH_FLAGS, MERGE_DEFAULTS | MERGE_WITH_FLAGS,
                               MERGE_DESTRUCT | MERGE_DEFAULTS, MERGE_DESTRUCT | MERGE_WITH_FLAGS,
                               MERGE_DESTRUCT | MERGE_DEFAULTS | MERGE_WITH_FLAGS])
            s = Script()
            s.ctx()                                              # 0
            s.mod(m.yang())                                      # 1
            s.parse(0, "x", yanggen.to_xml(t))                   # 2 target
            s.parse(1, "j" if i % 2 else "x", yanggen.to_json(src) if i % 2 else yanggen.to_xml(src))   # 3 source
            s.dump(0)                                            # 4
            s.dump(1)                                            # 5
            pre.append((m, s, opts))
        outs = stage1([s.line() for _, s, _ in pre])
        L = []
        for (m, s, opts), out in zip(pre, outs):
            r = results(out)
            if len(r) < 7 or r[0] != "0" or r[1] != "0" or rc(r[2]) != 0 or rc(r[3]) != 0:
                continue                    # module or an instance rejected: not a case for this component
            s.add("merge", "t0", "t1", opts)                     # 6
            s.dump(0)                                            # 7
            s.dump(1)                                            # 8 source afterwards (empty when consumed)
            if not opts & MERGE_DESTRUCT:
                s.add("merge", "t0", "t1", opts)                 # 9
                s.dump(0)                                        # 10
            s.add("inv", "t0")                                   # last
            cmds = [pseudo("s", treeenc.schema_line(m)), pseudo("n", treeenc.name_table(m)), pseudo("t", r[4]),
                    pseudo("u", r[5]), pseudo("o", opts)] + s.cmds
            L.append("mergem\t" + "\t".join(cmds))
        return L

    @staticmethod
    def impl_fields(out):
        """(target, source, merged, source afterwards, merged again, invariant) of the implementation's answer"""
        r = results(out)[5:]          # skip the five pseudo commands
        # r: ctx mod parse parse dumpT dumpS merge dumpR dumpS' [merge dumpR2] inv end
        if len(r) < 11:
            return None
        t, s, mrc, res, s2 = r[4], r[5], r[6], r[7], r[8]
        if len(r) >= 13:
            mrc2, res2, inv = r[9], r[10], r[11]
        else:
            mrc2, res2, inv = "0", "-", r[9]
        if mrc != "0" or mrc2 != "0":
            return (t, s, "merge-failed:%s:%s" % (mrc, mrc2), s2, res2, inv)
        return (t, s, res, s2, res2, "ok" if inv == "ok" else "not-canonical")

    def norm(self, line, out):
        if " | end:" in out:
            f = self.impl_fields(out)
            return " | ".join(f) if f else out
        return out

    def witness(self, line, model_out, impl_out):
        """does the PROPERTY fail on the implementation for this case (not only the correspondence)?"""
        f = self.impl_fields(impl_out) if " | end:" in impl_out else None
        if impl_out.startswith("CRASH(") or impl_out == "TIMEOUT":
            return (None, "crash: " + impl_out)
        if not f:
            return None
        t, s, res, s2, res2, inv = f
        destruct = "#o " in line and (int(line.split("#o ")[1].split("\t")[0]) & MERGE_DESTRUCT)
        if res.startswith("merge-failed"):
            return (None, "lyd_merge_siblings failed on valid operands: " + res)
        if not destruct and s2 != s:
            return (None, "a non-destructive merge modified its source")
        if not destruct and res2 != res:
            return (None, "merge is not idempotent: merging the same source again changed the target")
        if inv != "ok":
            return (None, "the merged tree breaks a tree invariant")
        if t == "empty" and res != s:
            return (None, "merge into an empty target is not a copy of the source")
        # a default source leaf must not overwrite an explicit target leaf unless LYD_MERGE_DEFAULTS is given
        # (judged for leaves that occur once in each dump, i.e. outside lists)
        opts = int(line.split("#o ")[1].split("\t")[0]) if "#o " in line else 0
        if not opts & MERGE_DEFAULTS:
            single = []
            for dmp in (t, s, res):
                byname = {}
                stack = []
                for seg in ([] if dmp in ("empty", "", "-") else dmp.split(";")):
                    if not seg:
                        continue
                    q = seg.split(":")
                    stack = stack[:int(q[0])] + [q[2]]
                    byname.setdefault(tuple(stack), []).append((q[3], q[4]))
                single.append(byname)
            for path, insts in single[0].items():
                if len(insts) == 1 and insts[0][0].startswith("=") and "d" not in insts[0][1]:
                    si, ri = single[1].get(path, []), single[2].get(path, [])
                    if len(si) == 1 and len(ri) == 1 and "d" in si[0][1] and all(len(single[k].get(path[:n], [])) == 1
                                                                                 for k in range(3) for n in range(1, len(path))):
                        if ri[0][0] != insts[0][0] or "d" in ri[0][1]:
                            return (None, "a default source leaf replaced the explicit target leaf %s without LYD_MERGE_DEFAULTS"
                                    % "/".join(path))
        # every explicit source node (by instance path, coarse) is in the result with the source's value
        rp = dump_paths(res)
        for path, insts in dump_paths(s).items():
            for val, flags in insts:
                if "d" in flags:
                    continue
                if path not in rp:
                    return (None, "an explicit source node is missing from the merged tree: %s" % "/".join(n for n, _ in path))
        return None
