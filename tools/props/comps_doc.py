"""comps_doc.py - slice `doc`: document level of the XML / JSON printers and readers (coq/XmlDoc.v, coq/JsonDoc.v), and the
strengthened API-level round-trip oracles.

DocModel (T2): generated module + valid instance restricted to what Tree.v and the document models cover (one module,
no union types, metadata on) -> libyang (impl/lyx.c) parses it with validation, dumps the tree and prints it as XML and
JSON with LYD_PRINT_WITHSIBLINGS | LYD_PRINT_SHRINK in the explicit, report-all and trim with-defaults modes -> the
extracted printers applied to the dump must produce the SAME BYTES; the extracted readers (libyang side and standard)
applied to LIBYANG's bytes must give back the dump (pruned by the selection, default flags cleared) resp. its generic
element tree / RFC 7951 value. Any byte difference is a mismatch.

Two stages as in comps_tree.TreeIO: the dump and libyang's bytes are the model's INPUT, so gen() runs the script once on
the implementation and stores them in the case line as pseudo commands (#d, #b)."""
import docenc
import treeenc
import yanggen
from lyxlib import (Script, results, rc, payload, PRINT_SIBLINGS, PRINT_SHRINK, PRINT_KEEPEMPTY, WD_EXPLICIT, WD_ALL, WD_TRIM)
from props.comps import Comp
from props.comps_tree import tree_case, stage1, pseudo
from vlib import hexs, unhex


def emptyize(m, rng, prob=0.4):
    """the generators never draw the type empty for a leaf-list (YANG 1.1 allows it): give it to some config false
    leaf-lists (state leaf-lists may repeat a value, so several instances stay valid)"""
    def walk(nodes, cfg):
        for n in nodes:
            c = cfg and getattr(n, "config", True)
            if n.kind == "leaf-list" and not c and not n.when and rng.random() < prob:
                n.type = yanggen.TEmpty()
                n.defaults = []
            elif n.kind in ("container", "list"):
                walk(n.children, c)
            elif n.kind == "choice":
                for _, ns in n.cases:
                    walk(ns, c)
    walk(m.nodes, True)
    return m


def doc_case(rng, **kw):
    for _ in range(200):
        m, ig = tree_case(rng, **kw)
        if docenc.supported(m):
            return emptyize(m, rng), ig
    raise RuntimeError("no supported module generated")


M2_YANG = """module m2 { yang-version 1.1; namespace "urn:verif:m2"; prefix %s;
  import ietf-yang-metadata { prefix md; }
  md:annotation tag { type string; }
}"""


def add_meta(rng, forest, mod, name, prob=0.3):
    for n in forest:
        if rng.random() < prob:
            n.meta.insert(rng.randrange(len(n.meta) + 1), (mod, name, gens.yang_string(rng, 4).decode("utf-8", "replace")))
        add_meta(rng, n.children, mod, name, prob)


BASE = PRINT_SIBLINGS | PRINT_SHRINK
# (format, options): JSON in trim mode exercises the array / first_leaflist bookkeeping with non-uniform selections
PRINTS = [("x", BASE | WD_EXPLICIT), ("x", BASE | WD_ALL), ("x", BASE | WD_TRIM), ("x", BASE | WD_EXPLICIT | PRINT_KEEPEMPTY),
          ("j", BASE | WD_EXPLICIT), ("j", BASE | WD_ALL), ("j", BASE | WD_TRIM), ("j", BASE | WD_EXPLICIT | PRINT_KEEPEMPTY)]


class DocModel(Comp):
    """lyd_print_mem XML/JSON (shrink; explicit, report-all, trim) vs XmlDoc.xml_print / JsonDoc.json_print byte for byte,
    and the model readers on libyang's bytes"""
    name = "docmodel"
    driver = "lyx"
    slice = "doc"

    def gen(self, rng, tier, scale=1.0):
        pre = []
        for i in range(self.n(tier, 700, 9000, scale)):
            m, ig = doc_case(rng, userord=(i % 2 == 0), state=(i % 3 != 1), adversarial=(i % 4 == 3),
                             meta_prob=(0.3 if i % 3 == 0 else 0.08))
            ig.max_inst = 6 if i % 4 == 0 else 4
            if i % 5 == 0:
                ig.edp = 0.8
            f = ig.forest(m)
            # a second module that only contributes an annotation: with another prefix, or (legal) with the SAME prefix as
            # the data module - the XML printer then has to number the prefix (91f0178)
            extra = ()
            if i % 6 == 0:
                pf = "m1" if i % 12 == 0 else "mx"
                extra = (("m2", pf, "urn:verif:m2"),)
                add_meta(rng, f, "m2", "tag")
            s = Script()
            s.ctx()                                                       # 0
            if extra:
                s.mod(M2_YANG % extra[0][1])
            s.mod(m.yang())
            s.parse(0, "x" if (i % 2 and not extra) else "j", yanggen.to_xml(f) if (i % 2 and not extra) else yanggen.to_json(f))
            s.dump(0)
            for fmt, po in PRINTS:
                s.print(0, fmt, po)
            pre.append((m, s, extra))
        outs = stage1([s.line() for _, s, _ in pre])
        L = []
        for (m, s, extra), out in zip(pre, outs):
            r = results(out)
            k0 = len(extra)                 # commands before the data module
            if len(r) < 5 + k0 + len(PRINTS) or any(x != "0" for x in r[:2 + k0]) or rc(r[2 + k0]) != 0:
                continue                    # module or instance rejected: not a case for this component
            r = r[k0:]
            if any(rc(x) != 0 for x in r[4:4 + len(PRINTS)]):
                continue
            cmds = [pseudo("s", treeenc.schema_line(m)), pseudo("n", treeenc.name_table(m)),
                    pseudo("m", docenc.mods_table(m, extra)), pseudo("k", docenc.jkinds(m)), pseudo("d", r[3])]
            for (fmt, po), x in zip(PRINTS, r[4:4 + len(PRINTS)]):
                cmds.append(pseudo("b", "%s %d %s" % (fmt, po, hexs(payload(x)))))
            L.append("docm\t" + "\t".join(cmds + s.cmds))
        return L

    def norm(self, line, out):
        if " | end:" in out:              # implementation
            r = results(out)
            cs = line.split("\t")[1:]
            npseudo = sum(1 for c in cs if c.startswith("#"))
            r = r[npseudo + sum(1 for c in cs if c.startswith("mod ")) - 1:]     # (an annotation module precedes the data module)
            ans = ["W=1111111"]
            for (fmt, po), x in zip(PRINTS, r[4:4 + len(PRINTS)]):
                if rc(x) != 0:
                    ans.append("%s%d print-failed" % (fmt, po))
                else:
                    ans.append("%s%d %s R=1 G=1%s" % (fmt, po, hexs(payload(x)), " D=1" if fmt == "j" else ""))
            return " | ".join(ans)
        return out

    def witness(self, line, model_out, impl_out):
        """a byte difference whose two documents MEAN different things to an independent reader is a failure of the
        property itself, not only of the correspondence. (The former listed disagreement - the readers on libyang's JSON
        output in trim mode, finding json-trim-leaflist-meta - is fixed by f592167 and modelled: nothing is excused.)"""
        if " | end:" not in impl_out:
            return None
        m = model_out.split(" | ")
        o = self.norm(line, impl_out).split(" | ")
        if len(m) != len(o):
            return None
        for a, b in zip(m, o):
            if a == b:
                continue
            pa, pb = a.split(" "), b.split(" ")
            if pa[0] != pb[0] or len(pa) < 2 or len(pb) < 2:
                return None
            if pa[1] != pb[1]:
                # different bytes: does libyang's document MEAN something else than the model's (which the theorems are
                # about)? Then the property itself fails on this input, not only the correspondence
                w = self.meaning_differs(pa[0][0], unhex(pa[1]), unhex(pb[1]))
                return (None, "option set %s: %s" % (pa[0], w)) if w else None
        return None


def _meaning_differs(fmt, model, impl):
    """independent readers (expat / json) on the model's and on libyang's document"""
    import json
    import xml.parsers.expat
    if fmt == "x":
        try:
            a = oracles.expat_events(model)
        except xml.parsers.expat.ExpatError:
            return None
        try:
            b = oracles.expat_events(impl)
        except xml.parsers.expat.ExpatError as e:
            return "libyang's XML is not well-formed (%s): %r" % (e, impl[:300])
        return None if a == b else "libyang's XML reads differently from the model's: %r vs %r" % (impl[:300], model[:300])
    try:
        a = json.loads(model.decode("utf-8"), object_pairs_hook=list)
    except (ValueError, UnicodeDecodeError):
        return None
    try:
        b = json.loads(impl.decode("utf-8"), object_pairs_hook=list)
    except (ValueError, UnicodeDecodeError) as e:
        return "libyang's JSON is not RFC 8259 JSON (%s): %r" % (e, impl[:300])
    return None if a == b else "libyang's JSON reads differently from the RFC 7951 rendering: %r vs %r" % (impl[:300], model[:300])


DocModel.meaning_differs = staticmethod(_meaning_differs)


# ------------------------------------------------------------------------------------------------
# API-level oracle: what oracles.RoundTrip does not generate
# ------------------------------------------------------------------------------------------------
import random as _random

import gens
from lyxlib import (PARSE_ONLY, PARSE_OPAQ, PARSE_STRICT, VAL_PRESENT, WD_ALL_TAG, WD_IMPL_TAG, TEST_MODULES)
from props import oracles
from props.oracles import Oracle, crashed, gen_case

OPQ = PARSE_ONLY | PARSE_OPAQ
SIB = PRINT_SIBLINGS

FIXED_YANG = """module m1 { yang-version 1.1; namespace "urn:verif:m1"; prefix m1;
  import ietf-yang-metadata { prefix md; }
  md:annotation note { type string; }
  container c { leaf known { type string; } leaf n { type int8; }
    list l { key k; leaf k { type string; } leaf v { type string; } anydata lad; }
    container d { leaf s { type string; } leaf t { type string; }
      list dl { key k; leaf k { type uint8; } leaf big { type string; } leaf after { type string; } } }
    anydata cad; anyxml cax; }
  leaf top { type string; }
  leaf s { type string; }
  leaf t { type string; }
  anydata ad; anyxml ax;
}"""

TRIM_YANG = """module m1 { yang-version 1.1; namespace "urn:verif:m1"; prefix m1;
  import ietf-yang-metadata { prefix md; }
  md:annotation note { type string; }
  leaf-list ll { type int8; default -5; default -7; }
  container c { leaf x { type string; } leaf n { type int8; } }
}"""

# names that are prefixes of each other, in several namespaces
ONAMES = ["interfaces-state", "interfaces", "interface", "int", "system", "system-state", "sys", "a", "ab", "abc", "x", "x-y", "x.y"]
ONS = ["urn:unknown", "urn:other", "urn:unknown:2"]


def xval(rng):
    return rng.choice(["", "v", "1", "true", "two words", "a<b&c>d", "q\"uote'", "tab\tnl\ncr\r.", "é€", " lead", "x" * 40])


class XmlX:
    """serialiser of a yanggen forest with extra (unknown) elements injected at every level"""

    def __init__(self, rng, mod, known_ns_extras=False, attrs=True, prob=0.35):
        self.rng, self.mod, self.kn, self.attrs, self.prob = rng, mod, known_ns_extras, attrs, prob
        self.n_extra = 0
        self.all_known_ns = True
        self.has_attr = False

    def extra(self, depth, parent_ns):
        rng = self.rng
        nm = rng.choice(ONAMES)
        ns = self.mod.ns if (self.kn and rng.random() < 0.5) else rng.choice(ONS)
        if self.kn:
            ns = self.mod.ns
        if ns != self.mod.ns:
            self.all_known_ns = False
        at = ""
        if ns != parent_ns or rng.random() < 0.3:
            at += ' xmlns="%s"' % ns
        if self.attrs and rng.random() < 0.3:
            self.has_attr = True
            k = rng.random()
            if k < 0.35:
                at += ' plain="%s"' % yanggen.xml_attr(xval(rng))
            elif k < 0.7:
                at += ' xmlns:p="urn:p" p:bt="%s"' % yanggen.xml_attr(xval(rng))
            else:
                at += ' xmlns:%s="%s" %s:note="%s"' % (self.mod.prefix, self.mod.ns, self.mod.prefix, yanggen.xml_attr(xval(rng)))
        self.n_extra += 1
        r = rng.random()
        if depth < 2 and r < 0.3:
            inner = "".join(self.extra(depth + 1, ns) for _ in range(rng.randrange(1, 4)))
            return "<%s%s>%s</%s>" % (nm, at, inner, nm)
        v = xval(rng)
        if v == "":
            return "<%s%s/>" % (nm, at)
        return "<%s%s>%s</%s>" % (nm, at, yanggen.xml_text(v), nm)

    def inject(self, parts, depth, parent_ns):
        out = []
        for p in parts:
            while self.rng.random() < self.prob:
                out.append(self.extra(depth, parent_ns))
            out.append(p)
        while self.rng.random() < self.prob:
            out.append(self.extra(depth, parent_ns))
        return "".join(out)

    def forest(self, forest, parent_mod=None, depth=0):
        parts = []
        for n in forest:
            s = n.schema
            attrs = ""
            if s.module is not parent_mod:
                attrs += ' xmlns="%s"' % s.module.ns
            for mm, mn, mv in n.meta:
                attrs += ' xmlns:%s="urn:verif:%s" %s:%s="%s"' % (mm, mm, mm, mn, yanggen.xml_attr(mv))
            if s.kind in ("leaf", "leaf-list"):
                if isinstance(s.type, yanggen.TEmpty) or n.value == "":
                    parts.append("<%s%s/>" % (s.name, attrs))
                else:
                    parts.append("<%s%s>%s</%s>" % (s.name, attrs, yanggen.xml_text(n.value), s.name))
            else:
                parts.append("<%s%s>%s</%s>" % (s.name, attrs, self.forest(n.children, s.module, depth + 1), s.name))
        return self.inject(parts, depth, parent_mod.ns if parent_mod else None)


class JsonX:
    """a yanggen forest as a JSON object with extra (unknown) members injected at every level; members are kept as an
    ordered list of (name, json text) so that repeated names and the position of the extras are under control"""

    def __init__(self, rng, mod, prob=0.35):
        self.rng, self.mod, self.prob = rng, mod, prob
        self.n_extra = 0

    def scalar(self):
        rng = self.rng
        return rng.choice(['"v"', '""', "1", "-12", "true", "false", "null", "[null]", '"a<b&c\\"d"', '"\\u00e9\\n"', "3.5"])

    def extra(self, depth, qualified):
        rng = self.rng
        self.n_extra += 1
        nm = rng.choice(ONAMES)
        name = ("unk:" if (qualified or rng.random() < 0.5) else "") + nm
        r = rng.random()
        if depth < 2 and r < 0.25:
            ms = [self.extra(depth + 1, False) for _ in range(rng.randrange(1, 4))]
            if rng.random() < 0.3:
                # (an attribute of the node's own module lost its module name in the output: former finding
                # json-opaq-attr-unqualified, 9a1019b; an unqualified unknown member belongs to the module of its parent)
                am = "m1:note" if (name.startswith("unk:") or rng.random() < 0.5) else "other:at"
                ms.insert(0, ('@', '{"%s":%s}' % (am, _js(xval(rng)))))
            return (name, "{" + ",".join('%s:%s' % (_js(k), v) for k, v in dedup(ms)) + "}")
        if depth < 2 and r < 0.4:
            objs = []
            for i in range(rng.randrange(1, 4)):
                objs.append('{"k":%d}' % i)
            return (name, "[" + ",".join(objs) + "]")
        if r < 0.5:
            return (name, "[" + ",".join(rng.choice(['"a"', "1", "true"]) for _ in range(rng.randrange(1, 4))) + "]")
        return (name, self.scalar())

    def inject(self, members, depth, top):
        out = []
        for m in members:
            while self.rng.random() < self.prob:
                out.append(self.extra(depth, top))
            out.append(m)
        while self.rng.random() < self.prob:
            out.append(self.extra(depth, top))
        return dedup(out)

    def obj(self, forest, parent_mod=None, depth=0):
        import json
        members = []
        plain = yanggen.to_json_obj(forest, parent_mod)
        # regroup: one member per key of the independent encoder, children re-encoded recursively with extras
        by_name = {}
        for n in forest:
            s = n.schema
            name = s.name if s.module is parent_mod else "%s:%s" % (s.module.name, s.name)
            by_name.setdefault(name, []).append(n)
        for name, val in plain.items():
            if name.startswith("@"):
                members.append((name, json.dumps(val, ensure_ascii=False)))
                continue
            ns = by_name[name]
            s = ns[0].schema
            if s.kind == "container":
                members.append((name, self.objtext(ns[0], val)))
            elif s.kind == "list":
                members.append((name, "[" + ",".join(self.objtext(n, v) for n, v in zip(ns, val)) + "]"))
            else:
                members.append((name, json.dumps(val, ensure_ascii=False)))
        return self.inject(members, depth, parent_mod is None)

    def objtext(self, n, val):
        import json
        ms = self.obj(n.children, n.schema.module, 1)
        if "@" in val:
            ms.insert(0, ("@", json.dumps(val["@"], ensure_ascii=False)))
        return "{" + ",".join('%s:%s' % (_js(k), v) for k, v in ms) + "}"

    def text(self, forest):
        return "{" + ",".join('%s:%s' % (_js(k), v) for k, v in self.obj(forest)) + "}"


def _js(s):
    import json
    return json.dumps(s, ensure_ascii=False)


def dedup(members):
    """an unknown member name may repeat only as adjacent array-less instances in libyang's printer; keep the first
    occurrence of every extra name on one level (known names are unique already)"""
    seen = set()
    out = []
    for k, v in members:
        if k in seen:
            continue
        seen.add(k)
        out.append((k, v))
    return out


class OpModule(yanggen.Module):
    """a generated module with a top-level rpc and notification, and an action and a notification inside a list"""

    def __init__(self, name, nodes, rpc, notif, act, nnotif):
        self.act, self.nnotif = act, nnotif           # (name, in, out), (name, nodes)
        yanggen.Module.__init__(self, name, nodes, rpcs=[rpc], notifs=[notif], annotations=["note"])
        for n in self.all_nodes():
            n.module = self

    def all_nodes(self):
        out = yanggen.Module.all_nodes(self)
        def rec(n):
            out.append(n)
            if n.kind in ("container", "list"):
                for c in n.children:
                    rec(c)
            elif n.kind == "choice":
                for _, ns in n.cases:
                    for c in ns:
                        rec(c)
        if hasattr(self, "act"):
            for n in self.act[1] + self.act[2] + self.nnotif[1]:
                rec(n)
        return out

    def yang(self):
        s = yanggen.Module.yang(self).rstrip()
        assert s.endswith("}")
        s = s[:-1]
        s += '  container opc {\n    list opl { key "id";\n      leaf id { type string; }\n'
        s += "      action %s {\n        input {\n" % self.act[0]
        for n in self.act[1]:
            s += n.yang("          ")
        s += "        }\n        output {\n"
        for n in self.act[2]:
            s += n.yang("          ")
        s += "        }\n      }\n      notification %s {\n" % self.nnotif[0]
        for n in self.nnotif[1]:
            s += n.yang("        ")
        s += "      }\n    }\n  }\n}\n"
        return s


def op_module(rng):
    g = yanggen.SchemaGen(rng, adversarial=(rng.random() < 0.3), state=False, choices=(rng.random() < 0.5))
    nodes = g.nodes(2, count=rng.randrange(1, 3))
    mk = lambda: g.nodes(2, config=True, count=rng.randrange(1, 4))
    m = OpModule("m1", nodes, (g.nm("rpc"), mk(), mk()), (g.nm("ntf"), mk()), (g.nm("act"), mk(), mk()), (g.nm("nn"), mk()))
    return m


class RoundTripX(Oracle):
    """C01 at the API level for what oracles.RoundTrip does not generate: opaque nodes (parsed with LYD_PARSE_OPAQ from
    unknown elements / members at every level - names that are prefixes of each other, one name in several namespaces,
    nested, with attributes - and created with lyd_new_opaq / lyd_new_opaq2 / lyd_new_attr / lyd_new_attr2), anydata and
    anyxml values of every value type, RPC / action input and output and notifications (top level and nested) through
    lyd_parse_op, values around the LYB chunk limit at several nesting depths. Every tree is printed (XML shrunk and
    formatted, JSON, LYB, with-defaults and keep-empty options) and parsed back with the same options; the result must be
    the same tree: extended dump (opaque nodes with resolved module or namespace, value, attributes; anydata content),
    lyd_compare_siblings(FULL_RECURSION | DEFAULTS) and a metadata comparison of every node pair."""
    name = "roundtripx"
    driver = "t_doc"

    # ---- script helpers -------------------------------------------------------------------------
    @staticmethod
    def finish(s, nsetup, checks, family):
        """checks: list of (kind, fmt, args, expect); kind 'd' data (xrt) / 'r','n','y' operation (xrtop)"""
        spec = []
        s.add("xdump", "t0")
        for kind, fmt, po, exp in checks:
            if kind == "d":
                s.add("xrt", "t0", "t2", fmt, po, OPQ, 0)
            else:
                s.add("xrtop", "t0", "t2", fmt, kind, po)
            s.add("xcmp", "t0", "t2")
            s.add("xdump", "t2")
            spec.append("%s%s/%d/%s" % (kind, fmt, po, exp))
        return "doc\t#x %s %d %s\t" % (family, nsetup, ";".join(spec)) + "\t".join(s.cmds)

    def gen(self, rng, tier, scale=1.0):
        L = []
        E = "E"
        std = lambda fmts: [("d", f, po, E) for f in fmts for po in ((SIB | PRINT_SHRINK, SIB) if f != "b" else (SIB,))]
        # A: opaque nodes parsed from XML
        for i in range(self.n(tier, 260, 3000, scale)):
            m, ig = gen_case(rng, meta_prob=0.1)
            f = ig.forest(m)
            if i % 9 == 0:
                f = []
            kn = (i % 4 == 3)                       # every extra element in the module's namespace: JSON can name it too
            x = XmlX(rng, m, known_ns_extras=kn, attrs=(not kn), prob=0.5 if not f else 0.3)
            data = x.forest(f)
            if not x.n_extra:
                data += x.extra(0, None)
            s = Script()
            s.ctx(searchdir=TEST_MODULES)
            s.mod(m.yang())
            s.parse(0, "x", data, popts=OPQ, vopts=0)
            checks = std("xb") + [("d", "x", SIB | PRINT_SHRINK | WD_ALL, E), ("d", "x", SIB | PRINT_KEEPEMPTY, E),
                                  ("d", "b", SIB | WD_ALL, E)]
            if kn and x.all_known_ns:
                checks += std("j")
            L.append(self.finish(s, 3, checks, "opaq-xml"))
        # the shape of the seeded defect and relatives, exhaustively over a few name triples
        for names in [("interfaces-state", "system", "interfaces"), ("ab", "x", "a"), ("a", "x", "ab"), ("abc", "ab", "a", "ab", "abc"),
                      ("x-y", "q", "x"), ("a", "a", "ab", "a")]:
            for ns2 in ("urn:unknown", "urn:other"):
                for wrap in (0, 1):
                    els = "".join('<%s xmlns="%s"/>' % (n, "urn:unknown" if k != len(names) - 1 else ns2) for k, n in enumerate(names))
                    data = ('<c xmlns="urn:verif:m1"><known>k</known>%s</c>' % els) if wrap else els
                    s = Script()
                    s.ctx()
                    s.mod(FIXED_YANG)
                    s.parse(0, "x", data, popts=OPQ, vopts=0)
                    L.append(self.finish(s, 3, std("xb"), "opaq-xml"))
        # B: opaque nodes parsed from JSON
        for i in range(self.n(tier, 220, 2500, scale)):
            m, ig = gen_case(rng, meta_prob=0.1)
            f = ig.forest(m)
            if i % 9 == 0:
                f = []
            j = JsonX(rng, m, prob=0.5 if not f else 0.3)
            data = j.text(f)
            if not j.n_extra:
                k, v = j.extra(0, True)
                data = "{" + (data[1:-1] + "," if len(data) > 2 else "") + "%s:%s}" % (_js(k), v)
            s = Script()
            s.ctx(searchdir=TEST_MODULES)
            s.mod(m.yang())
            s.parse(0, "j", data, popts=OPQ, vopts=0)
            L.append(self.finish(s, 3, std("jb") + [("d", "j", SIB | PRINT_SHRINK | WD_ALL, E), ("d", "j", SIB | PRINT_KEEPEMPTY, E)],
                                 "opaq-json"))
        # C: opaque nodes created through the API
        for i in range(self.n(tier, 160, 1500, scale)):
            L.append(self.api_case(rng, xml=(i % 2 == 0)))
        # D: anydata / anyxml
        for i in range(self.n(tier, 120, 1000, scale)):
            L.append(self.any_case(rng, i))
        # E: operations
        for i in range(self.n(tier, 150, 1500, scale)):
            L += self.op_cases(rng, i)
        # R: the witnesses of the fixed findings of this slice (known_findings.d/doc.json), as regression cases
        L += self.regress_cases()
        # G: print options x content: anydata / anyxml values that are data trees with 0, 1, >= 2 top-level nodes, any in any,
        # in single-root data, notifications, RPCs and replies, printed with and without LYD_PRINT_WITHSIBLINGS
        for i in range(self.n(tier, 40, 400, scale)):
            L += self.anyopt_cases(rng, i)
        # F: values around the LYB chunk limit
        lens = list(range(65500, 65545)) if tier != "thorough" else list(range(65400, 65600)) + [131040 + d for d in range(-40, 41)]
        for ln in lens:
            for depth in range(4):
                L.append(self.big_case(rng, ln, depth))
        return L

    # ---- R ---------------------------------------------------------------------------------------
    REGRESS_MA = ('module ma { yang-version 1.1; namespace "urn:a"; prefix p; import ietf-yang-metadata { prefix md; } '
                  'md:annotation x { type string; } leaf l { type string; } }')
    REGRESS_MB = ('module mb { yang-version 1.1; namespace "urn:b"; prefix p; import ietf-yang-metadata { prefix md; } '
                  'md:annotation y { type string; } }')

    def regress_cases(self):
        E = "E"
        jx = [("d", "j", SIB | PRINT_SHRINK, E), ("d", "j", SIB, E), ("d", "x", SIB | PRINT_SHRINK, E), ("d", "b", SIB, E)]
        L = []

        def parsed(fmt, data, checks, mods=(FIXED_YANG,)):
            s = Script()
            s.ctx()
            for m in mods:
                s.mod(m)
            s.parse(0, fmt, data, popts=OPQ, vopts=0)
            L.append(self.finish(s, 2 + len(mods), checks, "regress"))

        # xml-meta-prefix-clash (91f0178): two modules with one prefix put metadata on one node
        parsed("j", '{"ma:l":"v","@ma:l":{"ma:x":"1","mb:y":"2"}}',
               [("d", "x", SIB | PRINT_SHRINK, E), ("d", "x", SIB, E), ("d", "j", SIB | PRINT_SHRINK, E), ("d", "b", SIB, E)],
               mods=(self.REGRESS_MA, self.REGRESS_MB))
        # json-opaq-attr-unqualified (9a1019b): attribute of the opaque node's own module
        parsed("j", '{"m1:c":{"n":"bad","@n":{"m1:note":"x"}}}', jx)
        # json-opaq-mixed-array / json-opaq-list-value-lost (1f33653): equally named opaque siblings with and without children
        parsed("x", '<sx xmlns="urn:verif:m1">a</sx><sx xmlns="urn:verif:m1">b</sx><sx xmlns="urn:verif:m1"><y/></sx>', jx)
        parsed("x", '<c xmlns="urn:verif:m1"><sx/><sx>v</sx></c>', jx)
        parsed("x", '<c xmlns="urn:verif:m1"><sx><y>1</y></sx><sx>v</sx><sx/><sx><y>2</y></sx></c>', jx)
        # e077458: an opaque node inside an equally named opaque node
        parsed("x", '<sx xmlns="urn:verif:m1"><sx>v</sx><sx>w</sx></sx><sx xmlns="urn:verif:m1"><sx><sx/></sx></sx>', jx)
        # json-anydata-nested-same-list (e077458): a data tree in the anydata of an instance of the list it contains
        s = Script()
        s.ctx()
        s.mod(FIXED_YANG)
        s.add("newpath", "t0", "c0", 0, hexs("/m1:c/l[k='a']/v"), hexs("vv"))
        s.add("xany", "t0#1", "c0", "m1", "lad", "t",
              hexs('<c xmlns="urn:verif:m1"><known>k</known><l><k>a</k><v>1</v></l><l><k>b</k></l></c>'))
        L.append(self.finish(s, 4, jx, "regress"))
        # json-anydata-unqualified (85d6827): top-level nodes of the anydata content carry their module name
        s = Script()
        s.ctx()
        s.mod(FIXED_YANG)
        s.add("xany", "t0", "c0", "m1", "ad", "t", hexs('<top xmlns="urn:verif:m1">inner</top>'))
        L.append(self.finish(s, 3, jx, "regress"))
        return L

    # ---- G ---------------------------------------------------------------------------------------
    ANYOPT_YANG = """module m1 { yang-version 1.1; namespace "urn:verif:m1"; prefix m1;
  container cfg { leaf name { type string; } anydata data; anyxml ax; container inner { anydata d2; leaf z { type string; } } }
  container c1 { leaf a { type string; } }
  container c2 { leaf b { type string; } leaf-list bl { type string; } }
  leaf-list ll { type uint8; }
  leaf top { type string; }
  notification ev { leaf n { type string; } anydata data; }
  rpc op { input { leaf i { type string; } anydata in; } output { leaf o { type string; } anydata out; } }
}"""

    def any_content(self, rng, depth=0):
        """the content of an anydata / anyxml element: a data tree with 0, 1 or several top-level nodes, possibly holding an
        anydata with content again"""
        ns = ' xmlns="urn:verif:m1"'
        parts = ['<c1%s><a>%s</a></c1>' % (ns, yanggen.xml_text(xval(rng) or "a")),
                 '<c2%s><b>2</b><bl>x</bl><bl>y</bl></c2>' % ns, '<ll%s>3</ll><ll%s>4</ll>' % (ns, ns), '<top%s>t</top>' % ns]
        if depth < 2:
            parts.append('<cfg%s><name>nested%d</name><data>%s</data></cfg>' % (ns, depth, self.any_content(rng, depth + 1)))
        k = rng.choice([0, 1, 2, 2, 3, 4])
        return "".join(rng.sample(parts, min(k, len(parts))))

    def anyopt_cases(self, rng, i):
        E = "E"
        ns = ' xmlns="urn:verif:m1"'
        opts = [0, PRINT_SHRINK, SIB, SIB | PRINT_SHRINK, WD_ALL, WD_ALL | SIB, WD_TRIM | PRINT_SHRINK, PRINT_KEEPEMPTY, WD_EXPLICIT]
        out = []
        # single-root data: printing without LYD_PRINT_WITHSIBLINGS (= lyd_print_tree) is a complete print
        s = Script()
        s.ctx()
        s.mod(self.ANYOPT_YANG)
        s.parse(0, "x", '<cfg%s><name>n</name><data>%s</data><ax>%s</ax><inner><d2>%s</d2><z>z</z></inner></cfg>'
                % (ns, self.any_content(rng), self.any_content(rng, 1), self.any_content(rng, 1)), popts=OPQ, vopts=0)
        out.append(self.finish(s, 3, [("d", f, po, E) for f in "xjb" for po in opts], "anyopt-data"))
        # operations
        kind = "nry"[i % 3]
        s = Script()
        s.ctx()
        s.mod(self.ANYOPT_YANG)
        setup = 2
        if kind == "n":
            s.add("parseop", "c0", "t0", "x", "n", hexs('<ev%s><n>1</n><data>%s</data></ev>' % (ns, self.any_content(rng))))
        elif kind == "r":
            s.add("parseop", "c0", "t0", "x", "r", hexs('<op%s><i>1</i><in>%s</in></op>' % (ns, self.any_content(rng))))
        else:
            s.add("parseop", "c0", "t5", "x", "r", hexs('<op%s/>' % ns))
            setup += 1
            s.add("parseop", "c0", "t0", "x", "y", hexs('<o%s>1</o><out%s>%s</out>' % (ns, ns, self.any_content(rng))), "t5#0")
        setup += 1
        checks = [(kind, f, po, E) for f in "xjb" for po in (0, PRINT_SHRINK, WD_ALL, PRINT_KEEPEMPTY) if not (kind == "y" and f == "b")]
        out.append(self.finish(s, setup, checks, "anyopt-" + kind))
        return out

    # ---- C ---------------------------------------------------------------------------------------
    def api_case(self, rng, xml):
        s = Script()
        s.ctx()
        s.mod(FIXED_YANG)
        s.add("newpath", "t0", "c0", 0, hexs("/m1:c/known"), hexs("kv"))
        # model of the tree: [name, children]; DFS index = position in pre-order; c = 0, known = 1
        tree = [["c", [["known", []]]]]

        def index_of(path):
            cnt = [0]
            def walk(nodes, p):
                for k, n in enumerate(nodes):
                    if p == [k]:
                        return cnt[0]
                    cnt[0] += 1
                    r = walk(n[1], p[1:]) if p and p[0] == k else (skip(n[1]) or None)
                    if r is not None:
                        return r
                return None
            def skip(nodes):
                for n in nodes:
                    cnt[0] += 1
                    skip(n[1])
            return walk(tree, path)

        opaq_paths = []          # (path, is_leaf, module id known?)
        exp = "E"
        n_ops = rng.randrange(3, 9)
        setup = 3
        used = {}                # id(sibling list) -> set of (name, namespace / module) already there
        for _ in range(n_ops):
            # parent: top level, the container c, or an opaque node created before that has no value
            cands = [None, [0]] + [p for p, leaf, _ in opaq_paths if not leaf]
            par = rng.choice(cands)
            sibs = tree if par is None else self.node_at(tree, par)[1]
            with_attr = rng.random() < 0.3
            # JSON attributes: on a node with children they are printed inside the object; on a value node the parser
            # does not take the @member of an unknown member for metadata (listed finding json-opaq-unknown-meta): attributes go
            # on nodes that get a child
            leaf = (rng.random() < 0.6) and not (with_attr and not xml)
            val = xval(rng) if leaf else ""
            # (the XML parser keeps equally named opaque siblings of one namespace together as list instances, and the JSON
            # printer writes them as one array: a name is used once per namespace / module among siblings)
            for _try in range(20):
                nm = rng.choice(ONAMES)
                q = rng.choice(ONS + ["urn:verif:m1"]) if xml else rng.choice(["unk", "other", "m1"])
                if (nm, q) not in used.setdefault(id(sibs), set()) and not (q in ("urn:verif:m1", "m1") and nm in ("known", "n", "l", "d")):
                    break
            else:
                continue
            used[id(sibs)].add((nm, q))
            target = "t0" if par is None else "t0#%d" % index_of(par)
            if xml:
                s.add("xopaq2", target, "c0", nm, hexs(val) if val else "-", rng.choice(["~", "p", "q"]), hexs(q))
            else:
                s.add("xopaq", target, "c0", nm, hexs(val) if val else "-", "~", q)
            setup += 1
            sibs.append([nm, []])
            path = ([len(tree) - 1] if par is None else par + [len(sibs) - 1])
            opaq_paths.append((path, leaf, None))
            if with_attr:
                idx = index_of(path)
                if xml:
                    if rng.random() < 0.5:
                        s.add("xattr2", "t0#%d" % idx, hexs("urn:at"), "p:" + rng.choice(["x", "note"]), hexs(xval(rng) or "v"))
                    else:
                        s.add("xattr2", "t0#%d" % idx, "~", rng.choice(["plain", "x"]), hexs(xval(rng) or "v"))
                else:
                    s.add("xopaq", "t0#%d" % idx, "c0", "ch", hexs("v"), "~", q)
                    setup += 1
                    self.node_at(tree, path)[1].append(["ch", []])
                    # an attribute of the node's own module (printed without the module name before 9a1019b: former
                    # finding json-opaq-attr-unqualified) or of another one
                    am = q if rng.random() < 0.5 else rng.choice([x for x in ("m1", "other", "unk") if x != q])
                    s.add("xattr", "t0#%d" % idx, am, rng.choice(["note", "at"]), hexs(xval(rng) or "v"))
                setup += 1
        fm = "x" if xml else "j"
        checks = [("d", fm, SIB | PRINT_SHRINK, exp), ("d", fm, SIB, exp), ("d", "b", SIB, exp)]
        return self.finish(s, setup, checks, "opaq-api-" + fm)

    @staticmethod
    def node_at(tree, path):
        n = tree[path[0]]
        for k in path[1:]:
            n = n[1][k]
        return n

    # ---- D ---------------------------------------------------------------------------------------
    def any_case(self, rng, i):
        s = Script()
        s.ctx()
        s.mod(FIXED_YANG)
        setup = 2
        E = "E"
        kind = ["t", "s", "x", "tp", "t", "s"][i % 6]
        where = rng.choice(["top", "cont", "list"])
        inner = rng.choice(['<top xmlns="urn:verif:m1">%s</top>' % yanggen.xml_text(xval(rng) or "i"),
                            '<c xmlns="urn:verif:m1"><known>k</known><l><k>a</k><v>%s</v></l><l><k>b</k></l></c><top xmlns="urn:verif:m1">t</top>'
                            % yanggen.xml_text(xval(rng)),
                            '<c xmlns="urn:verif:m1"><d><s>x</s></d></c>'])
        if kind == "tp":
            # anydata content parsed from a document
            nm = "ad"
            s.parse(0, "x", '<top xmlns="urn:verif:m1">a</top><%s xmlns="urn:verif:m1">%s</%s>' % (nm, inner, nm), popts=OPQ, vopts=0)
            setup += 1
            checks = [("d", "x", SIB | PRINT_SHRINK, E), ("d", "x", SIB, E), ("d", "b", SIB, E),
                      ("d", "j", SIB | PRINT_SHRINK, E), ("d", "j", SIB, E)]
            return self.finish(s, setup, checks, "any-parsed")
        if where == "top":
            target, name = "t0", rng.choice(["ad", "ax"]) if kind == "t" else "ax"
        elif where == "cont":
            s.add("newpath", "t0", "c0", 0, hexs("/m1:c/known"), hexs("kv"))
            setup += 1
            target, name = "t0#0", rng.choice(["cad", "cax"]) if kind == "t" else "cax"
        else:
            s.add("newpath", "t0", "c0", 0, hexs("/m1:c/l[k='a']/v"), hexs("vv"))
            setup += 1
            target, name = "t0#1", "lad"
            if kind != "t":
                kind = "t"
        if kind == "t":
            s.add("xany", target, "c0", "m1", name, "t", hexs(inner))
            checks = [("d", "x", SIB | PRINT_SHRINK, E), ("d", "x", SIB, E), ("d", "b", SIB, E),
                      ("d", "j", SIB | PRINT_SHRINK, E), ("d", "j", SIB, E)]
        elif kind == "s":
            s.add("xany", target, "c0", "m1", name, "s", hexs(xval(rng) or "str"))
            checks = [("d", "x", SIB | PRINT_SHRINK, E), ("d", "x", SIB, E), ("d", "j", SIB | PRINT_SHRINK, E), ("d", "j", SIB, E),
                      ("d", "b", SIB, E)]
        else:
            s.add("xany", target, "c0", "m1", name, "x", hexs('<e xmlns="urn:e" a="1"><f>%s</f><f/></e><g xmlns="urn:g"/>' % yanggen.xml_text(xval(rng))))
            checks = [("d", "x", SIB | PRINT_SHRINK, E), ("d", "x", SIB, E), ("d", "b", SIB, E)]
        setup += 1
        return self.finish(s, setup, checks, "any-" + kind)

    # ---- E ---------------------------------------------------------------------------------------
    def op_cases(self, rng, i):
        m = op_module(rng)
        ig = yanggen.InstGen(rng, meta_prob=0.15)
        (rn, rin, rout), (nn, nnodes) = m.rpcs[0], m.notifs[0]
        an, ain, aout = m.act
        nnn, nnnodes = m.nnotif
        E = "E"
        out = []

        def wrap_x(inner, top):
            if top:
                return inner
            return '<opc xmlns="urn:verif:m1"><opl><id>i%d</id>%s</opl></opc>' % (i, inner)

        def wrap_j(name, obj, top):
            import json
            if top:
                return json.dumps({"m1:" + name: obj}, ensure_ascii=False)
            return json.dumps({"m1:opc": {"opl": [{"id": "i%d" % i, name: obj}]}}, ensure_ascii=False)

        def one(kind, name, nodes, top, reply_of=None):
            f = ig.children_of(nodes)
            s = Script()
            s.ctx()
            s.mod(m.yang())
            setup = 2
            ns = ' xmlns="urn:verif:m1"' if top else ""
            if kind == "y":
                # the request first (input may be empty), then the reply into its operation node
                req = wrap_x("<%s%s/>" % (name, ns), top)
                s.add("parseop", "c0", "t5", "x", "r", hexs(req))
                setup += 1
                opidx = 0 if top else 3
                body = yanggen.to_xml(f, None)
                s.add("parseop", "c0", "t0", "x", "y", hexs(body) if body else "-", "t5#%d" % opidx)
                setup += 1
            elif i % 2:
                s.add("parseop", "c0", "t0", "x", kind, hexs(wrap_x("<%s%s>%s</%s>" % (name, ns, yanggen.to_xml(f, m), name), top)))
                setup += 1
            else:
                s.add("parseop", "c0", "t0", "j", kind, hexs(wrap_j(name, yanggen.to_json_obj(f, m), top)))
                setup += 1
            checks = [(kind, "x", PRINT_SHRINK, E), (kind, "x", 0, E), (kind, "j", PRINT_SHRINK, E)]
            if kind != "y":
                checks.append((kind, "b", 0, E))        # (the content of a reply cannot be printed as LYB on its own)
            return self.finish(s, setup, checks, "op-" + kind + ("" if top else "-nested"))

        k = i % 6
        if k == 0:
            out.append(one("r", rn, rin, True))
        elif k == 1:
            out.append(one("n", nn, nnodes, True))
        elif k == 2:
            out.append(one("r", an, ain, False))
        elif k == 3:
            out.append(one("n", nnn, nnnodes, False))
        elif k == 4:
            out.append(one("y", rn, rout, True))
        else:
            out.append(one("y", an, aout, False))
        return out

    # ---- F ---------------------------------------------------------------------------------------
    def big_case(self, rng, ln, depth):
        s = Script()
        s.ctx()
        s.mod(FIXED_YANG)
        path, after = [("/m1:s", "/m1:t"), ("/m1:c/d/s", "/m1:c/d/t"), ("/m1:c/d/dl[k='1']/big", "/m1:c/d/dl[k='1']/after"),
                       ("/m1:c/d/dl[k='2']/big", "/m1:top")][depth]
        s.add("xbig", "t0", "c0", hexs(path), ln, 97 + depth)
        s.add("newpath", "t0", "c0", 0, hexs(after), hexs("z"))
        setup = 4
        if depth == 3:
            s.add("newpath", "t0", "c0", 0, hexs("/m1:c/d/dl[k='1']/after"), hexs("y"))
            setup += 1
        # no dumps of 64 KiB values: return code, lyd_compare_siblings and the metadata comparison only
        cmds = ["#x big %d db/%d/C" % (setup, SIB)] + s.cmds + ["count t0", "xrt t0 t2 b %d %d 0" % (SIB, OPQ), "xcmp t0 t2", "count t2"]
        return "doc\t" + "\t".join(cmds)

    # ---- judge -----------------------------------------------------------------------------------
    def judge(self, line, out):
        if crashed(out):
            return (None, "crash: " + out)
        r = results(out)
        hdr = line.split("\t")[1].split(" ")
        family, nsetup, spec = hdr[1], int(hdr[2]), hdr[3].split(";")
        r = r[1:]                                     # the header's ?cmd
        if rc(r[0]) != 0 or rc(r[1]) != 0:
            return None                               # context / module rejected: not a case for this oracle
        for x in r[:nsetup]:
            if rc(x) != 0:
                self.skipped = getattr(self, "skipped", 0) + 1
                return None
        base = r[nsetup]
        k = nsetup + 1
        for sp in spec:
            kf, po, exp = sp.split("/")
            rt, cmp_, dmp = r[k], r[k + 1], r[k + 2]
            k += 3
            what = "%s: %s print opts %s" % (family, kf, po)
            ok = (rc(rt) == 0 and cmp_ == "0:0" and (exp == "C" or dmp == base))
            if ok:
                continue
            tag = None
            # the one listed finding left (not of this slice), recognised by its narrow signature; the seven findings of the
            # JSON / XML printers this oracle used to list are fixed (known_findings.d/doc.json) and fail like anything else
            if kf[1] == "b" and rt.startswith("P"):
                tag = "lyb-hash-collision"            # the LYB printer gives up on colliding sibling hashes (as in RoundTrip)
            # (the former finding json-nested-any-module-lost is fixed by 58cec3d: a plain violation)
            if rc(rt) != 0:
                return (tag, "print / parse back failed (%s): %s" % (what, rt))
            if exp != "C" and dmp != base:
                return (tag, "re-parsed tree differs (%s, dump): %s" % (what, diff_hint(base, dmp)))
            return (tag, "re-parsed tree differs (%s): compare:metadata = %s" % (what, cmp_))
        return None


def diff_hint(a, b):
    x, y = a.split(";"), b.split(";")
    for i, (p, q) in enumerate(zip(x, y)):
        if p != q:
            return "entry %d: %s -> %s" % (i, p[:160], q[:160])
    return "%d entries -> %d entries" % (len(x), len(y))


class RoundTripMeta(oracles.RoundTrip):
    """oracles.RoundTrip with metadata on about every third node (list and leaf-list instances, containers, leaves),
    user-ordered and state (duplicate-instance) lists in every module"""
    name = "roundtripmeta"

    def gen(self, rng, tier, scale=1.0):
        L = []
        for i in range(self.n(tier, 120, 1500, scale)):
            m, ig = gen_case(rng, meta_prob=0.35, userord=True, state=True)
            emptyize(m, rng)
            ig.max_inst = 5
            if i % 2:
                ig.edp = 0.0
            f = ig.forest(m)
            s = Script()
            s.ctx(searchdir=TEST_MODULES)
            s.mod(m.yang())
            s.load("ietf-netconf-with-defaults")
            s.parse(0, "x", yanggen.to_xml(f))
            s.parse(1, "j", yanggen.to_json(f))
            s.add("nexpldflt", "t0")
            s.dump(0)
            s.dump(1)
            for k, (fmt, po, exact) in enumerate(self.COMBOS):
                s.add("rt", "t0", "t2", fmt, po, PARSE_STRICT, VAL_PRESENT)
                s.add("cmp", "t0", "t2", oracles.CMP_FULL | (oracles.CMP_DEFAULTS if exact else 0))
                s.dump(2, 0 if exact else 2)
            s.dump(0, 2)
            L.append(s.line())
            self.cases[L[-1]] = f
        return L


class WellFormedX(Oracle):
    """C12 at the API level for the trees of RoundTripX (opaque nodes from XML / JSON / the API, anydata and anyxml,
    operations): what libyang prints as XML must be read by expat (namespace-aware, wrapped in one root element) and what
    it prints as JSON by Python's json module - readers that share no code with libyang."""
    name = "wellformedx"
    driver = "t_doc"

    def gen(self, rng, tier, scale=1.0):
        src = RoundTripX()
        L = []
        for line in src.gen(rng, tier, scale * 0.6):
            f = line.split("\t")
            hdr = f[1].split(" ")
            fam, nsetup = hdr[1], int(hdr[2])
            if fam == "big":
                continue
            cmds = f[2:2 + nsetup]
            po = 0 if fam.startswith("op-") else SIB
            node = "t0"
            # (opaque nodes of namespaces the context does not know cannot be named in JSON, but what is printed must still
            # be JSON: matching_node() ran into an assertion there before 2c539f8)
            fj = "j"
            L.append("doc\t#w %s %d %s\t" % (fam, nsetup, fj) +
                     "\t".join(cmds + ["print %s x %d" % (node, po | PRINT_SHRINK), "print %s x %d" % (node, po),
                                       "print %s %s %d" % (node, fj, po | PRINT_SHRINK), "print %s %s %d" % (node, fj, po)]))
        # size sweep: single print chunks (indentation + name, namespace declaration, raw any content) around the sizes 256,
        # 512, 1024 - element / member names, namespaces, anydata JSON / string values of these lengths, deep nesting
        sizes = [n for c in (256, 512, 1024) for n in range(c - 9, c + 6)]
        for n in sizes:
            for kind in ("name", "ns", "anyj", "anys"):
                s = Script()
                s.ctx()
                s.mod(FIXED_YANG)
                if kind == "name":
                    nm = "n" + "a" * (n - 1)
                    s.parse(0, "x", '<c xmlns="urn:verif:m1"><known>k</known><%s>v</%s><%s/></c><%s xmlns="urn:verif:m1"><x/></%s>'
                            % (nm, nm, nm + "b", nm, nm), popts=OPQ, vopts=0)
                elif kind == "ns":
                    s.parse(0, "x", '<e xmlns="urn:%s"><f>1</f></e><c xmlns="urn:verif:m1"><g xmlns="urn:%s"/></c>'
                            % ("x" * n, "y" * (n - 4)), popts=OPQ, vopts=0)
                elif kind == "anyj":
                    s.add("xany", "t0", "c0", "m1", "ax", "j", hexs('{"k":"%s"}' % ("z" * (n - 8))))
                else:
                    s.add("xany", "t0", "c0", "m1", "ad", "s", hexs("s" * n))
                L.append("doc\t#w size 3 j\t" +
                         "\t".join(s.cmds + ["print t0 x %d" % (SIB | PRINT_SHRINK), "print t0 x %d" % SIB,
                                             "print t0 j %d" % (SIB | PRINT_SHRINK), "print t0 j %d" % SIB]))
        for depth in (126, 130, 255, 258):
            s = Script()
            s.ctx()
            s.mod(FIXED_YANG)
            s.parse(0, "x", '<c xmlns="urn:verif:m1">' + "".join("<d%d>" % (k % 10) for k in range(depth)) + "v" +
                    "".join("</d%d>" % (k % 10) for k in reversed(range(depth))) + "</c>", popts=OPQ, vopts=0)
            L.append("doc\t#w size 3 j\t" +
                     "\t".join(s.cmds + ["print t0 x %d" % (SIB | PRINT_SHRINK), "print t0 x %d" % SIB,
                                         "print t0 j %d" % (SIB | PRINT_SHRINK), "print t0 j %d" % SIB]))
        # json-trim-leaflist-meta (f592167): trim mode drops an instance of a leaf-list that carries metadata
        for data in ('<ll xmlns="urn:verif:m1" xmlns:m1="urn:verif:m1" m1:note="N">-9</ll><ll xmlns="urn:verif:m1">-7</ll>'
                     '<c xmlns="urn:verif:m1"><x>a</x></c>',
                     '<ll xmlns="urn:verif:m1">-5</ll><ll xmlns="urn:verif:m1">16</ll>'
                     '<ll xmlns="urn:verif:m1" xmlns:m1="urn:verif:m1" m1:note="N">90</ll><c xmlns="urn:verif:m1"><x>a</x></c>'):
            s = Script()
            s.ctx()
            s.mod(TRIM_YANG)
            s.parse(0, "x", data, popts=PARSE_ONLY, vopts=0)
            po = SIB | WD_TRIM
            L.append("doc\t#w regress-trim 3 j\t" +
                     "\t".join(s.cmds + ["print t0 x %d" % (po | PRINT_SHRINK), "print t0 x %d" % po,
                                         "print t0 j %d" % (po | PRINT_SHRINK), "print t0 j %d" % po]))
        return L

    def judge(self, line, out):
        import json
        import xml.parsers.expat
        if crashed(out):
            return (None, "crash: " + out)
        r = results(out)[1:]
        hdr = line.split("\t")[1].split(" ")
        fam, nsetup = hdr[1], int(hdr[2])
        for x in r[:nsetup]:
            if rc(x) != 0:
                return None
        for k, fmt in ((0, "x"), (1, "x"), (2, hdr[3]), (3, hdr[3])):
            res = r[nsetup + k]
            if rc(res) != 0:
                return (None, "print failed (%s, %s): %s" % (fam, fmt, res))
            data = payload(res)
            if fmt == "x":
                try:
                    p = xml.parsers.expat.ParserCreate(namespace_separator=" ")
                    p.Parse(b"<root>" + data + b"</root>", True)
                except xml.parsers.expat.ExpatError as e:
                    return (None, "printed XML is not well-formed (%s): %s: %r" % (fam, e, data[:200]))
            else:
                try:
                    json.loads(data.decode("utf-8"))
                except (ValueError, UnicodeDecodeError) as e:
                    tag = None
                    import re
                    if fam == "opaq-xml" and isinstance(e, json.JSONDecodeError) and re.search(r'[\]}"el0-9],\s*"@[^"]*"\s*$', data.decode("utf-8")[:e.pos]):
                        # an "@name" member where an array element is expected: the attributes of a value instance among
                        # equally named opaque siblings that are printed as an array of objects and values
                        tag = "json-opaq-array-attr"
                    return (tag, "printed JSON is not RFC 8259 JSON (%s): %s: %r" % (fam, e, data.decode("utf-8", "replace")[max(0, getattr(e, "pos", 0) - 120):][:200]))
        return None


# ------------------------------------------------------------------------------------------------
# value types: every built-in type and the derived types with a dedicated plugin, in every role
# ------------------------------------------------------------------------------------------------
class TSpec:
    """one value type: its YANG text (valid in the modules ta and tb: references only pb:, inet:, yang:, nacm:), lexical
    sample values with pairwise different canonical forms (XML text; prefixes pa / pb / pc are declared on every top-level
    element), a default value, and whether it may be a list key"""

    def __init__(self, tid, ytype, vals, dflt=None, key=True, meta=True):
        self.tid, self.ytype, self.vals, self.dflt, self.key, self.meta = tid, ytype, vals, dflt, key, meta


TSPECS = [
    TSpec("int8", "int8", ["-128", "0", "127", "-1"], "-5"),
    TSpec("int16", "int16", ["-32768", "7", "32767"], "-300"),
    TSpec("int32", "int32", ["-2147483648", "0", "2147483647"], "70000"),
    TSpec("int64", "int64", ["-9223372036854775808", "42", "9223372036854775807"], "-5000000000"),
    TSpec("uint8", "uint8", ["0", "255", "17"], "200"),
    TSpec("uint16", "uint16", ["0", "65535", "300"], "40000"),
    TSpec("uint32", "uint32", ["0", "4294967295", "65536"], "3000000000"),
    TSpec("uint64", "uint64", ["0", "18446744073709551615", "9007199254740993"], "10000000000"),
    TSpec("dec64", "decimal64 { fraction-digits 2; }", ["-92233720368547758.08", "3.14", "0.5", "92233720368547758.07"], "2.5"),
    TSpec("dec64b", "decimal64 { fraction-digits 18; }", ["-9.223372036854775808", "0.000000000000000001", "1.5"], "0.1"),
    TSpec("string", "string", ["a b", "a<b&c>\"d", "it's", "é€", " lead", "x"], "dflt val"),
    TSpec("strpat", "string { length \"1..8\"; pattern '[a-z0-9]+'; }", ["abc", "a1", "zzzzzzzz"], "dd"),
    TSpec("boolean", "boolean", ["true", "false"], "true"),
    TSpec("enum", "pb:t-enum", ["zero", "one", "x-y.z", "two words"], "one"),
    TSpec("bits", "pb:t-bits", ["a", "a c", "b c d", "d"], "b"),
    TSpec("binary", "binary", ["YQ==", "AAEC/w==", "aGVsbG8gd29ybGQ=", "AA=="], "ZGY="),
    TSpec("binlen", "binary { length \"2..4\"; }", ["YWI=", "AAEC", "/////w=="], "ZGY="),
    TSpec("empty", "empty", [""], None, key=False),
    TSpec("ident", "identityref { base pb:b-base; }", ["pb:b-one", "pc:c-one", "pa:a-one", "pa:shared", "pb:shared", "pc:shared"], "pb:b-two"),
    TSpec("ip4", "inet:ipv4-address", ["192.168.0.1", "10.0.0.1%eth0", "255.255.255.255"], "127.0.0.1"),
    TSpec("ip4nz", "inet:ipv4-address-no-zone", ["192.168.0.1", "0.0.0.0", "10.20.30.40"], "127.0.0.1"),
    TSpec("ip6", "inet:ipv6-address", ["2001:DB8::1", "fe80::1%eth0", "::"], "::1"),
    TSpec("ip6nz", "inet:ipv6-address-no-zone", ["2001:db8::1", "::", "FF02::2"], "::1"),
    TSpec("ip4pfx", "inet:ipv4-prefix", ["10.1.2.3/8", "192.168.1.0/24", "0.0.0.0/0", "1.2.3.4/32"], "172.16.0.0/12"),
    TSpec("ip6pfx", "inet:ipv6-prefix", ["2001:db8:ffff::1/32", "::/0", "fe80::/10"], "2001:db8:1::/48"),
    TSpec("ipaddr", "inet:ip-address", ["192.168.0.1", "2001:db8::1", "10.0.0.1%eth0"], "::1"),
    TSpec("ipnz", "inet:ip-address-no-zone", ["192.168.0.1", "2001:db8::1"], "127.0.0.1"),
    TSpec("ippfx", "inet:ip-prefix", ["10.0.0.0/8", "2001:db8::/32"], "0.0.0.0/0"),
    TSpec("host", "inet:host", ["192.168.0.1", "example.com", "2001:db8::1"], "localhost"),
    TSpec("dt", "yang:date-and-time", ["2023-01-01T12:00:00Z", "2023-01-01T12:00:00.123+02:00", "1999-12-31T23:59:59-05:00"],
          "2000-01-01T00:00:00Z"),
    TSpec("hex", "yang:hex-string", ["01:AB:cd", "ff", "00:00"], "0a"),
    TSpec("mac", "yang:mac-address", ["00:1B:44:11:3A:b7", "ff:ff:ff:ff:ff:ff"], "00:00:00:00:00:00"),
    TSpec("phys", "yang:phys-address", ["00:1b", "AA:bb:cc:dd:ee:ff:00:11"], "00"),
    TSpec("uuid", "yang:uuid", ["F81D4FAE-7DEC-11D0-A765-00A0C91E6BF6", "00000000-0000-0000-0000-000000000000"],
          "12345678-1234-1234-1234-123456789abc"),
    TSpec("xpath", "yang:xpath1.0", ["/pa:g-string/pa:v[. = 'x']", "count(/pb:nothing) + 1", "1 div 2"], "1 + 1"),
    TSpec("nii", "nacm:node-instance-identifier", ["/pa:g-uint8/pa:l[pa:k='5']/pa:x", "/pa:g-string"], None),
    TSpec("iid", "instance-identifier { require-instance false; }", None, None),
    TSpec("unionfv", "union { type uint8; type boolean; type string; }", ["200", "true", "text", "300"], "7"),
    TSpec("unionir", "union { type identityref { base pb:b-base; } type instance-identifier { require-instance false; } type int32; }",
          ["pb:b-one", "/pa:g-int8/pa:v", "-7", "pc:shared"], "pb:b-two"),
]

TYPES_TB = """module tb { yang-version 1.1; namespace "urn:verif:tb"; prefix pb;
  import ietf-yang-metadata { prefix md; }
  import ietf-inet-types { prefix inet; }
  import ietf-yang-types { prefix yang; }
  import ietf-netconf-acm { prefix nacm; }
  identity b-base;
  identity b-one { base b-base; }
  identity b-two { base b-base; }
  identity shared { base b-base; }
  typedef t-enum { type enumeration { enum zero; enum one { value 7; } enum x-y.z; enum "two words"; } }
  typedef t-bits { type bits { bit a; bit b { position 5; } bit c { position 40; } bit d; } }
%s}
"""
TYPES_TC = """module tc { yang-version 1.1; namespace "urn:verif:tc"; prefix pc;
  import tb { prefix pb; }
  identity c-one { base pb:b-base; }
  identity shared { base pb:b-base; }
}
"""
TYPES_TA = """module ta { yang-version 1.1; namespace "urn:verif:ta"; prefix pa;
  import ietf-yang-metadata { prefix md; }
  import ietf-inet-types { prefix inet; }
  import ietf-yang-types { prefix yang; }
  import ietf-netconf-acm { prefix nacm; }
  import tb { prefix pb; }
  import tc { prefix pc; }
  identity a-one { base pb:b-base; }
  identity shared { base pb:b-base; }
%s}
"""
TYPES_NS = ' xmlns="urn:verif:ta" xmlns:pa="urn:verif:ta" xmlns:pb="urn:verif:tb" xmlns:pc="urn:verif:tc"'


def types_modules(own=("pa", "pb", "pc")):
    """the module family (own = the modules' own prefixes, which may legally coincide: the import prefixes pb / pc and the
    prefixes declared in the instance documents stay): tb (base identity, typedefs, one annotation an-<t> of every type and anu-<t> = union of it and
    string), tc (identities), ta (annotations own-<t>, and per type a container g-<t>: leaf, leaf with default, leaf-list,
    list keyed by it, leafrefs to the leaf / the leafref / the leaf-list / the key, a list keyed by a leafref, unions with
    it as fixed / variable size member, a union of leafref + identityref + instance-identifier, a union leaf with default)"""
    ann_b, ann_a, groups = [], [], []
    T = lambda s: "type %s" % s.ytype if s.ytype.rstrip().endswith("}") else "type %s;" % s.ytype
    for s in TSPECS:
        if s.meta:
            ann_b.append("  md:annotation an-%s { %s }\n" % (s.tid, T(s)))
            ann_b.append("  md:annotation anu-%s { type union { %s type string; } }\n" % (s.tid, T(s)))
            ann_a.append("  md:annotation own-%s { %s }\n" % (s.tid, T(s)))
        g = "  container g-%s {\n    leaf v { %s }\n" % (s.tid, T(s))
        if s.dflt is not None:
            g += "    leaf d { %s default \"%s\"; }\n" % (T(s), s.dflt)
        g += "    leaf-list ll { %s }\n" % T(s)
        if s.key:
            g += "    list l { key k; leaf k { %s } leaf x { type string; } }\n" % T(s)
            g += "    leaf rk { type leafref { path \"../l/k\"; } }\n"
        g += "    leaf r { type leafref { path \"../v\"; } }\n"
        g += "    leaf rr { type leafref { path \"../r\"; } }\n"
        g += "    leaf-list rl { type leafref { path \"../ll\"; } }\n"
        g += "    list lr { key k; leaf k { type leafref { path \"../../ll\"; } } leaf x { type string; } }\n"
        if s.dflt is not None:
            g += "    leaf rd { type leafref { path \"../v\"; require-instance false; } default \"%s\"; }\n" % s.dflt
            g += "    leaf ud { type union { %s type string; } default \"%s\"; }\n" % (T(s), s.dflt)
        g += "    leaf u1 { type union { %s type string; } }\n" % T(s)
        g += "    leaf u2 { type union { type uint8; %s type string; } }\n" % T(s)
        g += ("    leaf u3 { type union { type leafref { path \"../v\"; } type identityref { base pb:b-base; } "
              "type instance-identifier { require-instance false; } } }\n")
        g += "  }\n"
        groups.append(g)
    tb, tc, ta = TYPES_TB % "".join(ann_b), TYPES_TC, TYPES_TA % ("".join(ann_a) + "".join(groups))
    if own != ("pa", "pb", "pc"):
        ta = ta.replace("prefix pa;", "prefix %s;" % own[0], 1)
        tb = tb.replace("pb:", own[1] + ":").replace("prefix pb;", "prefix %s;" % own[1], 1)
        tc = tc.replace("prefix pc;", "prefix %s;" % own[2], 1)
    return tb, tc, ta


def _q(v):
    """an XPath literal for v"""
    return "'%s'" % v if "'" not in v else '"%s"' % v


class RoundTripTypes(Oracle):
    """C01 at the API level for VALUE TYPES: a module family (three modules, three prefixes) in which every built-in type and
    every derived inet / yang / nacm type with a dedicated plugin occurs as leaf, list key, leaf-list, leafref target and
    leafref (chains, leafref keys), union member (with fixed-size and variable-size members; a union of leafref,
    identityref and instance-identifier), metadata annotation type (annotation module = node module and another one;
    union-typed annotations), and default value; identityref values of three modules; instance-identifiers pointing at list
    instances with keys of these types. A valid instance (XML) is parsed with validation and parse-only; each tree is
    printed and parsed back as XML, JSON and LYB (explicit, report-all, report-all-tagged, trim; shrunk and formatted) and
    through the chain XML -> JSON -> LYB -> XML; the result must be the same tree: dump with canonical values, default
    flags and metadata, lyd_compare_siblings(FULL_RECURSION | DEFAULTS), metadata comparison of every node pair."""
    name = "roundtriptypes"
    driver = "t_doc"

    def values(self, s, present):
        if s.tid != "iid":
            return list(s.vals)
        out = ["/pa:g-string/pa:v", "/pa:g-uint8/pa:l[pa:k='9']/pa:x", "/pa:g-enum/pa:ll[.='zero']"]
        for tid, keys, lls in present:
            for k in keys[:2]:
                out.append("/pa:g-%s/pa:l[pa:k=%s]" % (tid, _q(k)))
            for v in lls[:1]:
                out.append("/pa:g-%s/pa:ll[.=%s]" % (tid, _q(v)))
        return sorted(set(out), key=out.index)

    def group_xml(self, rng, s, vals):
        A = yanggen.xml_attr
        X = yanggen.xml_text
        present = {"keys": [], "ll": []}

        def metas(p=0.3):
            out, used = "", set()
            for _ in range(3):
                if rng.random() < p:
                    ms = rng.choice([m for m in TSPECS if m.meta])
                    mv = self.values(ms, []) if ms.tid == "iid" else ms.vals
                    kind = rng.choice(["pb:an-", "pb:anu-", "pa:own-"])
                    nm = kind + ms.tid
                    if nm in used:
                        continue
                    used.add(nm)
                    v = rng.choice(mv + (["free text"] if kind == "pb:anu-" else []))
                    out += ' %s="%s"' % (nm, A(v))
            return out

        def el(name, v, m=""):
            return "<%s%s>%s</%s>" % (name, m, X(v), name) if v != "" else "<%s%s/>" % (name, m)

        body = ""
        v = rng.choice(vals) if rng.random() < 0.8 else None
        if v is not None:
            body += el("v", v, metas())
        if s.dflt is not None and rng.random() < 0.4:
            body += el("d", rng.choice([s.dflt] + vals))       # (no metadata: trim mode drops the node when it holds the default)
        ll = rng.sample(vals, rng.randrange(0, len(vals) + 1))
        for x in ll:
            body += el("ll", x, metas(0.25))
        keys = []
        if s.key:
            keys = rng.sample(vals, rng.randrange(0, min(len(vals), 3) + 1))
            for k in keys:
                body += "<l%s>%s%s</l>" % (metas(0.25), el("k", k), el("x", "row") if rng.random() < 0.5 else "")
            if keys and rng.random() < 0.6:
                body += el("rk", rng.choice(keys))
        r = None
        if v is not None and rng.random() < 0.7:
            r = v
            body += el("r", v, metas(0.15))
        if r is not None and rng.random() < 0.6:
            body += el("rr", r)
        for x in rng.sample(ll, rng.randrange(0, len(ll) + 1)):
            body += el("rl", x)
        for x in rng.sample(ll, rng.randrange(0, min(len(ll), 2) + 1)):
            body += "<lr>%s</lr>" % el("k", x)
        if s.dflt is not None:
            if rng.random() < 0.3:
                body += el("rd", rng.choice([s.dflt] + vals))
            if rng.random() < 0.3:
                body += el("ud", rng.choice([s.dflt, "other text"] + vals))
        if rng.random() < 0.6:
            body += el("u1", rng.choice(vals + ["free text"]), metas(0.15))
        if rng.random() < 0.6:
            body += el("u2", rng.choice(vals + ["200", "free text"]))
        if rng.random() < 0.6:
            # (an identity of the node's own module is printed without prefix / module name, legally; where the leafref
            # target accepts a bare name as value the re-parsed union would resolve to the leafref member: not generated)
            own = [] if s.tid in ("string", "host", "xpath", "unionfv", "nii", "uuid") else ["pa:a-one"]
            body += el("u3", rng.choice(([v] if v is not None else []) + ["pb:b-one", "pc:shared", "/pa:g-%s/pa:v" % s.tid] + own))
        present["keys"], present["ll"] = keys, ll
        if not body:
            body = el("v", vals[0])              # (an empty non-presence container is a default node and is not printed)
        # (metadata on the container only when trim mode keeps it: it is not printed when all it holds are default values)
        keeps = v is not None or ll or keys
        return "<g-%s%s%s>%s</g-%s>" % (s.tid, TYPES_NS, metas(0.2) if keeps else "", body, s.tid), present

    V = PARSE_STRICT
    CHECKS = [  # (source tree, format, print options, parse options, validation options, mode E exact / F default flags aside)
        (0, "x", SIB | PRINT_SHRINK, PARSE_STRICT, VAL_PRESENT, "E"), (0, "x", SIB, PARSE_STRICT, VAL_PRESENT, "E"),
        (0, "j", SIB | PRINT_SHRINK, PARSE_STRICT, VAL_PRESENT, "E"), (0, "j", SIB, PARSE_STRICT, VAL_PRESENT, "E"),
        (0, "b", SIB, PARSE_STRICT, VAL_PRESENT, "E"),
        (0, "x", SIB | PRINT_SHRINK | WD_IMPL_TAG, PARSE_STRICT, VAL_PRESENT, "E"),
        (0, "j", SIB | PRINT_SHRINK | WD_IMPL_TAG, PARSE_STRICT, VAL_PRESENT, "E"),
        # (report-all-tagged also tags explicit nodes that hold the default value: flags aside)
        (0, "x", SIB | PRINT_SHRINK | WD_ALL_TAG, PARSE_STRICT, VAL_PRESENT, "F"),
        (0, "j", SIB | PRINT_SHRINK | WD_ALL_TAG, PARSE_STRICT, VAL_PRESENT, "F"),
        (0, "x", SIB | PRINT_SHRINK | WD_ALL, PARSE_STRICT, VAL_PRESENT, "F"), (0, "j", SIB | PRINT_SHRINK | WD_ALL, PARSE_STRICT, VAL_PRESENT, "F"),
        (0, "b", SIB | WD_ALL, PARSE_STRICT, VAL_PRESENT, "E"),
        (0, "x", SIB | PRINT_SHRINK | WD_TRIM, PARSE_STRICT, VAL_PRESENT, "F"), (0, "j", SIB | PRINT_SHRINK | WD_TRIM, PARSE_STRICT, VAL_PRESENT, "F"),
        (1, "x", SIB | PRINT_SHRINK, PARSE_ONLY | PARSE_STRICT, 0, "E"), (1, "j", SIB | PRINT_SHRINK, PARSE_ONLY | PARSE_STRICT, 0, "E"),
        (1, "j", SIB, PARSE_ONLY | PARSE_STRICT, 0, "E"), (1, "b", SIB, PARSE_ONLY | PARSE_STRICT, 0, "E"),
    ]

    def instance(self, rng, i):
        """(XML document, own prefixes of ta / tb / tc): the three modules legally share ONE prefix (the printers must not
        rely on module prefixes being unique), or tb and tc do, or the REAL prefix of a module is one the printer generates
        for another one (p1, p2)"""
        own = [("pa", "pb", "pc"), ("p", "p", "p"), ("pa", "q", "q"), ("p1", "p", "p"), ("p", "p2", "p1")][i % 5]
        # every type is selected in turn, with a few random others; the instance-identifier group sees their instances
        chosen = [TSPECS[i % len(TSPECS)]] + rng.sample(TSPECS, rng.randrange(2, 6))
        seen, groups = set(), []
        for s in chosen:
            if s.tid not in seen and s.tid != "iid":
                seen.add(s.tid)
                groups.append(s)
        parts, present = [], []
        for s in groups:
            x, p = self.group_xml(rng, s, list(s.vals))
            parts.append((s, x))
            present.append((s.tid, p["keys"], p["ll"]))
        iid = [s for s in TSPECS if s.tid == "iid"][0]
        x, _ = self.group_xml(rng, iid, self.values(iid, present))
        parts.append((iid, x))
        parts.sort(key=lambda p: [t.tid for t in TSPECS].index(p[0].tid))
        return "".join(x for _, x in parts), own

    def gen(self, rng, tier, scale=1.0):
        mods = {}
        L = []
        n = self.n(tier, 150, 2500, scale)
        for i in range(n):
            data, own = self.instance(rng, i)
            if own not in mods:
                mods[own] = types_modules(own)
            tb, tc, ta = mods[own]
            s = Script()
            s.ctx(searchdir=TEST_MODULES)
            s.mod(tb)
            s.mod(tc)
            s.mod(ta)
            s.load("ietf-netconf-with-defaults")
            s.parse(0, "x", data, popts=PARSE_STRICT, vopts=VAL_PRESENT)
            s.parse(1, "x", data, popts=PARSE_ONLY | PARSE_STRICT, vopts=0)
            s.add("xdump", "t0")
            s.add("xdump", "t1")
            spec = []
            for src, fmt, po, pp, vo, mode in self.CHECKS:
                s.add("xrt", "t%d" % src, "t2", fmt, po, pp, vo)
                s.add("xcmp", "t%d" % src, "t2")
                s.add("xdump", "t2")
                spec.append("%d%s/%d/%s" % (src, fmt, po, mode))
            # the chain XML -> tree -> JSON -> tree -> LYB -> tree -> XML -> tree, validated and parse-only
            for src, pp, vo in ((0, PARSE_STRICT, VAL_PRESENT), (1, PARSE_ONLY | PARSE_STRICT, 0)):
                s.add("xrt", "t%d" % src, "t3", "j", SIB | PRINT_SHRINK, pp, vo)
                s.add("xrt", "t3", "t4", "b", SIB, pp, vo)
                s.add("xrt", "t4", "t2", "x", SIB | PRINT_SHRINK, pp, vo)
                s.add("xcmp", "t%d" % src, "t2")
                s.add("xdump", "t2")
                spec.append("%dc/0/C" % src)
            L.append("doc\t#y types 7 %s %s\t" % (";".join(spec), ",".join(own)) + "\t".join(s.cmds))
        return L

    @staticmethod
    def noflags(dump):
        import re
        return re.sub(r"(:(?:=[0-9a-f-]*|i)):d", r"\1:", dump)

    def judge(self, line, out):
        if crashed(out):
            return (None, "crash: " + out)
        r = results(out)[1:]
        hdr = line.split("\t")[1].split(" ")
        nsetup, spec = int(hdr[2]), hdr[3].split(";")
        for x in r[:nsetup]:
            if rc(x) != 0:
                # the instance is valid by construction: a rejection is counted (check.py reports many of them as a failure)
                self.skipped = getattr(self, "skipped", 0) + 1
                self.last_reject = x
                return None
        base = [r[nsetup], r[nsetup + 1]]
        k = nsetup + 2
        for sp in spec:
            kf, po, mode = sp.split("/")
            src = int(kf[0])
            if mode == "C":
                rts, cmp_, dmp = r[k:k + 3], r[k + 3], r[k + 4]
                k += 5
                what = "types: chain JSON -> LYB -> XML from the %s tree" % ("validated" if src == 0 else "parse-only")
                bad = [x for x in rts if rc(x) != 0]
                rt = bad[0] if bad else "0"
            else:
                rt, cmp_, dmp = r[k], r[k + 1], r[k + 2]
                k += 3
                what = "types: %s tree, format %s, print opts %s" % ("validated" if src == 0 else "parse-only", kf[1], po)
            if mode == "F":
                ok = rc(rt) == 0 and cmp_.endswith(":0") and self.noflags(dmp) == self.noflags(base[src])
            else:
                ok = rc(rt) == 0 and cmp_ == "0:0" and dmp == base[src]
            if ok:
                continue
            tag = None
            own = hdr[4].split(",")
            if len(set(own)) < 3 and (kf[1] in "xc"):
                # listed finding of the XML printer where modules share a prefix (values are printed with the modules' own
                # prefixes): a prefix needed for two namespaces in one start tag - only where the input document has such an
                # element (the former finding xml-value-ns-redeclared is fixed by e9b7253)
                data = [unhex(c.split(" ")[6]) for c in line.split("\t") if c.startswith("parse ")][0]
                tag = "xml-same-prefix-value-clash" if types_clash_paths(data, own) else None
            # (the former finding lyb-union-member-reresolved - the LYB printer re-resolved the member type of a union value
            # without validation - is fixed by affc70d: a recurrence is a plain violation)
            if rc(rt) != 0:
                return (tag, "print / parse back failed (%s): %s" % (what, rt))
            a, b = (self.noflags(base[src]), self.noflags(dmp)) if mode == "F" else (base[src], dmp)
            if a != b:
                return (tag, "re-parsed tree differs (%s, dump): %s" % (what, diff_hint(a, b)))
            return (tag, "re-parsed tree differs (%s): compare:metadata = %s" % (what, cmp_))
        return None


# ------------------------------------------------------------------------------------------------
# C12 for prefixed values: what an independent namespace-aware reader understands
# ------------------------------------------------------------------------------------------------
QN_TIDS = ("ident", "iid", "xpath", "nii", "unionir")
TYPES_URI = {"pa": "urn:verif:ta", "pb": "urn:verif:tb", "pc": "urn:verif:tc"}
TYPES_MODNS = {"ta": "urn:verif:ta", "tb": "urn:verif:tb", "tc": "urn:verif:tc"}


def _qn_norm(v):
    """(string literals - key values in instance-identifier predicates - are canonicalised by the library: not compared)"""
    import re
    return re.sub(r"\s+", "", re.sub(r"'[^']*'|\"[^\"]*\"", "''", v))


def xml_qnames(data, wrap=True):
    """expat, namespace-aware: for every element / attribute of the types family that holds a prefixed value (identityref,
    instance-identifier, xpath1.0, node-instance-identifier, unions of them; the leaf u3) the namespaces its prefixes stand
    for IN THE SCOPE OF THE ELEMENT. Result: Counter of (path, '' or attribute name, value without prefixes, namespaces)"""
    import collections
    import re
    import xml.parsers.expat
    out = collections.Counter()
    tok = re.compile(r"(?<![\w.:-])([A-Za-z_][\w.-]*):(?=[A-Za-z_*])")
    scopes = [{}]
    pending = {}
    stack = []          # (local name, namespace, text parts, qname-typed?, attrs)

    def resolve(v, scope, dflt):
        if re.fullmatch(r"[A-Za-z_][\w.-]*", v):
            return (dflt,)
        res = []
        for m in tok.finditer(re.sub(r"'[^']*'|\"[^\"]*\"", "''", v)):       # (not inside string literals)
            if m.group(1) not in scope:
                raise ValueError("prefix %r of the value %r is not declared in the scope" % (m.group(1), v))
            res.append(scope[m.group(1)])
        return tuple(res)

    def start_ns(prefix, uri):
        pending[prefix] = uri

    def start(name, attrs):
        scope = dict(scopes[-1])
        scope.update(pending)
        pending.clear()
        scopes.append(scope)
        ns, _, local = name.rpartition(" ")
        group = ([e[0][2:] for e in stack if e[0].startswith("g-")] + [local[2:] if local.startswith("g-") else ""])[0]
        path = tuple(s[0] for s in stack) + (local,)
        typed = bool(group) and not local.startswith("g-") and (local == "u3" or (group in QN_TIDS and local in ("v", "d", "ll", "k", "r", "rr", "rl", "rk", "rd", "ud", "u1", "u2")))
        stack.append([local, ns, [], typed, path])
        for an, av in attrs.items():
            ans, _, alocal = an.rpartition(" ")
            if alocal.split("-", 1)[0] in ("an", "anu", "own"):
                out[(path, alocal, "@namespace", (ans,))] += 1          # the annotation itself
            if alocal.split("-", 1)[-1] in QN_TIDS and alocal.split("-", 1)[0] in ("an", "anu", "own"):
                out[(path, alocal, _qn_norm(tok.sub("", av)), resolve(av, scope, None))] += 1

    def chars(d):
        if stack:
            stack[-1][2].append(d)

    def end(name):
        local, ns, parts, typed, path = stack.pop()
        scope = scopes.pop()
        v = "".join(parts)
        if typed and local == "u3" and not (v.startswith("/") or re.fullmatch(r"([A-Za-z_][\w.-]*:)?(a-one|b-one|b-two|c-one|shared)", v)):
            typed = False                   # the union holds a value of the leafref's target type
        if typed:
            out[(path, "", _qn_norm(tok.sub("", v)), resolve(v, scope, ns))] += 1

    p = xml.parsers.expat.ParserCreate(namespace_separator=" ")
    p.StartNamespaceDeclHandler, p.StartElementHandler, p.EndElementHandler, p.CharacterDataHandler = start_ns, start, end, chars
    p.buffer_text = True
    p.Parse((b"<root>" + data + b"</root>") if wrap else data, True)
    if wrap:
        out = collections.Counter({(k[0][1:], k[1], k[2], k[3]): n for k, n in out.items()})
    return out


def types_clash_paths(data, own):
    """the elements of an instance document of the types family whose start tag needs ONE prefix for TWO namespaces: the
    prefixes in values are the modules' own prefixes (fixed), so the value of the node and the values of its metadata must
    not refer to two modules that share their prefix (listed finding xml-same-prefix-value-clash)"""
    import re
    import xml.parsers.expat
    ownof = dict(zip(("urn:verif:ta", "urn:verif:tb", "urn:verif:tc"), own))
    tok = re.compile(r"(?<![\w.:-])(pa|pb|pc):(?=[A-Za-z_*])")
    res = set()
    stack = []

    def start(name, attrs):
        stack.append([name, [], [av for an, av in attrs.items() if ":" in an and an.split(":")[1].split("-", 1)[-1] in QN_TIDS]])

    def chars(d):
        stack[-1][1].append(d)

    def end(name):
        name, parts, avs = stack.pop()
        group = ([e[0][2:] for e in stack if e[0].startswith("g-")] + [""])[0]
        vals = list(avs)
        if name == "u3" or (group in QN_TIDS and name in ("v", "d", "ll", "k", "r", "rr", "rl", "rk", "rd", "ud", "u1", "u2")):
            vals.append("".join(parts))
        mods = set(TYPES_URI[m] for v in vals for m in tok.findall(v))
        if len(set(ownof[m] for m in mods)) < len(mods):
            res.add(tuple(e[0] for e in stack[1:]) + (name,))

    p = xml.parsers.expat.ParserCreate()
    p.StartElementHandler, p.EndElementHandler, p.CharacterDataHandler = start, end, chars
    p.buffer_text = True
    p.Parse(b"<root>" + data + b"</root>", True)
    return res


def json_qnames(text):
    """Python json: the identityref-like values (a single name, possibly module-qualified) of the same elements and
    metadata, with the module each stands for per RFC 7951 / 7952 (unqualified: the module of the data node; metadata values
    must be qualified); module names in other prefixed values must be known"""
    import collections
    import json
    import re
    out = collections.Counter()
    doc = json.loads(text)
    ident = re.compile(r"(?:([A-Za-z_][\w.-]*):)?([A-Za-z_][\w.-]*)")
    tok = re.compile(r"(?<![\w.:-])([A-Za-z_][\w.-]*):(?=[A-Za-z_*])")

    def value(path, kind, v, meta):
        if not isinstance(v, str):
            return
        m = ident.fullmatch(v)
        if m:
            if m.group(1):
                if m.group(1) not in TYPES_MODNS:
                    raise ValueError("module %r of the value %r is unknown" % (m.group(1), v))
                ns = TYPES_MODNS[m.group(1)]
            elif meta:
                raise ValueError("metadata value %r of %s is not module-qualified" % (v, kind))
            else:
                ns = TYPES_MODNS["ta"]
            out[(path, kind, m.group(2), (ns,))] += 1
        else:
            for t in tok.finditer(re.sub(r"'[^']*'|\"[^\"]*\"", "''", v)):
                if t.group(1) not in TYPES_MODNS:
                    raise ValueError("module %r in the value %r is unknown" % (t.group(1), v))

    def metas(path, obj):
        if isinstance(obj, dict):
            for k, v in obj.items():
                local = k.split(":", 1)[-1]
                if local.split("-", 1)[-1] in QN_TIDS and local.split("-", 1)[0] in ("an", "anu", "own"):
                    value(path, local, v, True)

    def walk(path, obj, group):
        for k, v in obj.items():
            if k == "@":
                metas(path, v)
                continue
            local = k.split(":", 1)[-1]
            if k.startswith("@"):
                local = local if ":" in k else k[1:]
                for x in (v if isinstance(v, list) else [v]):
                    metas(path + (local,), x)
                continue
            g = group or (local[2:] if local.startswith("g-") else "")
            typed = bool(path) and (local == "u3" or (g in QN_TIDS and local in ("v", "d", "ll", "k", "r", "rr", "rl", "rk", "rd", "ud", "u1", "u2")))
            for x in (v if isinstance(v, list) and not (len(v) == 1 and v[0] is None) else [v]):
                if isinstance(x, dict):
                    walk(path + (local,), x, g)
                elif typed and not (local == "u3" and isinstance(x, str) and not re.fullmatch(r"([A-Za-z_][\w.-]*:)?(a-one|b-one|b-two|c-one|shared)", x)):
                    value(path + (local,), "", x, False)
    walk((), doc, "")
    return out


class QNamesX(Oracle):
    """C12 for values and metadata values that carry prefixes (identityref, instance-identifier, xpath1.0, unions of them) on
    the instances of RoundTripTypes - including module families in which two or three modules legally share one prefix:
    libyang's XML (shrunk, formatted, report-all) is read by expat with namespace processing and every prefix in such a
    value must be declared in the scope of its element and stand for the namespace it stands for in the input document
    (read by the same function); libyang's JSON is read by Python's json module, names must be qualified with the right
    module. Neither reader shares code with libyang."""
    name = "qnamesx"
    driver = "t_doc"
    PRINTS = [("x", SIB | PRINT_SHRINK, "="), ("x", SIB, "="), ("x", SIB | PRINT_SHRINK | WD_ALL, ">"), ("j", SIB | PRINT_SHRINK, "="), ("j", SIB, "=")]

    def gen(self, rng, tier, scale=1.0):
        src = RoundTripTypes()
        mods = {}
        L = []
        for i in range(self.n(tier, 150, 2000, scale)):
            data, own = src.instance(rng, i)
            if own not in mods:
                mods[own] = types_modules(own)
            tb, tc, ta = mods[own]
            s = Script()
            s.ctx(searchdir=TEST_MODULES)
            s.mod(tb)
            s.mod(tc)
            s.mod(ta)
            s.parse(0, "x", data, popts=PARSE_STRICT, vopts=VAL_PRESENT)
            for fmt, po, _ in self.PRINTS:
                s.add("print", "t0", fmt, po)
            L.append("doc\t#q types 5 %s\t" % ",".join(own) + "\t".join(s.cmds))
        return L

    def judge(self, line, out):
        import json
        import xml.parsers.expat
        if crashed(out):
            return (None, "crash: " + out)
        r = results(out)[1:]
        for x in r[:5]:
            if rc(x) != 0:
                self.skipped = getattr(self, "skipped", 0) + 1
                return None
        data = [unhex(c.split(" ")[6]) for c in line.split("\t") if c.startswith("parse ")][0]
        own = line.split("\t")[1].split(" ")[3]
        import re
        want = xml_qnames(data)
        clash = types_clash_paths(data, own.split(","))
        wantj = None
        known = None
        for k, (fmt, po, rel) in enumerate(self.PRINTS):
            res = r[5 + k]
            what = "types family, own prefixes %s, format %s, print opts %d" % (own, fmt, po)
            if rc(res) != 0:
                return (None, "print failed (%s): %s" % (what, res))
            doc = payload(res)
            if fmt == "x":
                try:
                    got = xml_qnames(doc)
                except xml.parsers.expat.ExpatError as e:
                    # listed finding xml-same-prefix-value-clash: modules sharing a prefix, a start tag whose values need that
                    # prefix for two namespaces defines it twice - only where the INPUT document has such an element. (The
                    # former finding xml-value-ns-redeclared, the same namespace defined twice for metadata and value, is
                    # fixed by e9b7253: a plain violation.)
                    tag = None
                    if "duplicate attribute" in str(e) and clash:
                        off = sum(len(ln) + 1 for ln in doc.split(b"\n")[:e.lineno - 1]) + e.offset
                        a = doc.rfind(b"<", 0, doc.find(b">", off))
                        decl = re.findall(rb'\sxmlns:([^=\s]+)="([^"]*)"', doc[a:doc.find(b">", a) + 1])
                        if len(set(decl)) != len(set(d[0] for d in decl)):
                            tag = "xml-same-prefix-value-clash"
                    return (tag, "printed XML is not well-formed (%s): %s: %r" % (what, e, doc[max(0, e.offset - 150):e.offset + 60] if e.lineno == 1 else doc[:300]))
                except ValueError as e:
                    return (None, "printed XML (%s): %s" % (what, e))
                if (got != want) if rel == "=" else any(got[key] < n for key, n in want.items()):
                    d = [(key, n, got.get(key, 0)) for key, n in want.items() if got.get(key, 0) != n] or \
                        [(key, 0, n) for key, n in got.items() if key not in want]
                    if d[0][0][0] in clash:
                        return ("xml-same-prefix-value-clash", "a value that needs one prefix for two namespaces (modules sharing a "
                                "prefix) means something else to a namespace-aware reader (%s): %r" % (what, d[0][0]))
                    return (None, "a prefixed value in the printed XML means something else to a namespace-aware reader (%s): "
                                  "(path, attribute, value, namespaces) expected x%d, found x%d: %r" % (what, d[0][1], d[0][2], d[0][0]))
            else:
                try:
                    gotj = json_qnames(doc.decode("utf-8"))
                except (UnicodeDecodeError, json.JSONDecodeError) as e:
                    return (None, "printed JSON is not RFC 8259 JSON (%s): %s" % (what, e))
                except ValueError as e:
                    return (None, "printed JSON (%s): %s" % (what, e))
                # the expectation for identityref-like values comes from the input document too
                if wantj is None:
                    wantj = {}
                    for (path, kind, val, nss), n in want.items():
                        if len(nss) == 1 and val != "@namespace" and re.fullmatch(r"[A-Za-z_][\w.-]*", val):
                            wantj[(path, kind, val, nss)] = n
                bare = lambda key: key[0][-1:] == ("u3",) and key[3] == (TYPES_MODNS["ta"],)
                gj = {key: n for key, n in gotj.items() if not bare(key)}
                wantj = {key: n for key, n in wantj.items() if not bare(key)}
                if gj != wantj:
                    d = [(key, n, gj.get(key, 0)) for key, n in wantj.items() if gj.get(key, 0) != n] or \
                        [(key, 0, n) for key, n in gj.items() if key not in wantj]
                    return (None, "an identityref value in the printed JSON names another module (%s): (path, metadata, value, "
                                  "namespace) expected x%d, found x%d: %r" % (what, d[0][1], d[0][2], d[0][0]))
        return known


# ------------------------------------------------------------------------------------------------
# LYB schema hashes: sibling names that collide on the first collision ids
# ------------------------------------------------------------------------------------------------
class LybCollisionRT(RoundTripX):
    """C01 for LYB where schema-node hashes collide: modules built from the families of corpus/lyb_collisions.txt (sibling
    names whose lyb_generate_hash values are equal on the collision ids 0..d-1, d = 1..6, so that the later sibling is
    identified by a sequence of d + 1 hashes; d = 8: on every id, listed finding lyb-hash-collision) - the colliding names as
    top-level leaves, leaves in a container, containers, list key + leaf, leaf-list, inside a list instance; both schema
    orders; both nodes present, only the first, only the second. The tree (parsed from XML) is printed as LYB, XML and JSON and
    parsed back; dump, lyd_compare_siblings and metadata must agree with the original."""
    name = "lybcollisionrt"
    driver = "t_doc"

    @staticmethod
    def module(mod, a, b):
        lf = lambda n: "leaf %s { type string; }" % n
        return ('module %s { yang-version 1.1; namespace "urn:verif:%s"; prefix p;\n'
                '  %s %s leaf zz-other { type string; }\n'
                '  container in-cont { %s %s leaf other { type string; } }\n'
                '  container as-cont { container %s { leaf x { type string; } } container %s { leaf x { type string; } leaf y { type string; } } }\n'
                '  list as-key { key "%s"; %s %s leaf-list other { type string; } }\n'
                '  list in-list { key "id"; leaf id { type uint8; } leaf-list %s { type string; } %s }\n'
                '}\n') % (mod, mod, lf(a), lf(b), lf(a), lf(b), a, b, a, lf(a), lf(b), a, lf(b))

    @staticmethod
    def data(mod, a, b, ha, hb):
        ns = ' xmlns="urn:verif:%s"' % mod
        el = lambda n, v, x="": "<%s%s>%s</%s>" % (n, x, v, n)
        out = ""
        if ha:
            out += el(a, "top-a", ns)
        if hb:
            out += el(b, "top-b", ns)
        out += el("in-cont", (el(a, "va") if ha else "") + (el(b, "vb") if hb else "") + el("other", "o"), ns)
        out += el("as-cont", (el(a, el("x", "ax")) if ha else "") + (el(b, el("x", "bx") + el("y", "by")) if hb else ""), ns)
        out += el("as-key", el(a, "key1") + (el(b, "b1") if hb else "") + el("other", "o1"), ns)
        out += el("as-key", el(a, "key2") + (el(b, "b2") if hb and ha else ""), ns)
        out += el("in-list", el("id", "1") + (el(a, "l1") + el(a, "l2") if ha else "") + (el(b, "lb") if hb else ""), ns)
        out += el("in-list", el("id", "2") + (el(b, "lb2") if hb else "") + (el(a, "l3") if ha else ""), ns)
        return out

    def gen(self, rng, tier, scale=1.0):
        from props import comps_lyb
        E = "E"
        L = []
        fams = comps_lyb.load_collision_families()
        for mod, depth, names in fams:
            if tier != "thorough" and (depth < 3 or depth == 8) and rng.random() < 0.6:
                continue
            pairs = [(names[0], names[1]), (names[1], names[0])]
            if len(names) > 2:
                pairs.append((names[-1], names[0]))
            for a, b in pairs:
                for ha, hb in ((1, 1), (0, 1), (1, 0)):
                    s = Script()
                    s.ctx()
                    s.mod(self.module(mod, a, b))
                    s.parse(0, "x", self.data(mod, a, b, ha, hb), popts=OPQ, vopts=0)
                    L.append(self.finish(s, 3, [("d", "b", SIB, E), ("d", "x", SIB | PRINT_SHRINK, E), ("d", "j", SIB | PRINT_SHRINK, E)],
                                         "lybcol-%d" % depth))
        return L


# ------------------------------------------------------------------------------------------------
# printing ONE node (an instance of a list / leaf-list / opaque array)
# ------------------------------------------------------------------------------------------------
SINGLE_YANG = """module m1 { yang-version 1.1; namespace "urn:verif:m1"; prefix m1;
  import ietf-yang-metadata { prefix md; }
  md:annotation note { type string; }
  list l { key "k1 k2"; leaf k1 { type string; } leaf k2 { type string; } leaf v { type string; } }
  list ul { key k; ordered-by user; leaf k { type string; } leaf v { type string; } }
  list sl { config false; leaf v { type string; } }
  leaf-list ll { type int8; }
  leaf-list ull { type int8; ordered-by user; }
  leaf top { type string; }
  container c {
    list l { key "k1 k2"; leaf k1 { type string; } leaf k2 { type string; } leaf v { type string; } }
    leaf-list ll { type int8; }
    leaf-list ull { type int8; ordered-by user; }
    leaf in { type string; }
  }
}"""


class SingleNodeX(Oracle):
    """C12 / C01 for lyd_print_mem() of ONE node: every node of trees that hold runs of list and leaf-list instances (system-
    and user-ordered, keyless state lists), instances that became opaque nodes (list instance without a key, leaf-list value
    of the wrong type; parsed with LYD_PARSE_OPAQ), unknown elements repeated as opaque arrays, metadata on some instances -
    the first, middle and last instance of each run - is printed alone and with LYD_PRINT_WITHSIBLINGS, as JSON (shrunk,
    formatted) and XML. Every output must be read by Python json / expat; the output for a top-level node printed alone
    must parse back (LYD_PARSE_OPAQ) to exactly that node: dump, lyd_compare_single, metadata."""
    name = "singlenodex"
    driver = "t_doc"
    PRINTS = [("j", PRINT_SHRINK), ("j", 0), ("x", PRINT_SHRINK), ("j", PRINT_SHRINK | SIB), ("x", PRINT_SHRINK | SIB), ("j", PRINT_KEEPEMPTY)]

    def run(self, rng, inner):
        """a run of sibling elements (XML text, element count)"""
        out, n = "", 0
        meta = lambda: ' xmlns:m1="urn:verif:m1" m1:note="%s"' % rng.choice(["n", "two words"]) if rng.random() < 0.25 else ""
        kinds = ["l", "ul", "ll", "ull", "unk"] + ([] if inner else ["sl"])
        for kind in rng.sample(kinds, rng.randrange(1, len(kinds) + 1)):
            for i in range(rng.randrange(1, 5)):
                bad = rng.random() < 0.35
                if kind in ("l", "ul"):
                    keys = ("<k1>a%d</k1>" % i + ("" if bad else "<k2>b</k2>")) if kind == "l" else ("" if bad else "<k>k%d</k>" % i)
                    v = "<v>v%d</v>" % i if (rng.random() < 0.6 or not keys) else ""
                    out += "<%s%s>%s%s</%s>" % (kind, meta() if not bad else "", keys, v, kind)
                    n += 1 + keys.count("</k") + (1 if v else 0)
                elif kind == "sl":
                    out += "<sl><v>s%d</v></sl>" % i
                    n += 2
                elif kind == "unk":
                    ch = rng.random() < 0.4
                    out += "<unk>%s</unk>" % ("<x>1</x>" if ch else "u%d" % i)
                    n += 2 if ch else 1
                else:
                    out += "<%s%s>%s</%s>" % (kind, meta() if not bad else "", "x%d" % i if bad else str(i * 7 - 5), kind)
                    n += 1
        return out, n

    def gen(self, rng, tier, scale=1.0):
        L = []
        for i in range(self.n(tier, 120, 1500, scale)):
            top, n1 = self.run(rng, False)
            inner, n2 = self.run(rng, True)
            ns = ' xmlns="urn:verif:m1"'
            data = re_sub_first(top, ns) + ("<c%s>%s<in>i</in></c>" % (ns, inner) if i % 3 else "") + "<top%s>t</top>" % ns
            n = n1 + 1 + ((n2 + 2) if i % 3 else 0)
            s = Script()
            s.ctx()
            s.mod(SINGLE_YANG)
            s.parse(0, "x", data, popts=OPQ, vopts=0)
            s.add("count", "t0")
            for k in range(n):
                node = "t0#%d" % k
                s.add("xdump1", node)
                for fmt, po in self.PRINTS:
                    s.add("print", node, fmt, po)
                for fmt in "jx":
                    s.add("xrt1", node, "t2", fmt, PRINT_SHRINK, OPQ, 0)
                    s.add("xcmp1", node, "t2")
                    s.add("xdump", "t2")
            L.append("doc\t#s single 3 %d\t" % n + "\t".join(s.cmds))
        return L

    def judge(self, line, out):
        import json
        import xml.parsers.expat
        if crashed(out):
            # (the former finding print-json-single-list-instance-open-array is fixed by 6dea40e: nothing is excused): a JSON array opened for an opaque instance that is printed alone is
            # never closed, assert(!pctx.open.count)
            return (None, "crash: " + out[:200])
        r = results(out)[1:]
        n = int(line.split("\t")[1].split(" ")[3])
        for x in r[:3]:
            if rc(x) != 0:
                self.skipped = getattr(self, "skipped", 0) + 1
                return None
        if r[3].split(" ")[-1] != str(n) and r[3] != str(n):
            return (None, "generator: %s nodes expected, the tree has %s" % (n, r[3]))
        k = 4
        per = 1 + len(self.PRINTS) + 6
        for idx in range(n):
            blk = r[k:k + per]
            k += per
            d1 = blk[0]
            top = d1.startswith("0:")
            what = "node #%d %s" % (idx, d1[:60])
            for (fmt, po), res in zip(self.PRINTS, blk[1:1 + len(self.PRINTS)]):
                if rc(res) != 0:
                    return (None, "printing one node failed (%s, %s opts %d): %s" % (what, fmt, po, res))
                doc = payload(res)
                try:
                    if fmt == "j":
                        json.loads(doc.decode("utf-8"))
                    else:
                        p = xml.parsers.expat.ParserCreate(namespace_separator=" ")
                        p.Parse(b"<root>" + doc + b"</root>", True)
                except (ValueError, UnicodeDecodeError, xml.parsers.expat.ExpatError) as e:
                    return (None, "one node printed as %s (opts %d) is not well-formed (%s): %s: %r" % (fmt, po, what, e, doc[:200]))
            if not top:
                continue
            for j, fmt in enumerate("jx"):
                if fmt == "j" and ("?" in [e.split(":")[1][:1] for e in d1.split(";") if e.count(":") > 1]):
                    # (an opaque node parsed from XML may carry no list / leaf-list hint: alone it is printed as a plain member,
                    # which the JSON parser refuses for the name of a list: subtrees with opaque nodes are not judged here)
                    continue
                rt, cmp_, dmp = blk[1 + len(self.PRINTS) + 3 * j:4 + len(self.PRINTS) + 3 * j]
                if rc(rt) != 0:
                    return (None, "the output for one top-level node does not parse back (%s, %s): %s" % (what, fmt, rt))
                if dmp != d1 or cmp_ != "0:0:1":
                    return (None, "the output for one top-level node parses back to something else (%s, %s): compare:metadata:"
                                  "nodes = %s, %s -> %s" % (what, fmt, cmp_, d1[:120], dmp[:120]))
        return None


def re_sub_first(xml, ns):
    """the namespace on every top-level element of a run"""
    import re
    depth, out, pos = 0, [], 0
    for m in re.finditer(r"<(/?)([A-Za-z][\w.-]*)([^>]*)>", xml):
        out.append(xml[pos:m.start()])
        pos = m.end()
        if m.group(1):
            depth -= 1
            out.append(m.group(0))
        else:
            out.append("<%s%s%s>" % (m.group(2), ns if depth == 0 else "", m.group(3)))
            depth += 1
    out.append(xml[pos:])
    return "".join(out)


# ------------------------------------------------------------------------------------------------
# the order of the metadata of a node, with-defaults default attribute included
# ------------------------------------------------------------------------------------------------
class MetaOrderX(Oracle):
    """C01 for the ORDER of metadata in the input: the same instance with the attributes of every node in a canonical order
    (ietf-netconf-with-defaults default="true" first, as libyang prints it) and in a random permutation - the default
    attribute in the 2nd, 3rd ... position among other annotations - as XML and as JSON (metadata objects / leaf-list
    metadata arrays), parsed only and with validation: all trees must be the same (values, default flags, every metadata in
    the order given)."""
    name = "metaorderx"
    driver = "t_doc"
    YANG = """module m1 { yang-version 1.1; namespace "urn:verif:m1"; prefix m1;
  import ietf-yang-metadata { prefix md; }
  md:annotation note { type string; } md:annotation tag { type uint8; } md:annotation flag { type boolean; }
  leaf l { type string; default "d"; }
  leaf-list ll { type string; default "d"; default "e"; }
  container c { leaf x { type uint8; default 7; } leaf y { type string; } list li { key k; leaf k { type string; } leaf v { type string; default "d"; } } }
}"""
    WDNS = "urn:ietf:params:xml:ns:yang:ietf-netconf-with-defaults"

    def gen(self, rng, tier, scale=1.0):
        import json
        L = []
        for i in range(self.n(tier, 60, 800, scale)):
            def metas(dflt):
                ms = [(k, v) for k, v in (("note", "n%d" % rng.randrange(9)), ("tag", rng.randrange(200)), ("flag", rng.random() < 0.5)) if rng.random() < 0.6]
                return ([("default", True)] if dflt else []) + ms

            nodes = [("l", "d", metas(rng.random() < 0.7)), ("x", 7, metas(rng.random() < 0.7)), ("v", "d", metas(rng.random() < 0.7)),
                     ("ll0", "d", metas(True)), ("ll1", "e", metas(True)), ("y", "yy", metas(False))]
            docs = []
            for perm in (False, True):
                m = {}
                for name, val, ms in nodes:
                    ms = list(ms)
                    if perm and len(ms) > 1:
                        first = ms[0]
                        while ms[0] == first and ms[0][0] == "default":
                            rng.shuffle(ms)
                    m[name] = ms

                def xa(name):
                    return "".join(' %s:%s="%s"' % ("wd" if k == "default" else "m1", k, str(v).lower() if isinstance(v, bool) else v) for k, v in m[name])

                def jm(name):
                    return {("ietf-netconf-with-defaults:" if k == "default" else "m1:") + k: v for k, v in m[name]}
                ns = ' xmlns="urn:verif:m1" xmlns:m1="urn:verif:m1" xmlns:wd="%s"' % self.WDNS
                x = ('<l%s%s>d</l><ll%s%s>d</ll><ll%s%s>e</ll><c%s><x%s>7</x><y%s>yy</y><li><k>a</k><v%s>d</v></li></c>'
                     % (ns, xa("l"), ns, xa("ll0"), ns, xa("ll1"), ns, xa("x"), xa("y"), xa("v")))
                j = {"m1:l": "d", "@m1:l": jm("l"), "m1:ll": ["d", "e"], "@m1:ll": [jm("ll0"), jm("ll1")],
                     "m1:c": {"x": 7, "@x": jm("x"), "y": "yy", "@y": jm("y"), "li": [{"k": "a", "v": "d", "@v": jm("v")}]}}
                # (no empty metadata objects)
                prune = lambda o: {k: (prune(v) if isinstance(v, dict) and not k.startswith("@") else
                                       [prune(e) if isinstance(e, dict) else e for e in v] if isinstance(v, list) and not k.startswith("@") else v)
                                   for k, v in o.items() if not (k.startswith("@") and v == {})}
                j = prune(j)
                docs.append((x, json.dumps(j)))
            for popts, vopts in ((PARSE_ONLY | PARSE_STRICT, 0), (PARSE_STRICT, VAL_PRESENT)):
                s = Script()
                s.ctx(searchdir=TEST_MODULES)
                s.mod(self.YANG)
                s.load("ietf-netconf-with-defaults")
                for k, (fmt, data) in enumerate((("x", docs[0][0]), ("x", docs[1][0]), ("j", docs[0][1]), ("j", docs[1][1]))):
                    s.parse(k, fmt, data, popts=popts, vopts=vopts)
                for k in range(4):
                    s.add("xdump", "t%d" % k)
                L.append("doc\t#m metaorder\t" + "\t".join(s.cmds))
        return L

    def judge(self, line, out):
        if crashed(out):
            # (the former finding xml-wd-default-attr-not-first is fixed by e9866d8: nothing is excused)
            return (None, "crash: " + out[:200])
        r = results(out)[1:]
        if any(rc(x) != 0 for x in r[:3]):
            self.skipped = getattr(self, "skipped", 0) + 1
            return None
        for k, x in enumerate(r[3:7]):
            if rc(x) != 0:
                return (None, "a valid instance is refused (%s, attributes %s): %s" % ("xxjj"[k], ("canonical", "permuted")[k % 2], x))
        d = r[7:11]
        strip = lambda dump: ";".join(e.split(":@")[0] + ":@" + ":@".join(sorted(e.split(":@")[1:])) if ":@" in e else e for e in dump.split(";"))
        for k in (1, 2, 3):
            if strip(d[k]) != strip(d[0]):
                return (None, "the same instance with %s attributes in %s parses to another tree: %s" %
                        (("canonical", "permuted")[k % 2], "xxjj"[k], diff_hint(strip(d[0]), strip(d[k]))))
        return None


# ------------------------------------------------------------------------------------------------
# T2 for XmlQn.v: the namespace definitions and attribute prefixes of single start tags
# ------------------------------------------------------------------------------------------------
class QnTagModel(Comp):
    """xml_print_node_open / xml_print_meta / xml_print_ns for prefixed values vs XmlQn.open_tag: a container of the types
    family (RoundTripTypes / QNamesX: own prefixes distinct, shared, or equal to a generated one) with metadata and one leaf
    (identityref, instance-identifier, union, plain) with metadata - annotation values identityref / instance-identifier /
    plain - is printed by libyang; what stands in the two start tags after the element name (namespace definitions,
    metadata attributes with their prefixes and values) must be BYTE-IDENTICAL to the model's, the container's definitions
    being the scope of the leaf. Cases in which one prefix is needed for two namespaces (listed finding
    xml-same-prefix-value-clash) are included: the model is the printer as coded."""
    name = "qntag"
    driver = "t_doc"
    slice = "xmlqn"
    NSOF = {"pa": "urn:verif:ta", "pb": "urn:verif:tb", "pc": "urn:verif:tc"}

    @staticmethod
    def pieces(own, text, node_value):
        """(XML text for the input, model pieces) of a value given with the input prefixes pa / pb / pc; in the value of a
        node an identity of the node's module ta is printed without prefix"""
        import re
        h = lambda b: hexs(b.encode())
        ownof = dict(zip(("pa", "pb", "pc"), own))
        out, pos = [], 0
        bare = node_value and re.fullmatch(r"pa:[\w.-]+", text)
        for m in re.finditer(r"(?<![\w.:-])(pa|pb|pc):", text):
            if m.start() > pos:
                out.append("L" + h(text[pos:m.start()]))
            if not bare:
                out.append("R%s.%s" % (h(ownof[m.group(1)]), h(QnTagModel.NSOF[m.group(1)])))
            pos = m.end()
        if pos < len(text):
            out.append("L" + h(text[pos:]))
        return "+".join(out)

    def gen(self, rng, tier, scale=1.0):
        h = lambda b: hexs(b.encode())
        mods = {}
        L = []
        idents = ["pb:b-one", "pc:c-one", "pa:a-one", "pb:shared", "pc:shared", "pa:shared"]
        iids = ["/pa:g-uint8/pa:v", "/pa:g-string/pa:v", "/pa:g-ident/pa:l[pa:k='pb:b-one']/pa:x"]
        pool = [("pb", "an-uint8", ["5", "17"]), ("pa", "own-uint8", ["7"]), ("pb", "an-string", ["a b", "x"]), ("pb", "an-ident", idents),
                ("pa", "own-ident", idents), ("pb", "anu-ident", idents + ["free text"]), ("pb", "an-iid", iids), ("pa", "own-iid", iids),
                ("pb", "an-unionir", ["pb:b-one", "-7", "/pa:g-int8/pa:v"])]
        leaves = [("ident", "v", idents), ("ident", "u1", idents), ("iid", "v", iids), ("uint8", "v", ["5"]), ("uint8", "u3", ["pb:b-one", "pc:shared"]),
                  ("unionir", "v", ["pb:b-one", "pc:shared", "-7", "/pa:g-int8/pa:v"]), ("string", "v", ["plain"])]
        owns = [("pa", "pb", "pc"), ("p", "p", "p"), ("pa", "q", "q"), ("p1", "p", "p"), ("p", "p2", "p1"), ("p", "pb", "p")]
        for i in range(self.n(tier, 180, 6000, scale)):
            own = owns[i % len(owns)]
            if own not in mods:
                mods[own] = types_modules(own)
            tb, tc, ta = mods[own]
            tid, leaf, vals = rng.choice(leaves)
            val = rng.choice(vals)

            def metas(k):
                out, used = [], set()
                for _ in range(k):
                    pfx, nm, mv = rng.choice(pool)
                    if nm in used:
                        continue
                    used.add(nm)
                    out.append((pfx, nm, rng.choice(mv)))
                return out
            m0, m1 = metas(rng.choice([0, 0, 1, 2])), metas(rng.choice([0, 1, 2, 3]))
            xa = lambda ms: "".join(' %s:%s="%s"' % (p, nm, yanggen.xml_attr(v)) for p, nm, v in ms)
            data = "<g-%s%s%s><%s%s>%s</%s></g-%s>" % (tid, TYPES_NS, xa(m0), leaf, xa(m1), yanggen.xml_text(val), leaf, tid)
            enc = lambda ms: ",".join("%s.%s.%s.%s" % (h(dict(zip(("pa", "pb", "pc"), own))[p]), h(self.NSOF[p]), h(nm), self.pieces(own, v, False))
                                      for p, nm, v in ms)
            q = "%s/%s/;%s/%s/%s" % (h(self.NSOF["pa"]), enc(m0), h(self.NSOF["pa"]), enc(m1), self.pieces(own, val, True))
            s = Script()
            s.ctx(searchdir=TEST_MODULES)
            s.mod(tb)
            s.mod(tc)
            s.mod(ta)
            s.parse(0, "x", data, popts=PARSE_ONLY | PARSE_STRICT, vopts=0)
            s.add("print", "t0", "x", SIB | PRINT_SHRINK)
            L.append("qntag\t#q %s\t" % q + "\t".join(s.cmds))
        return L

    def norm(self, line, out):
        if " | end:" not in out:
            return out                        # the model's answer (or a crash)
        import re
        r = results(out)[1:]
        if any(rc(x) != 0 for x in r[:6]):
            return "impl-refused " + " ".join(r[:6])
        doc = payload(r[5])
        m = re.match(rb"<[^\s/>]+((?: [^>]*)?)>(?:<[^\s/>]+((?: [^>]*)?)>)?", doc)
        if not m:
            return "impl-unreadable " + hexs(doc)
        tags = []
        for g in (m.group(1), m.group(2)):
            g = g or b""
            tags.append(hexs(g[:-1] if g.endswith(b"/") else g))
        return " | ".join(tags)
