"""C13 - diffs can be reversed and composed"""
from props import comps_difftree, comps_uord, oracles

PID = "C13"
LEVEL = "proof"


def components():
    return [comps_uord.UDiff(), comps_difftree.DiffTree("C13")]


def oracles_():
    return [comps_difftree.KeepStream(), comps_uord.UordReverseOracle(), oracles.DiffRev(), oracles.DiffUordRev(), comps_difftree.DiffTreeLaws("C13"), comps_difftree.FixedRegress("C13"), comps_difftree.FixedRegress("C13", "t_c14x"), comps_difftree.DiffKinds("C13"), comps_difftree.DiffMergeOpts(), comps_difftree.UordMoveChange()]


MANIFEST = {
    "text": "Coq theorems (Properties_C13_uord.v) about the faithful model of lyd_diff_reverse_all on user-ordered lists: the full "
            "statement is refuted with witnesses (reverse_apply_userord_refuted*, every reversed diff containing a delete fails), "
            "the provable fragment is proved (no delete, at most one move: reverse_apply_userord_partial). Tie: extracted model vs "
            "the real reverse+apply (T2). Reversal/merge/merge-undo for leaves, containers, choices and system-ordered lists at any "
            "depth are checked by the API oracle on generated triples (search); user-ordered reversal is a listed known finding. "
            "TREE level, everything that is not user-ordered (Properties_C13_difftree.v, closed): C13_reverse_apply (for all well-formed "
            "A,B reverse(diff(A,B)) succeeds and applied to B yields A exactly, flags included), C13_reverse_meaning (reversal exchanges "
            "the roles of the trees for every diff that describes the change, whatever its sibling order), C13_reverse_involutive_refuted "
            "/ _partial (reverse twice loses the default flag of duplicated parents in the diff tree but keeps the meaning), "
            "C13_merge_apply_regression (the witness of the former finding merge-npcont-dflt, fixed in libyang by 2dd55cd and in the "
            "model with it: the merged diff now yields C exactly), C13_merge_undo (for all well-formed "
            "A,B (any schema; the data hold no user-ordered instance) merging diff(B,A) into diff(A,B) gives the EMPTY diff, both merge options) "
            "and its corollary C13_merge_apply_partial (the composition law for C = A), C13_merge_apply_partial_disjoint (the composition law "
            "when the two diffs touch different top-level instances) and C13_merge_apply_partial_mixed (the composition law for every C "
            "in which each top-level identity touched by both diffs is back at its state in A: the meeting roots cancel at any depth, "
            "the others are added / kept - partial rollback combined with independent changes; both earlier theorems are instances; "
            "missing: roots that meet without cancelling), C13_merge_apply_partial_cells (without LYD_DIFF_MERGE_DEFAULTS the meeting "
            "roots may also be leaves in the cells replace + replace, create + replace, delete + create: the met root is replaced in "
            "place by the merged one; missing: the other leaf cells, inner / list cells that do not cancel, cells below the top level). "
            "Tie: the extracted models of "
            "lyd_diff_reverse_all and lyd_diff_merge_all (whole merge table, redundancy removal, both merge options) must print the same "
            "reversed / merged diff trees and the same patched trees as libyang on generated triples built to hit every cell (T2 "
            "dtree-C13); the laws are also judged on the implementation by dump equality (difftree-laws-C13). Node kinds outside the model (oracle difftree-kinds-C13, driver t_c14x, dumps with anydata value type and content, metadata, opaque nodes): apply(reverse(diff(A,B)),B) = A and apply(merge(diff(A,B),diff(B,C)),A) = C on trees with anydata / anyxml values of every representation, metadata and opaque nodes; the known deviations (a reversed anydata value comes back as a string, metadata / opaque nodes are not carried) are computed exactly per case. Merge options (oracle difftree-mergeopts-C13): apply(merge(diff(A,B),diff(B,C)),A) = C by dump equality for both values of LYD_DIFF_MERGE_DEFAULTS on diffs made with LYD_DIFF_DEFAULTS, and for diffs made without it on triples without default nodes; leaves with own and with typedef defaults (no LYS_SET_DFLT) in the correspondence, law and kinds generators. User-ordered lists (oracle difftree-uord-movechange-C13): reversal of diffs in which one instance of a user-ordered keyed list (top level, in containers, in list entries) is moved or created AND changed inside (nested leaves, containers, leaf-lists, nested list entries, default leaves), both diff option settings, with controls; failures are attributed to uord-reverse only when the diff deletes a user-ordered instance or moves two instances of one list (also in diff-uord-reverse).",
    "note": "Modelled C: lyd_diff_reverse_all restricted to one user-ordered leaf-list. Tree level (slice difftree): lyd_diff_reverse_all (incl. lyd_diff_reverse_value/_default, "
            "the ignored error of lyd_diff_reverse_remove_op_r), lyd_diff_merge_r with lyd_diff_merge_none/_replace/_create/_delete, "
            "lyd_diff_is_redundant and the default-flag walks in the diff tree. The composition law (merge_apply) for arbitrary C has no general proof "
            "(proved for C = A); no counterexample is known since 2dd55cd, it is tied by T2 and checked by dump equality on the "
            "implementation for every generated triple. Fixed diff findings are kept as regression cases (difftree-regress-*).",
    "technique": "Coq proof/refutation on list-level model + differential correspondence + API metamorphic oracle",
}
