"""C13 - diffs can be reversed and composed"""
from props import comps_difftree, comps_uord, oracles

PID = "C13"
LEVEL = "proof"


def components():
    return [comps_uord.UDiff(), comps_difftree.DiffTree("C13")]


def oracles_():
    return [comps_difftree.KeepStream(), comps_uord.UordReverseOracle(), oracles.DiffRev(), oracles.DiffUordRev(), comps_difftree.DiffTreeLaws("C13"), comps_difftree.FixedRegress("C13"), comps_difftree.FixedRegress("C13", "t_c14x"), comps_difftree.DiffKinds("C13"), comps_difftree.DiffMergeOpts(), comps_difftree.UordMoveChange()]


MANIFEST = {
    "text": "LIST level (Properties_C13_uord.v; model DiffUserOrd of lyd_diff_reverse_all + lyd_diff_apply_all for ONE user-ordered "
            "leaf-list): the full statement (for duplicate-free l1, l2 the reversed diff applied to l2 gives l1) is REFUTED - "
            "C13_reverse_apply_userord_refuted with C13_reverse_wrong_order_witness (moves replayed in forward order), "
            "C13_reverse_apply_userord_refuted_error, C13_reverse_apply_userord_delete_fails (EVERY diff with a delete fails to "
            "apply after reversal) - and the fragment that holds is proved: no delete and at most one move "
            "(C13_reverse_apply_userord_partial), there *data is the first sibling of the restored list "
            "(C13_reverse_apply_userord_partial_pointer, since libyang a54f28a; the former refutation is the Example "
            "C13_reverse_first_sibling_regression); Example C13_userord_partial_example. Tie (T2 udiff, driver t_uord): extracted "
            "model vs the real reverse + apply. TREE level, everything that is not user-ordered (Properties_C13_difftree.v, closed "
            "under the global context; hypothesis wfb as in C06: modelled kinds only, no metadata, consistent default flags, "
            "canonical order; diffs made with LYD_DIFF_DEFAULTS): C13_reverse_apply (for all wfb A, B reverse(diff(A,B)) succeeds "
            "and applied to B yields A exactly, flags included); C13_reverse_meaning (reversal exchanges the roles of the trees for "
            "every diff that describes the change, whatever its sibling order); C13_reverse_involutive_refuted / "
            "C13_reverse_involutive_partial (reverse twice can lose the default flag of a duplicated parent in the diff TREE, but "
            "the twice-reversed diff applied to A still yields B); Examples C13_reverse_example, C13_merge_apply_regression "
            "(witness of the former finding merge-npcont-dflt, fixed in libyang by 2dd55cd and in the model with it); "
            "C13_merge_undo (for all wfb A, B over any schema merging diff(B,A) into a copy of diff(A,B) gives the EMPTY diff, both "
            "merge options). The composition law apply(merge(diff(A,B),diff(B,C)),A) = C is proved in these cases only: "
            "C13_merge_apply_partial (C = A), C13_merge_apply_partial_disjoint (no top-level root of diff(B,C) meets one of "
            "diff(A,B)), C13_merge_apply_partial_mixed (every top-level identity touched by both diffs is back at its state in A; "
            "both former are instances; both merge options), C13_merge_apply_partial_cells (WITHOUT LYD_DIFF_MERGE_DEFAULTS: the "
            "top-level roots that meet cancel or are operations on a leaf in one of the cells (diff(A,B) op + diff(B,C) op) replace "
            "+ replace, create + replace, create + none, replace + none, replace + delete, delete + create - hypothesis leaf_cell, "
            "stated on the two diffs; the met root is replaced in place by the merged one or removed); Examples "
            "C13_merge_undo_example, C13_merge_disjoint_example, C13_merge_mixed_example, C13_merge_cells_example, "
            "C13_merge_cells_example2, C13_merge_cells_seed_regression (class of seeded change C13-4: the default flag of the "
            "second diff reaches a created leaf). NOT proved: the leaf cells none(flag) + replace and none(flag) + delete (the "
            "merged node is not an Sp diff node: no orig-value / a stale flag; applying it still gives C in T2), non-cancelling "
            "cells of inner nodes / list and leaf-list instances (none + none with recursion), cells below the top level; with "
            "LYD_DIFF_MERGE_DEFAULTS the law is false (known finding merge-defaults-opt-delete-create). Tie (T2 dtree-C13, driver "
            "lyx): the extracted models of lyd_diff_reverse_all and lyd_diff_merge_all (whole merge table, redundancy removal, both "
            "merge options) must print the same reversed / merged diff trees and patched trees as libyang on generated triples "
            "built to hit every cell (leaves with own and typedef defaults). ORACLE level only (implementation alone): "
            "uord-reverse, diff-reverse / diff-uord-reverse (reverse, merge, merge-undo on generated trees; merge only without "
            "user-ordered / key-less lists), difftree-laws-C13 (dump equality on the T2 triples), difftree-kinds-C13 (driver "
            "t_c14x: reverse and merge with anydata / anyxml values of every representation, metadata, opaque nodes; known "
            "deviations computed exactly per case), difftree-mergeopts-C13 (the composition law by dump equality for both values of "
            "LYD_DIFF_MERGE_DEFAULTS on diffs made with LYD_DIFF_DEFAULTS, and for diffs made without it only on triples without "
            "default nodes), difftree-uord-movechange-C13 (one instance of a user-ordered keyed list moved or created AND changed "
            "inside, both diff option settings), difftree-regress-C13 (drivers lyx and t_c14x). Known findings these oracles "
            "attribute (status known): uord-reverse (only when the diff deletes a user-ordered instance or moves two instances of "
            "one list), uord-empty-anchor-reverse, dupinst-reverse, reverse-any-string, diff-ignores-metadata-c13, "
            "diff-ignores-opaque-c13, merge-defaults-opt-delete-create. Fixed in libyang, a recurrence is a violation: "
            "merge-npcont-dflt 2dd55cd, uord-move-state-subtree-reverse 99529e5, any-empty-orig-value 05a4858, "
            "reverse-any-same-text bd6fa8c, merge-any-replace-delete e592b93, merge-any-delete-create eaa6a18, merge-opaque "
            "4b5ac3f, uord-apply-move-first-sibling a54f28a.",
    "note": "Modelled, not verified: the Coq models are hand transcriptions of the C code, tied to it only by T2 on generated "
            "inputs. List level: lyd_diff_reverse_all and lyd_diff_apply_all (lyd_diff_insert with the *first_node update of "
            "a54f28a) restricted to one user-ordered leaf-list. Tree level (slice difftree): lyd_diff_reverse_all (incl. "
            "lyd_diff_reverse_value / _default, the ignored error of lyd_diff_reverse_remove_op_r), lyd_diff_merge_r with "
            "lyd_diff_merge_none / _replace / _create / _delete, lyd_diff_is_redundant, LYD_INSERT_NODE_LAST_BY_SCHEMA among diff "
            "siblings and the default-flag walks in the diff tree (lyd_diff_merge_dflt_flag). The composition law for arbitrary C "
            "has no general proof (cases listed in the text); no counterexample without LYD_DIFF_MERGE_DEFAULTS is known since "
            "2dd55cd: it is tied by T2 and checked by dump equality on the implementation on every generated triple. Outside the "
            "tree model, oracle only: user-ordered and duplicate-instance lists inside trees (the merge laws are not claimed for "
            "them), anydata / anyxml, metadata, opaque nodes, merging diffs made WITHOUT LYD_DIFF_DEFAULTS on trees that hold "
            "default nodes (not judged: the documented precondition of the merge is not met by diff(B,C) there). Outside "
            "everything: diff callbacks, lyd_diff_merge_tree / _module, extension data.",
    "technique": "Coq proof/refutation on list-level model + differential correspondence + API metamorphic oracle",
}
