"""C13 - diffs can be reversed and composed"""
from props import comps_uord, oracles

PID = "C13"
LEVEL = "proof"


def components():
    return [comps_uord.UDiff()]


def oracles_():
    return [comps_uord.UordReverseOracle(), oracles.DiffRev(), oracles.DiffUordRev()]


MANIFEST = {
    "text": "Coq theorems (Properties_C13_uord.v) about the faithful model of lyd_diff_reverse_all on user-ordered lists: the full "
            "statement is refuted with witnesses (reverse_apply_userord_refuted*, every reversed diff containing a delete fails), "
            "the provable fragment is proved (no delete, at most one move: reverse_apply_userord_partial). Tie: extracted model vs "
            "the real reverse+apply (T2). Reversal/merge/merge-undo for leaves, containers, choices and system-ordered lists at any "
            "depth are checked by the API oracle on generated triples (search); user-ordered reversal is a listed known finding.",
    "note": "Modelled C: lyd_diff_reverse_all restricted to one user-ordered leaf-list. lyd_diff_merge_* is not modelled in Coq.",
    "technique": "Coq proof/refutation on list-level model + differential correspondence + API metamorphic oracle",
}
