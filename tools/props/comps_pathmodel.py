"""comps_pathmodel.py - T2 component of slice `pathmodel` (property C15): coq/PathModel.v against libyang on the same
generated schema + tree (driver impl/t_pathmodel.c).

A case = two generated modules (the second imports and augments the first and reuses its local names, at the top
level too) + one JSON document (data tree, RPC request, RPC reply or notification). Stage 1 (gen) asks the driver for the
compiled schema and the parsed tree as libyang holds them (sibling order is libyang's); the case line carries both dumps,
which are the INPUT of the model, and a list of queries answered by the model and by the implementation:
    P      lyd_path() of EVERY node                                     = PathModel.path_of, byte for byte
    W:xyz  expected swf / dwf / quotes_ok of the model (echoed by the driver): generated trees are well-formed
    F      ly_path_parse() accept / reject and lyd_find_path() result    = parse_path / find_path (found node position,
           partial match, not found, error)
    N      lyd_new_path2(NULL, ..) created tree or error                 = new_path on the empty tree
    X      lyd_new_path2(tree, ..): LY_EEXIST / error / attach point and created chain = new_path on the tree
    Y      lyd_find_xpath(tree, printed path) selects exactly the node find_path finds (property-level expectation: the XPath
           evaluator is not modelled; asked for printed paths of data and notification trees only)
    G      lyd_change_term() of a key / configuration leaf-list node (string, or an integer type given in any lexical form),
           then the NEW lyd_path() of the node finds it again and lyd_new_path2() reports LY_EEXIST: the model computes
           PathModel.change_term, the hypotheses dwf / quotes_ok of the changed tree and the conclusions of
           C15_pathmodel_change_term_paths for the changed node; the driver checks the same on libyang's tree by pointer
           identity (plus lyd_find_xpath, oracle level); both have to answer ok
for the path of every node and for mutated paths: dropped / duplicated / reordered key predicates, wrong, missing and
redundant prefixes (also on key names), position 0 / out of range / far too big, predicates on the wrong node kind,
numbers instead of literals, the other quote, white space between tokens, trailing garbage, other XPath tokens, truncated
paths, paths of nodes that do not exist yet (creation below an existing node).

Restrictions (the model answers E_UNSUP otherwise; the generator stays inside): absolute paths, no XPath variables, no
byte above 127 outside literals; keys, leaf-lists and leaves are of type string, int8 .. uint64, boolean or enumeration
(PathModel.canon; no ranges, lengths, patterns): the printed path carries the canonical value, mutated paths and values
carry other lexical forms (+7, 007, blank 7, 7 blank, -0, True, ...) that have to find / create the same node, and forms the
type rejects. Other types (identityref, instance-identifier, decimal64, bits, union, empty) are covered at oracle level by
props.comps_paths.PathsOps only."""
import json as _json

import vlib
from vlib import hexs, unhex
from props.comps import Comp

NAMES = ["a", "b", "c", "d", "k", "kk", "k-1", "k.1", "k_", "l", "ll", "x", "x-y", "x.y", "_u", "and", "or", "div", "mod",
         "node", "text", "A", "K", "n1", "n2", "e", "current", "true", "ancestor", "c-", "c.", "z9"]
VAL_ALPHA = ["a", "b", "z", "0", "1", " ", "  ", "[", "]", "/", "=", "'", "\"", "*", ".", "..", "//", ":", "|", "(", ")", "@", ",",
             "$", "-", "+", "é", "€", "\U0001F600", "[1]", "[.='", "']", " and ", "\\", "\t", "<", "&", "m1:", "k='v'"]


def rand_value(rng, both_ok=False):
    n = rng.choice([0, 1, 1, 2, 3, 4, 6])
    s = "".join(rng.choice(VAL_ALPHA) for _ in range(n))
    r = rng.random()
    if r < 0.08:
        s += "\\"                  # a trailing backslash: before the closing quote of the printed literal
    elif r < 0.14:
        s += rng.choice(["'\\", "\"\\", "\\'", "\\\""])
    if not both_ok and "'" in s and '"' in s:
        s = s.replace('"', "q")
    return s


# ------------------------------------------------------------------------------------------------
# schema
# ------------------------------------------------------------------------------------------------
ENUM_NAMES = ["up", "down", "a b", "it's", "x/y", "[1]", "k='v'", "and", "true", "7", "-1", "Up"]
INT_BOUNDS = {"int8": (-128, 127), "uint8": (0, 255), "int16": (-32768, 32767), "int32": (-2 ** 31, 2 ** 31 - 1),
              "uint32": (0, 2 ** 32 - 1), "int64": (-2 ** 63, 2 ** 63 - 1), "uint64": (0, 2 ** 64 - 1)}


def rand_type(rng):
    r = rng.random()
    if r < 0.5:
        return ("string",)
    if r < 0.78:
        return (rng.choice(["int8", "int8", "uint8", "uint8", "int16", "int32", "uint32", "int64", "uint64"]),)
    if r < 0.88:
        return ("boolean",)
    return ("enum", rng.sample(ENUM_NAMES, rng.randrange(2, 5)))


def type_yang(t):
    if t[0] == "enum":
        return "type enumeration { %s }" % " ".join('enum "%s";' % n for n in t[1])      # names without " and \\
    return "type %s;" % t[0]


def type_value(rng, t):
    """a value of the type as it goes into the JSON document (canonical)"""
    if t[0] == "string":
        return None
    if t[0] == "boolean":
        return rng.random() < 0.5
    if t[0] == "enum":
        return rng.choice(t[1])
    lo, hi = INT_BOUNDS[t[0]]
    v = rng.choice([lo, hi, 0, 1, 7, 10, 100, rng.randrange(lo, hi + 1), rng.randrange(max(lo, -20), min(hi, 20) + 1)])
    return str(v) if t[0] in ("int64", "uint64") else v


def assign_types(rng, nodes):
    for n in walk(nodes):
        if n.kind in ("leaf", "leaf-list"):
            n.vtype = rand_type(rng)


class S:
    def __init__(self, mod, name, kind, children=None, keys=None, config=True, inp=None, outp=None):
        self.mod, self.name, self.kind = mod, name, kind       # kind: container list leaf leaf-list anydata choice rpc notif
        self.children = children or []                           # choice: [(case name, [nodes])]
        self.keys = keys or []
        self.config = config
        self.inp, self.outp = inp or [], outp or []

    def yang(self, ind, own_mod, cfg_parent=True):
        if self.mod != own_mod:
            return ""                                            # written by the augment of its module
        cfg = "" if (self.config == cfg_parent or self.config is None) else ind + "  config false;\n"
        k = self.kind
        if k in ("leaf", "leaf-list"):
            return "%s%s %s {\n%s  %s\n%s%s}\n" % (ind, k, self.name, ind, type_yang(getattr(self, "vtype", ("string",))), cfg, ind)
        if k == "anydata":
            return "%sanydata %s {\n%s%s}\n" % (ind, self.name, cfg, ind)
        if k == "choice":
            s = "%schoice %s {\n" % (ind, self.name)
            for cn, ns in self.children:
                s += "%s  case %s {\n" % (ind, cn)
                for c in ns:
                    s += c.yang(ind + "    ", own_mod, cfg_parent)
                s += "%s  }\n" % ind
            return s + ind + "}\n"
        if k == "rpc":
            s = "%srpc %s {\n%s  input {\n" % (ind, self.name, ind)
            for c in self.inp:
                s += c.yang(ind + "    ", own_mod, None)
            s += "%s  }\n%s  output {\n" % (ind, ind)
            for c in self.outp:
                s += c.yang(ind + "    ", own_mod, None)
            return s + "%s  }\n%s}\n" % (ind, ind)
        if k == "notif":
            s = "%snotification %s {\n" % (ind, self.name)
            for c in self.children:
                s += c.yang(ind + "  ", own_mod, None)
            return s + ind + "}\n"
        s = "%s%s %s {\n" % (ind, k, self.name)
        if k == "container" and getattr(self, "presence", False):
            s += '%s  presence "p";\n' % ind
        if k == "list" and self.keys:
            s += '%s  key "%s";\n' % (ind, " ".join(self.keys))
        s += cfg
        cp = self.config if self.config is not None else cfg_parent
        for c in self.children:
            s += c.yang(ind + "  ", own_mod, cp)
        return s + ind + "}\n"


class SchemaGen:
    def __init__(self, rng, mod):
        self.rng, self.mod = rng, mod

    def name(self, used):
        for _ in range(100):
            n = self.rng.choice(NAMES)
            if n not in used:
                used.add(n)
                return n
        n = "n%d" % len(used)
        used.add(n)
        return n

    def nodes(self, depth, config, used, count=None, in_op=False):
        rng = self.rng
        out = []
        for _ in range(count if count is not None else rng.randrange(1, 4)):
            r = rng.random()
            if depth <= 0:
                r = 0.5 + r / 2
            if r < 0.18:
                out.append(S(self.mod, self.name(used), "container", self.nodes(depth - 1, config, set(), in_op=in_op), config=config))
                out[-1].presence = rng.random() < 0.3
            elif r < 0.5:
                out.append(self.list(depth, config, used, in_op))
            elif r < 0.56 and depth > 0:
                cases = []
                for _ in range(rng.randrange(1, 3)):
                    cn = self.name(used)
                    cases.append((cn, self.nodes(depth - 1, config, used, count=rng.randrange(1, 3), in_op=in_op)))
                out.append(S(self.mod, self.name(used), "choice", cases, config=config))
            elif r < 0.76:
                out.append(S(self.mod, self.name(used), "leaf-list", config=config))
            elif r < 0.95:
                out.append(S(self.mod, self.name(used), "leaf", config=config))
            else:
                out.append(S(self.mod, self.name(used), "anydata", config=config))
        return out

    def list(self, depth, config, used, in_op=False):
        rng = self.rng
        cfg = config and not (not in_op and rng.random() < 0.2)
        keyless = (not cfg or in_op) and rng.random() < 0.45
        inner = set()
        keys = []
        for _ in range(0 if keyless else rng.choice([1, 1, 2, 2, 3])):
            # key names of one list are often a family: one a proper prefix of another, continued by any identifier character
            # (the duplicate-key test of ly_path_check_predicate() compares prefixes)
            k = None
            if keys and rng.random() < 0.6:
                base = rng.choice(keys)
                cand = base + rng.choice(["-1", ".1", "_", "k", "2", "-", ".", "A", "-x"]) if rng.random() < 0.7 or len(base) < 2 \
                    else base[:rng.randrange(1, len(base))]
                if cand not in inner and (cand[0].isalpha() or cand[0] == "_") and not cand.lower().startswith("xml"):
                    inner.add(cand)
                    k = cand
            keys.append(k or self.name(inner))
        ch = [S(self.mod, k, "leaf", config=cfg) for k in keys]
        ch += self.nodes(depth - 1, cfg, inner, count=rng.randrange(0, 3), in_op=in_op)
        if len(keys) > 1 and rng.random() < 0.5:
            rng.shuffle(keys)              # key order differs from leaf order: libyang moves the keys to the front, in key order
        return S(self.mod, self.name(used), "list", ch, keys=keys, config=cfg)


def walk(nodes):
    for n in nodes:
        yield n
        if n.kind == "choice":
            for _, ns in n.children:
                yield from walk(ns)
        elif n.kind == "rpc":
            yield from walk(n.inp)
            yield from walk(n.outp)
        else:
            yield from walk(n.children)


def gen_modules(rng, two=True, ops=True):
    g1 = SchemaGen(rng, "m1")
    used = set()
    top = g1.nodes(3, True, used, count=rng.randrange(2, 4))
    if rng.random() < 0.8:
        top.append(S("m1", g1.name(used), "container", g1.nodes(2, False, set(), count=rng.randrange(2, 5)), config=False))
    rpcs, notifs = [], []
    if ops:
        for _ in range(rng.randrange(1, 3)):
            rpcs.append(S("m1", g1.name(used), "rpc", config=None, inp=g1.nodes(2, None, set(), in_op=True),
                          outp=g1.nodes(2, None, set(), in_op=True)))
        notifs.append(S("m1", g1.name(used), "notif", g1.nodes(2, None, set(), in_op=True), config=None))
    augs = []
    top2 = []
    if two:
        g2 = SchemaGen(rng, "m2")
        targets = [n for n in walk(top + rpcs + notifs) if n.kind in ("container", "list", "notif", "rpc")]
        rng.shuffle(targets)
        for t in targets[:rng.randrange(1, 4)]:
            which = None
            if t.kind == "rpc":
                which = rng.choice(["input", "output"])
                lst = t.inp if which == "input" else t.outp
            else:
                lst = t.children
            in_op = t.config is None
            cfg = t.config
            # names: mostly those the target already has (in the other module)
            have = [c.name for c in lst] + [t.name]
            new = []
            used2 = set()
            for _ in range(rng.randrange(1, 3)):
                nm = rng.choice(have) if rng.random() < 0.7 else rng.choice(NAMES)
                if nm in used2:
                    continue
                used2.add(nm)
                r = rng.random()
                if r < 0.4:
                    new.append(S("m2", nm, "leaf", config=cfg))
                elif r < 0.6:
                    new.append(S("m2", nm, "leaf-list", config=cfg))
                elif r < 0.8:
                    new.append(S("m2", nm, "container", g2.nodes(1, cfg, set(), in_op=in_op), config=cfg))
                else:
                    l = g2.list(1, cfg, set(), in_op)
                    l.name = nm
                    new.append(l)
            if new:
                augs.append((t, which, new))
                lst.extend(new)
        if rng.random() < 0.7:
            top2.append(S("m2", top[0].name, "container", g2.nodes(1, True, set()), config=True))
        if rng.random() < 0.4:
            top2.append(g2.list(1, True, set([top[0].name])))
    assign_types(rng, top + rpcs + notifs + top2)
    return top, rpcs, notifs, augs, top2


def schema_path(root_lists, target, which):
    """absolute schema node identifier of target (all of m1)"""
    def rec(lst, acc):
        for n in lst:
            if n.mod != "m1":
                continue
            if n is target:
                return acc + [n.name]
            if n.kind == "choice":
                for cn, ns in n.children:
                    r = rec(ns, acc + [n.name, cn])
                    if r:
                        return r
            elif n.kind == "rpc":
                r = rec(n.inp, acc + [n.name, "input"]) or rec(n.outp, acc + [n.name, "output"])
                if r:
                    return r
            else:
                r = rec(n.children, acc + [n.name])
                if r:
                    return r
        return None
    p = rec(root_lists, [])
    if which:
        p = p + [which]
    return "/" + "/".join("m1:" + x for x in p)


def yang_texts(top, rpcs, notifs, augs, top2):
    m1 = "module m1 {\n  yang-version 1.1;\n  namespace \"urn:verif:m1\";\n  prefix m1;\n"
    for n in top + rpcs + notifs:
        m1 += n.yang("  ", "m1", True if n.config is not None else None)
    m1 += "}\n"
    if not augs and not top2:
        return m1, None
    m2 = "module m2 {\n  yang-version 1.1;\n  namespace \"urn:verif:m2\";\n  prefix m2;\n  import m1 { prefix m1; }\n"
    for t, which, new in augs:
        m2 += "  augment \"%s\" {\n" % schema_path(top + rpcs + notifs, t, which)
        for c in new:
            m2 += c.yang("    ", "m2", t.config if t.config is not None else None)
        m2 += "  }\n"
    for n in top2:
        m2 += n.yang("  ", "m2", True)
    m2 += "}\n"
    return m1, m2


# ------------------------------------------------------------------------------------------------
# instances (JSON)
# ------------------------------------------------------------------------------------------------
class InstGen:
    def __init__(self, rng, both_prob=0.0):
        self.rng = rng
        self.both_prob = both_prob
        self.both = False

    def value(self, n=None):
        t = getattr(n, "vtype", ("string",)) if n is not None else ("string",)
        if t[0] != "string":
            return type_value(self.rng, t)
        if self.rng.random() < self.both_prob:
            self.both = True
            return rand_value(self.rng) .replace("'", "") + "'\""
        return rand_value(self.rng)

    def spell(self, n, v):
        """document spelling of a value: a 64-bit integer (a JSON string) sometimes with a plus sign - the tree and the
        printed path carry the canonical form (other spellings cannot be written as JSON numbers; leading zeros in a
        JSON string are left to the oracle paths-ops)"""
        t = getattr(n, "vtype", ("string",))
        if t[0] in ("int64", "uint64") and isinstance(v, str) and not v.startswith("-") and self.rng.random() < 0.4:
            return "+" + v
        return v

    def member(self, n, parent_mod):
        return n.name if n.mod == parent_mod else "%s:%s" % (n.mod, n.name)

    def obj(self, nodes, parent_mod, in_op=False, force=False):
        rng = self.rng
        o = {}
        for n in nodes:
            if n.kind == "choice":
                if n.children and rng.random() < 0.8:
                    _, ns = rng.choice(n.children)
                    o.update(self.obj(ns, parent_mod, in_op))
                continue
            if n.kind in ("rpc", "notif"):
                continue
            if not force and rng.random() < 0.2:
                continue
            nm = self.member(n, parent_mod)
            if n.kind == "container":
                o[nm] = self.obj(n.children, n.mod, in_op)
            elif n.kind == "leaf":
                o[nm] = self.spell(n, self.value(n))
            elif n.kind == "anydata":
                o[nm] = {}
            elif n.kind == "leaf-list":
                dup = (not n.config) or in_op
                vals = []
                for _ in range(rng.randrange(1, 5)):
                    v = rng.choice(vals) if (dup and vals and rng.random() < 0.4) else self.value(n)
                    if dup or v not in vals:
                        vals.append(v)
                o[nm] = [self.spell(n, v) for v in vals]
            elif n.kind == "list":
                insts, seen = [], set()
                # key values mostly from a small pool per key: instances that share some but not all of their keys
                kl = [next(c for c in n.children if c.kind == "leaf" and c.name == k and c.mod == n.mod) for k in n.keys]
                pools = [[self.value(c) for _ in range(rng.randrange(1, 4))] for c in kl]
                for _ in range(rng.randrange(1, 4 if len(n.keys) < 2 else 6)):
                    e = {}
                    kv = tuple((rng.choice(pl) if rng.random() < 0.75 else self.value(c)) for pl, c in zip(pools, kl))
                    if n.keys and kv in seen:
                        continue
                    seen.add(kv)
                    rest = [c for c in n.children if not (c.kind == "leaf" and c.name in n.keys and c.mod == n.mod)]
                    body = self.obj(rest, n.mod, in_op)
                    for k, v, c in zip(n.keys, kv, kl):
                        e[k] = self.spell(c, v)
                    e.update(body)
                    if not n.keys and insts and rng.random() < 0.3:
                        e = dict(rng.choice(insts))           # equal key-less instances
                    insts.append(e)
                o[nm] = insts
        return o


def gen_doc(rng, top, rpcs, notifs, top2, both_prob):
    """-> (type, JSON text, has value with both quotes in a key / configuration leaf-list ... decided later from the dump)"""
    ig = InstGen(rng, both_prob)
    r = rng.random()
    if rpcs and r < 0.12:
        n = rng.choice(rpcs)
        return "r", _json.dumps({"m1:" + n.name: ig.obj(n.inp, "m1", True)}, ensure_ascii=False)
    if rpcs and r < 0.24:
        n = rng.choice(rpcs)
        return "y", _json.dumps({"m1:" + n.name: ig.obj(n.outp, "m1", True)}, ensure_ascii=False)
    if notifs and r < 0.32:
        n = rng.choice(notifs)
        return "n", _json.dumps({"m1:" + n.name: ig.obj(n.children, "m1", True)}, ensure_ascii=False)
    o = ig.obj(top + top2, None)
    return "d", _json.dumps(o, ensure_ascii=False)


# ------------------------------------------------------------------------------------------------
# dumps -> structure
# ------------------------------------------------------------------------------------------------
class N:
    __slots__ = ("mod", "name", "kind", "type", "value", "children", "parent")

    def __init__(self, mod, name, kind, value):
        self.mod, self.name, self.kind, self.value = mod, name, kind, value
        self.children = []
        self.parent = None


def parse_dump(s):
    roots, stack = [], []
    if s in ("-", ""):
        return roots
    for r in s.split(";"):
        f = r.split(",")
        d = int(f[0])
        kd, _, ty = f[3].partition("~")
        n = N(f[1], f[2], kd, unhex(f[4]) if len(f) > 4 and f[4] != "-" else b"")
        n.type = ty or None
        del stack[d:]
        if stack:
            n.parent = stack[-1]
            stack[-1].children.append(n)
        else:
            roots.append(n)
        stack.append(n)
    return roots


def nwalk(forest):
    for n in forest:
        yield n
        yield from nwalk(n.children)


def quote(v):
    return (b"'" + v + b"'") if b"'" not in v else (b'"' + v + b'"')


def lead_keys(n):
    out = []
    for c in n.children:
        if c.kind != "f1":
            break
        out.append(c)
    return out


def siblings(n, roots):
    return n.parent.children if n.parent else roots


def position(n, roots):
    sibs = siblings(n, roots)
    i = next(k for k, x in enumerate(sibs) if x is n)
    pos = 1
    while i - pos >= 0 and sibs[i - pos].mod == n.mod and sibs[i - pos].name == n.name:
        pos += 1
    return pos


def segs_of(n, roots):
    """[[prefix or None, name, [predicate bytes...]]] as lyd_path prints them"""
    chain = []
    x = n
    while x is not None:
        chain.append(x)
        x = x.parent
    chain.reverse()
    out = []
    prev = None
    for x in chain:
        preds = []
        if x.kind in ("L00", "L01"):
            preds = [b"[" + k.name.encode() + b"=" + quote(k.value) + b"]" for k in lead_keys(x)]
        elif x.kind in ("L10", "L11", "T0"):
            preds = [b"[%d]" % position(x, roots)]
        elif x.kind == "T1":
            preds = [b"[.=" + quote(x.value) + b"]"]
        out.append([x.mod if x.mod != prev else None, x.name, preds])
        prev = x.mod
    return out


def render(segs):
    return b"".join(b"/" + ((s[0].encode() + b":") if s[0] else b"") + s[1].encode() + b"".join(s[2]) for s in segs)


def index_path(n, roots):
    out = []
    x = n
    while x is not None:
        sibs = siblings(x, roots)
        out.append(next(k for k, y in enumerate(sibs) if y is x))
        x = x.parent
    return ".".join(str(i) for i in reversed(out))


def find_schema(sroots, n):
    chain = []
    x = n
    while x is not None:
        chain.append(x)
        x = x.parent
    lst = sroots
    s = None
    for x in reversed(chain):
        s = next((c for c in lst if c.mod == x.mod and c.name == x.name), None)
        if s is None:
            return None
        lst = s.children
    return s


GARBAGE = [b"/", b"//", b" ", b"]", b"[", b"x", b"'", b"\"", b"/..", b"/.", b"|", b"[1]", b"[0]", b"*", b" and 1", b"()", b"::", b":", b":x",
           b"@a", b",", b"=", b"='a'", b"/*", b"/m1:*", b"/zz:a", b"[.='a']", b"[k='a']", b"-", b"+1", b"<", b"!=", b"\t", b"#", b"{", b"\\", b"/1",
           b"/a::b", b"/child::a", b"a", b".", b"..", b"[]", b"[ ]", b"[1", b"[.=]", b"[.='a'", b"[.=5]", b"[.=.5]", b"[.=5.]", b"['a']", b"[a]",
           b"[a=]", b"[a='b'][1]", b"[a='b'][.='c']", b"[1][1]", b"[a=b]", b"[a=1]"]
BIGPOS = [b"0", b"00", b"01", b"1.0", b"1.9", b"0.9", b".5", b"2", b"3", b"9", b"4294967296", b"4294967297", b"9223372036854775808",
          b"18446744073709551616", b"99999999999999999999", b"1.", b"1.e"]


def respell(rng, value, ty):
    """another lexical form of a typed value (bytes): mostly one the type accepts and maps to the same canonical value,
    sometimes one it rejects or that names another value"""
    if not ty or ty == "s" or ty == "x":
        return value
    r = rng.random()
    if ty[0] in "iu":
        try:
            v = int(value)
        except ValueError:
            return value
        forms = ["+%d" % v if v >= 0 else "-0%d" % -v, "%s00%d" % ("-" if v < 0 else "", abs(v)), " %d" % v, "%d " % v, "\t%d\n" % v,
                 " +%d " % v if v >= 0 else " %d " % v]
        if v == 0:
            forms += ["-0", "+0", "000"]
        bad = ["%d.0" % v, "0x%x" % abs(v), "%da" % v, "", " ", "+", "-", "+-%d" % v, "%d %d" % (v, v), str(v + 2 ** int(ty[1:]) if v >= 0 else v - 2 ** int(ty[1:])),
               str(v + 1), "1e1"]
        return (rng.choice(forms) if r < 0.75 else rng.choice(bad)).encode()
    if ty == "b":
        return rng.choice([b"true", b"false", b" true", b"true ", b"True", b"TRUE", b"1", b"0", b""])
    if ty[0] == "e":
        names = [unhex(h) for h in ty[1:].split(".")]
        return rng.choice(names + [names[0] + b" ", b" " + names[0], names[0].upper(), b"", b"zz"])
    return value


def mutations(rng, n, roots, sroots, count):
    """mutated paths (bytes) derived from the path of node n"""
    segs = segs_of(n, roots)
    out = []

    def cp():
        return [[s[0], s[1], list(s[2])] for s in segs]
    kinds = list(range(24)) + [24, 24, 24]
    rng.shuffle(kinds)
    for kd in kinds:
        if len(out) >= count:
            break
        m = cp()
        i = rng.randrange(len(m))
        s = m[i]
        if kd == 0 and s[2] and len(s[2]) > 1:                    # drop one key predicate
            del s[2][rng.randrange(len(s[2]))]
        elif kd == 1 and s[2]:                                    # duplicate a predicate
            j = rng.randrange(len(s[2]))
            s[2].insert(rng.randrange(len(s[2]) + 1), s[2][j])
        elif kd == 2 and len(s[2]) > 1:                           # reorder key predicates
            rng.shuffle(s[2])
        elif kd == 3:                                             # wrong / unknown prefix
            s[0] = rng.choice(["m1", "m2", "zz", "M1", "m", "m1x", "*", "yang"])
        elif kd == 4:                                             # drop a prefix (first, or after a module change)
            cands = [x for x in m if x[0]]
            rng.choice(cands)[0] = None
        elif kd == 5:                                             # redundant prefix
            x = n
            chain = []
            while x is not None:
                chain.append(x)
                x = x.parent
            chain.reverse()
            s[0] = chain[i].mod
        elif kd == 6 and s[2] and s[2][0].startswith(b"[") and not s[2][0][1:2].isdigit() and not s[2][0].startswith(b"[."):
            j = rng.randrange(len(s[2]))                          # prefix on a key name
            s[2][j] = b"[" + rng.choice([b"m1:", b"m2:", b"zz:"]) + s[2][j][1:]
        elif kd == 7:                                             # positional predicate instead / in addition
            p = b"[" + rng.choice(BIGPOS) + b"]"
            if rng.random() < 0.6:
                s[2] = [p]
            else:
                s[2].append(p)
        elif kd == 8:                                             # position out of range
            if s[2] and s[2][0][1:2].isdigit():
                k = int(s[2][0][1:-1])
                s[2] = [b"[%d]" % (k + rng.choice([1, 2, 5]))]
            else:
                continue
        elif kd == 9:                                             # leaf-list predicate on whatever node
            s[2] = [b"[.=" + quote(rand_value(rng).encode()) + b"]"]
        elif kd == 10:                                            # key predicate on whatever node
            s[2] = [b"[" + rng.choice(NAMES).encode() + b"=" + quote(rand_value(rng).encode()) + b"]"]
        elif kd == 11:                                            # drop all predicates of a segment
            if not s[2]:
                continue
            s[2] = []
        elif kd == 12:                                            # trailing garbage
            out.append(render(m) + rng.choice(GARBAGE))
            continue
        elif kd == 13:                                            # garbage inside
            r = render(m)
            k = rng.randrange(1, len(r) + 1)
            out.append(r[:k] + rng.choice(GARBAGE) + r[k:])
            continue
        elif kd == 14:                                            # white space between tokens
            r = render(m)
            ws = rng.choice([b" ", b"\t", b"\n", b"  "])
            for ch in (b"[", b"]", b"=", b"/"):
                if rng.random() < 0.5:
                    r = r.replace(ch, ws + ch + ws if rng.random() < 0.5 else ch + ws)
            out.append(r)                                         # (also changes values holding these characters: still one query)
            continue
        elif kd == 15 and s[2] and b"='" in s[2][0] and b'"' not in s[2][0]:   # the other quote
            s[2] = [p.replace(b"='", b'="').replace(b"']", b'"]') if p.count(b"'") == 2 else p for p in s[2]]
        elif kd == 16 and s[2] and b"=" in s[2][0]:               # number / other value instead of the literal
            j = rng.randrange(len(s[2]))
            head = s[2][j].split(b"=", 1)[0]
            s[2][j] = head + b"=" + rng.choice([b"5", b"1.5", b".5", b"5.", b"007", b"-1", b"a", b"'a'", b"''", b'""', b"'\xff'", b"'\xc3'",
                                               b"'\xed\xa0\x80'", b"'a", b"$v", quote(rand_value(rng).encode())]) + b"]"
            if b"$" in s[2][j]:
                continue
        elif kd == 17 and len(m) > 1:                             # truncated path
            m = m[:rng.randrange(1, len(m))]
        elif kd == 18:                                            # one more segment: a schema child (existing or not) or nonsense
            sn = find_schema(sroots, n)
            if sn is not None and sn.children and rng.random() < 0.8:
                c = rng.choice(sn.children)
                preds = []
                if c.kind in ("L00", "L01") and rng.random() < 0.8:
                    preds = [b"[" + k.name.encode() + b"=" + quote(rand_value(rng).encode()) + b"]" for k in c.children if k.kind == "f1"]
                elif c.kind in ("L10", "L11", "T0") and rng.random() < 0.6:
                    preds = [b"[" + rng.choice([b"1", b"2", b"3", b"7"]) + b"]"]
                elif c.kind in ("T1", "T0") and rng.random() < 0.6:
                    preds = [b"[.=" + quote(rand_value(rng).encode()) + b"]"]
                m.append([c.mod if c.mod != n.mod else None, c.name, preds])
            else:
                m.append([None, rng.choice(NAMES), []])
        elif kd == 19:                                            # rename a node
            s[1] = rng.choice(NAMES + ["*", "zz"])
        elif kd == 20 and s[2] and b"=" in s[2][0]:               # change a key / leaf-list value: another or no instance
            j = rng.randrange(len(s[2]))
            head = s[2][j].split(b"=", 1)[0]
            sibs = [x for x in nwalk(roots) if x.kind in ("f1", "T1", "T0")]
            v = rng.choice(sibs).value if sibs and rng.random() < 0.6 else rand_value(rng).encode()
            s[2][j] = head + b"=" + quote(v) + b"]"
        elif kd == 21:                                            # relative-looking / doubled slashes at the start are not generated: keep '/'
            out.append(b"/" + render(m)[1:].replace(b"/", b"/", 1))
            continue
        elif kd == 22 and s[2]:                                   # empty literal / blank literal
            j = rng.randrange(len(s[2]))
            if b"=" in s[2][j]:
                head = s[2][j].split(b"=", 1)[0]
                s[2][j] = head + b"=" + rng.choice([b"''", b"' '", b'""']) + b"]"
            else:
                continue
        elif kd == 24:                                            # other lexical forms of typed key / leaf-list values
            x = n
            chain = []
            while x is not None:
                chain.append(x)
                x = x.parent
            chain.reverse()
            hit = False
            for k, x in enumerate(chain):
                if x.kind in ("L00", "L01") and any(c.type not in (None, "s") for c in lead_keys(x)):
                    m[k][2] = [b"[" + c.name.encode() + b"=" + quote(respell(rng, c.value, c.type) if rng.random() < 0.8 else c.value) + b"]"
                               for c in lead_keys(x)]
                    hit = True
                elif x.kind == "T1" and x.type not in (None, "s"):
                    m[k][2] = [b"[.=" + quote(respell(rng, x.value, x.type)) + b"]"]
                    hit = True
            if not hit:
                continue
        elif kd == 23:                                            # predicates of another segment
            j = rng.randrange(len(m))
            s[2] = list(m[j][2])
        else:
            continue
        out.append(render(m))
    res = []
    for p in out:
        if not p.startswith(b"/") or b"$" in p or b"\0" in p:
            continue
        if not ascii_outside_literals(p):
            continue
        res.append(p)
    return res


def ascii_outside_literals(p):
    """no byte above 127 outside a quoted literal (the tokenizer model is ASCII there)"""
    q = None
    for b in p:
        if q is None:
            if b in (0x27, 0x22):
                q = b
            elif b > 127:
                return False
        elif b == q:
            q = None
    return True


def has_both(roots):
    for n in nwalk(roots):
        if n.kind in ("f1", "T1") and b"'" in n.value and b'"' in n.value:
            return True
    return False


class PathModel(Comp):
    """PathModel.v vs lyd_path / ly_path_parse / lyd_find_path / lyd_new_path2 on generated schemas and trees"""
    name = "pathmodel"
    driver = "t_pathmodel"
    slice = "pathmodel"

    def __init__(self):
        self.info = {}

    def gen(self, rng, tier, scale=1.0):
        pre = []
        for i in range(self.n(tier, 300, 8000, scale)):
            top, rpcs, notifs, augs, top2 = gen_modules(rng, two=(i % 4 != 0), ops=(i % 3 != 0))
            y1, y2 = yang_texts(top, rpcs, notifs, augs, top2)
            typ, doc = gen_doc(rng, top, rpcs, notifs, top2, both_prob=0.02 if i % 7 == 0 else 0.0)
            pre.append("\t".join(["pmd", typ, hexs(y1), hexs(y2) if y2 else "-", hexs(doc)]))
        exe = vlib.build_driver("t_pathmodel", "rel")
        outs, _ = vlib.run_sharded(exe, pre, timeout=300)
        L = []
        self.stats = {"rejected": 0, "nodes": 0, "queries": 0}
        for line, out in zip(pre, outs):
            if " " not in out or out[0] in "MD?C":
                self.stats["rejected"] += 1
                continue
            sd, td = out.split(" ")
            typ = line.split("\t")[1]
            roots = parse_dump(td)
            sroots = parse_dump(sd)
            nodes = list(nwalk(roots))
            if not nodes or len(nodes) > 100:
                continue
            both = has_both(roots)
            qs = ["P", "W:11%d" % (0 if both else 1)]
            meta = [("P", None), ("W", None)]
            per = 3 if len(nodes) < 25 else 2 if len(nodes) < 50 else 1
            for n in nodes:
                p = render(segs_of(n, roots))
                ph, vh = hexs(p), hexs(n.value)
                ip = index_path(n, roots)
                qs += ["F:" + ph, "N:%s:%s" % (ph, vh), "X:%s:%s" % (ph, vh)]
                meta += [("F", ip), ("N", ip), ("X", ip)]
                if typ in ("d", "n") and not both:
                    qs.append("Y:" + ph)                   # lyd_find_xpath() of the printed path: exactly the node
                    meta.append(("Y", ip))
                if n.type not in (None, "s") and n.kind in ("f0", "T0", "T1"):
                    qs.append("N:%s:%s" % (ph, hexs(respell(rng, n.value, n.type))))
                    meta.append(("N", None))
                for mp in mutations(rng, n, roots, sroots, per):
                    mh = hexs(mp)
                    r = rng.random()
                    v = rng.choice([n.value, respell(rng, n.value, n.type), rand_value(rng).encode(), b"", b"\xff"])
                    if v[:1] in (b"<", b"{") or v[:3] == b"lyb":
                        v = b"v" + v          # an anydata value that looks like XML / JSON / LYB is parsed: not modelled
                    v = hexs(v)
                    qs.append("F:" + mh)
                    meta.append(("F", None))
                    if r < 0.5:
                        qs.append("X:%s:%s" % (mh, v))
                        meta.append(("X", None))
                    elif r < 0.75:
                        qs.append("N:%s:%s" % (mh, v))
                        meta.append(("N", None))
            # last (they may reorder siblings for a moment): change a key / configuration leaf-list value, the NEW path of the
            # node has to identify it
            cands = [n for n in nodes if n.kind in ("f1", "T1") and n.type and (n.type == "s" or n.type[0] in "iu")]
            rng.shuffle(cands)
            for k, n in enumerate(cands[:8] if not both else []):
                if n.type == "s":
                    w = ("G%d-" % k + rng.choice(["", "a b", "'", "]", "/"])).encode()       # a value no node has
                else:
                    used = set(x.value for x in nodes if x.name == n.name)
                    free = [v for v in range(0, 120) if str(v).encode() not in used]
                    if not free:
                        continue
                    v = rng.choice(free)
                    w = rng.choice(["%d", "+%d", "0%d", " %d ", "\t+00%d\n"]).__mod__(v).encode()   # any lexical form of it
                qs.append("G:%s:%s" % (hexs(render(segs_of(n, roots))), hexs(w)))
                meta.append(("G", index_path(n, roots)))
            f = line.split("\t")
            cl = "\t".join(["pm"] + f[1:] + [sd, td] + qs)
            self.info[cl] = (meta, both)
            self.stats["nodes"] += len(nodes)
            self.stats["queries"] += len(qs)
            L.append(cl)
        if pre and self.stats["rejected"] * 5 > len(pre):
            raise vlib.BuildError("pathmodel generator: %d of %d generated cases rejected by libyang (first: %s)"
                                  % (self.stats["rejected"], len(pre), outs[0][:80]))
        return L

    def witness(self, line, model_out, impl_out):
        """the property itself fails on the implementation when a differing answer belongs to the path of an EXISTING node
        and is not what C15 demands (F: exactly that node; X: LY_EEXIST, or nothing created for a default container; N: the
        spine the model proves). Disagreements on mutated paths are failures of the tie only (no witness)."""
        f = line.split("\t")
        qs = f[7:]
        mo, io = model_out.split(" "), impl_out.split(" ")
        meta, both = self.info.get(line, ([], False))
        if both or len(io) != len(qs):
            return None
        for k, q in enumerate(qs):
            a = mo[k] if k < len(mo) else "<none>"
            b = io[k]
            if a == b or k >= len(meta) or meta[k][1] is None:
                continue
            ip = meta[k][1]
            if q[0] == "F":
                bad = not b.endswith(":S" + ip)
                want = "lyd_find_path() has to return that node"
            elif q[0] == "X":
                bad = b not in ("X:E4", "X:-:-")
                want = "lyd_new_path() on the tree has to report LY_EEXIST"
            elif q[0] == "Y":
                bad = b != "Y:" + ip
                want = "lyd_find_xpath() has to return exactly that node"
            elif q[0] == "G":
                bad = b != "G:ok"
                want = "after lyd_change_term() of the node the path lyd_path() prints for it has to identify it"
            else:
                bad = True
                want = "lyd_new_path() on an empty tree has to create the node and its ancestors: " + a[:200]
            if bad:
                mini = "\t".join(f[:7] + [q])
                return (None, "path %r of the node at %s: %s; implementation answers %s; minimal case line: %s"
                        % (unhex(q.split(":")[1]), ip, want, b[:300], mini[:6000]))
        return None
