"""comps_ymod.py - module-level oracle of property C10 (SEARCH): ModuleRT; driver impl/t_ymod.c.

WHOLE modules are generated with statement coverage as the goal (every statement of RFC 7950 section 7 with its
substatements in shuffled order, extension instances under every statement kind, adversarial argument strings from
comps_ytext.yang_text / fixed_texts in every string-valued statement, both quoting styles and + concatenation in the
SOURCE text, a submodule, imports), plus the structured sets of comps_flatten (C11), the data-oriented modules of
yanggen.SchemaGen and the real modules of /repo/models and /repo/tests/modules/yang. For each module and feature set the
driver checks (see the header of impl/t_ymod.c): YANG print -> fresh context -> accepted, same compiled print, same YANG
print, same YIN print; YIN print -> fresh context -> accepted, same compiled print, same YIN print, YANG print equal up to
quote style; submodule prints likewise; the parsed (only imported, not compiled) module likewise; compiled and tree prints
deterministic in one and across two contexts; a digest of the compiled structures written by the driver (not by a libyang
printer: the compiled printer shares helpers with the parsed one) equal after both round trips. Here, for the generated
modules: the statements of the source are the statements of the first YANG print (the parsed tree against what was written).
Boundary arguments (empty, one blank, only a line break / quotes / a backslash, comment and block tokens) are drawn often
for every string-valued statement.

Normalisation of the YANG text printed from the YIN-parsed module (YIN carries no quoting information), the ONLY one:
both texts must be the same sequence of YANG tokens (RFC 7950 6.1: keyword / string VALUE after unescaping and
concatenation / { / } / ;); how a string is quoted and on which line it starts is not compared.

Constructs that hit a listed finding (known_findings.d/ymod.json, each replayed from corpus/ymod-findings.txt) are NOT
generated, so that they cannot hide anything else in the same module; YMOD_NO_AVOID=<tag,tag|all> generates them again
(for checking a fix).
"""
import glob
import os
import re

import gens
import vlib
from vlib import hexs, unhex
from props import comps_ytext as YT
from props.comps_flatten import S

NO_AVOID = set(filter(None, os.environ.get("YMOD_NO_AVOID", "").split(",")))

# findings of this oracle that were repaired in /repo (tag -> fix commit): their constructs are generated again, a
# reappearance is a plain violation; the witness modules stay in corpus/ymod-findings.txt and must pass (RegressionRT)
FIXED = {
    "tree-ext-noplugin-crash": "43fdcc7", "tree-ext-noplugin-crash-node": "43fdcc7", "compiled-print-ext-order": "d3bb587",
    "yin-text-ext-order": "19b0db8", "yin-iffeature-ext": "eb88192", "ext-disabled-stale-slot": "5ff71a8",
    "bit-ext-dropped": "f458f0a", "submodule-toplevel-ext-dropped": "ea4f583", "toplevel-uses-ext-crash": "d11bafb",
    "yin-ext-substmt-text": "a7f915d", "yin-ext-substmt-unquoted": "de4b88c", "yin-ext-substmt-index": "5e04ad1",
    "yin-xmlns-unescaped": "db375d0", "yin-submodule-xmlns-prefix": "36df73d", "yin-ext-arg-element-blank": "932327e",
    "amend-dup-ext-parent-stmt": "7099641", "tree-ext-first-record": "dc2a73a", "yin-unres-exts-realloc": "bb5ffe8",
    "ext-nested-dropped": "347838c", "bits-position-max-bitmap": "2baac78",
}


def avoid(tag):
    """is the construct of the listed (still open) finding left out of the generated modules"""
    if tag in FIXED:
        return False
    return tag not in NO_AVOID and "all" not in NO_AVOID


# ------------------------------------------------------------------------------------------------
# adversarial argument strings
# ------------------------------------------------------------------------------------------------
def ok_text(b):
    return YT.is_yang_string(b) and b"\r" not in b and b"\x00" not in b      # (CR: listed finding yang-cr)


_FIXED = None
# boundary arguments: the empty string, one blank, only a line break, only quotes, only a backslash ...
BOUNDARY = ["", "", "", " ", "\n", '"', "'", "''", '""', "\t", "\\", "  ", "\n\n", "' \"", "\\n", "\\\\", "\"\n\"", " \n ", "+", ";", "{",
            "}", "//", "/*", "*/"]


def adv_text(rng, maxlen=200, nonempty=False, strip=False):
    """a string every YANG string statement accepts"""
    global _FIXED
    if _FIXED is None:
        _FIXED = [t for t in YT.fixed_texts("quick") if ok_text(t) and len(t) <= 400]
    for _ in range(50):
        r = rng.random()
        if r < 0.22:
            s = rng.choice(BOUNDARY)
            if strip:
                s = s.strip()
            if (nonempty and not s) or len(s) > maxlen:
                continue
            return s
        if r < 0.4:
            t = rng.choice(_FIXED)
        elif r < 0.5:
            t = rng.choice([b"plain", b"two words", b"x", b"a-b_c.d", b"1", b"true"])
        else:
            t = YT.yang_text(rng, rare=0.0)
        if not ok_text(t) or len(t) > maxlen:
            continue
        s = t.decode("utf-8")
        if strip:
            s = s.strip()
        if nonempty and not s:
            continue
        return s
    return "x"


IDENT_RE = re.compile(r"[A-Za-z_][A-Za-z0-9_.-]*")
UNQ_RE = re.compile(r"[^\s\"';{}]+")


def can_unquoted(v):
    return bool(UNQ_RE.fullmatch(v)) and "//" not in v and "/*" not in v and "*/" not in v


# statements whose argument keeps its quote kind in the parsed module (LYS_SINGLEQUOTED): a single-quoted argument with a
# line break is the listed finding yang-squote-newline; only the text statements below are free of it
SQ_NL_OK = {"description", "reference", "contact", "organization", "error-message", "error-app-tag", "units", "presence"}

COMMENTS = ["/* c */", "// c\n", "/* ; { } \" ' */", "/*\n * x\n */", "//\n"]


class Writer:
    """statement tree -> YANG source text, with random (legal) spellings of the same tokens"""

    def __init__(self, rng, noise=0.15):
        self.rng = rng
        self.noise = noise

    def dq(self, v, literal_nl=True):
        out = []
        for i, ch in enumerate(v):
            if ch == "\\":
                out.append("\\\\")
            elif ch == '"':
                out.append('\\"')
            elif ch == "\t":
                out.append("\\t" if self.rng.random() < 0.7 or (i + 1 < len(v) and v[i + 1] == "\n") or
                           (i and v[i - 1] == "\n") else "\t")
            elif ch == "\n":
                prev_blank = i > 0 and v[i - 1] in " \t"
                next_blank = i + 1 < len(v) and v[i + 1] in " \t"
                # a literal line break: blanks before it and blanks after it (up to the column of the quote) are
                # stripped by the lexer, so it is only written between non-blanks; the next line starts in column 0
                out.append("\n" if literal_nl and not prev_blank and not next_blank and self.rng.random() < 0.5 else "\\n")
            else:
                out.append(ch)
        return '"' + "".join(out) + '"'

    def piece(self, v, squote_ok, part=False):
        """part: a piece of a concatenation; there no line break is written literally: libyang's lexer carries the 'after a
        line break' state over the + and strips the leading blanks of the next piece (seen, not a C10 matter)"""
        if squote_ok and "'" not in v and self.rng.random() < 0.4 and not (part and "\n" in v):
            return "'" + v + "'"
        return self.dq(v, not part)

    def arg(self, v, kw, in_ext=False):
        rng = self.rng
        v = str(v)
        squote_ok = "\n" not in v or (kw in SQ_NL_OK and not in_ext)
        r = rng.random()
        if can_unquoted(v) and r < 0.5:
            return v
        if len(v) >= 2 and r > 0.85:
            # concatenation
            k = rng.choice([2, 2, 3])
            cuts = sorted(rng.sample(range(1, len(v)), min(k - 1, len(v) - 1)))
            parts = [v[a:b] for a, b in zip([0] + cuts, cuts + [len(v)])]
            # a tab written literally next to a cut would be next to a line break of the source only if we add one; the
            # separator never adds a line break inside a piece, so every piece is independent
            # (a comment between a string and the + is not accepted by libyang; RFC 7950 does not say where comments may be)
            seps = [" + ", "+", " +\n      ", "\n  +\n  ", " + /* c */ ", " + // c\n "]
            return "".join(self.piece(p, squote_ok, True) + (rng.choice(seps) if i + 1 < len(parts) else "")
                           for i, p in enumerate(parts))
        return self.piece(v, squote_ok)

    def sp(self):
        r = self.rng.random()
        if r > self.noise:
            return " "
        return self.rng.choice(["  ", "\t", "\n", " \n   ", " " + self.rng.choice(COMMENTS) + " "])

    def text(self, st, ind=0, in_ext=False):
        rng = self.rng
        pad = "  " * ind if rng.random() > self.noise / 3 else rng.choice(["", " ", "\t"])
        out = pad + st.kw
        is_ext = ":" in st.kw
        if st.arg is not None:
            out += self.sp() + self.arg(st.arg, st.kw, in_ext)
        if st.subs:
            out += self.sp().rstrip("\n") + "{\n" if rng.random() > 0.05 else "{"
            for c in st.subs:
                out += self.text(c, ind + 1, in_ext or is_ext)
            out += pad + "}\n"
        elif rng.random() < 0.04 and st.kw not in ("leaf", "leaf-list", "type"):
            out += rng.choice([" {}\n", "{ }\n", " {\n" + pad + "}\n", " { // c\n }\n"])
        else:
            out += rng.choice([";\n", ";\n", ";\n", " ;\n", "; // c\n", ";\n\n"])
        if rng.random() < self.noise / 4:
            out += pad + rng.choice(COMMENTS) + "\n"
        return out


# ------------------------------------------------------------------------------------------------
# YANG tokens (for the one normalisation, see the module comment)
# ------------------------------------------------------------------------------------------------
class LexError(Exception):
    pass


def yang_tokens(text):
    """-> list of tokens: '{', '}', ';' or ('s', value). RFC 7950 6.1.2 comments, 6.1.3 quoting incl. the stripping of
    blanks around a line break inside double quotes, concatenation with +"""
    i, n = 0, len(text)
    toks = []

    def col_of(pos):
        c = 0
        j = text.rfind("\n", 0, pos) + 1
        for ch in text[j:pos]:
            c = (c // 8 + 1) * 8 if ch == "\t" else c + 1
        return c

    def dquoted(pos):
        # pos: index after the opening quote; returns (value, index after the closing quote)
        indent = col_of(pos)
        out = []                 # (character, written literally)
        j = pos
        while True:
            if j >= n:
                raise LexError("unterminated string")
            ch = text[j]
            if ch == '"':
                return "".join(c for c, _ in out), j + 1
            if ch == "\\":
                if j + 1 >= n:
                    raise LexError("unterminated string")
                e = text[j + 1]
                if e == "n":
                    out.append(("\n", False))
                elif e == "t":
                    out.append(("\t", False))
                elif e in '"\\':
                    out.append((e, False))
                else:
                    raise LexError("bad escape")
                j += 2
                continue
            if ch == "\n":
                # blanks written literally before the line break are stripped
                while out and out[-1][0] in (" ", "\t") and out[-1][1]:
                    out.pop()
                out.append(("\n", True))
                j += 1
                c = 0
                while j < n and text[j] in " \t" and c < indent:
                    if text[j] == "\t":
                        c += 8
                        if c > indent:
                            out.extend([(" ", True)] * (c - indent))
                    else:
                        c += 1
                    j += 1
                continue
            out.append((ch, True))
            j += 1

    while i < n:
        ch = text[i]
        if ch in " \t\n\r":
            i += 1
        elif text.startswith("//", i):
            j = text.find("\n", i)
            i = n if j < 0 else j + 1
        elif text.startswith("/*", i):
            j = text.find("*/", i + 2)
            if j < 0:
                raise LexError("unterminated comment")
            i = j + 2
        elif ch in "{};":
            toks.append(ch)
            i += 1
        elif ch in "\"'":
            val = ""
            while True:
                if text[i] == '"':
                    v, i = dquoted(i + 1)
                else:
                    j = text.find("'", i + 1)
                    if j < 0:
                        raise LexError("unterminated string")
                    v, i = text[i + 1:j], j + 1
                val += v
                # + continuation
                j = i
                while True:
                    while j < n and text[j] in " \t\n\r":
                        j += 1
                    if text.startswith("//", j):
                        k = text.find("\n", j)
                        j = n if k < 0 else k + 1
                    elif text.startswith("/*", j):
                        k = text.find("*/", j + 2)
                        j = n if k < 0 else k + 2
                    else:
                        break
                if j < n and text[j] == "+":
                    j += 1
                    while j < n and (text[j] in " \t\n\r" or text.startswith("//", j) or text.startswith("/*", j)):
                        if text[j] in " \t\n\r":
                            j += 1
                        elif text.startswith("//", j):
                            k = text.find("\n", j)
                            j = n if k < 0 else k + 1
                        else:
                            k = text.find("*/", j + 2)
                            j = n if k < 0 else k + 2
                    if j < n and text[j] in "\"'":
                        i = j
                        continue
                    raise LexError("dangling +")
                break
            toks.append(("s", val))
        else:
            j = i
            while j < n and text[j] not in " \t\n\r;{}" and not text.startswith("//", j) and not text.startswith("/*", j):
                j += 1
            toks.append(("s", text[i:j]))
            i = j
    return toks


def tokens_equal(a, b):
    """None when equal, else a description of the first difference"""
    try:
        ta = yang_tokens(a)
    except LexError as e:
        return "the first text does not lex: %s" % e
    try:
        tb = yang_tokens(b)
    except LexError as e:
        return "the text printed from the YIN-parsed module does not lex: %s" % e
    for k, (x, y) in enumerate(zip(ta, tb)):
        if x != y:
            ctx = " ".join(t if isinstance(t, str) else repr(t[1])[:40] for t in ta[max(0, k - 4):k])
            return "token %d after [%s]: %r vs %r" % (k, ctx, x, y)
    if len(ta) != len(tb):
        return "%d vs %d tokens" % (len(ta), len(tb))
    return None


# ------------------------------------------------------------------------------------------------
# fixed companions of the generated module: yme (extensions, typedef, grouping, feature, identity to import),
# ymt (targets of foreign augments and deviations)
# ------------------------------------------------------------------------------------------------
YME = """module yme {
  yang-version 1.1;
  namespace "urn:yme";
  prefix e;
  revision 2020-01-01;
  extension a0;
  extension a1 { argument name; }
  extension a2 { argument text { yin-element true; } }
  feature xf;
  identity idb;
  identity idc { base idb; }
  typedef xt { type string { length "0..20"; } }
  grouping xg { leaf xgl { type string; } container xgc { leaf-list xgll { type uint8; } } }
}
"""

YMT = """module ymt {
  yang-version 1.1;
  namespace "urn:ymt";
  prefix t;
  container tc {
    leaf l1 { type int32; units u1; default 5; must ". > 0"; must ". < 100"; }
    leaf l2 { type string; }
    leaf l3 { type string; mandatory true; config true; }
    leaf l4 { type string; units u4; default d4; }
    leaf-list ll1 { type string; default a; default b; min-elements 0; max-elements 5; ordered-by user; }
    leaf-list ll2 { type int8; }
    leaf-list ll3 { type int8; min-elements 1; max-elements 7; }
    list tl { key k; unique "a"; unique "b c"; leaf k { type string; } leaf a { type string; } leaf b { type string; }
      leaf c { type string; } leaf d { type string; } leaf e { type string; } }
    list tl2 { key k; max-elements 3; leaf k { type string; } }
    container inner { leaf x { type string; } }
    container inner2 { must "x"; leaf x { type string; } }
    choice tch { case ca { leaf cal { type string; } } leaf sh { type string; } }
    choice tch2 { default cb; case cb { leaf cbl { type string; } } }
    anydata ad;
    anyxml ax { mandatory true; }
  }
  container tc2 { leaf victim { type string; } container victim2 { leaf v { type string; } }
    action act { input { leaf ai { type string; } } output { leaf ao { type string; } } }
    notification nn { leaf nl { type string; } } }
  rpc trpc { input { leaf i { type string; } } output { leaf o { type string; } } }
  notification tn { leaf n { type string; } }
}
"""

# (path below /t:tc, deviate kind, [substatement (kw, arg) ...]); texts marked ADV get an adversarial string
DEVIATES = {
    "l1": [("delete", [("units", "u1")]), ("delete", [("default", "5")]), ("delete", [("must", ". > 0")]),
           ("delete", [("must", ". > 0"), ("must", ". < 100"), ("units", "u1")]),
           ("replace", [("type", "uint8")]), ("replace", [("units", "ADV")]), ("replace", [("default", "7")]),
           ("replace", [("type", "string"), ("units", "ADV"), ("default", "ADV")]),
           ("add", [("must", "XPATH"), ("must", "XPATH")]), ("replace", [("config", "false")]), ("add", [("config", "false")])],
    "l2": [("add", [("units", "ADV")]), ("add", [("default", "ADV")]), ("add", [("must", "XPATH")]), ("add", [("config", "false")]),
           ("add", [("mandatory", "true")]), ("add", [("units", "ADV"), ("default", "ADV"), ("must", "XPATH"), ("config", "false")]),
           ("replace", [("type", "TYPE")])],
    "l3": [("replace", [("mandatory", "false")]), ("replace", [("config", "false")]),
           ("replace", [("mandatory", "false"), ("config", "false")]), ("add", [("units", "ADV")])],
    "l4": [("delete", [("units", "u4"), ("default", "d4")]), ("replace", [("units", "ADV"), ("default", "ADV")]),
           ("delete", [("default", "d4")])],
    "ll1": [("delete", [("default", "a")]), ("delete", [("default", "a"), ("default", "b")]), ("replace", [("max-elements", "9")]),
            ("replace", [("max-elements", "unbounded")]), ("add", [("default", "ADV")]), ("add", [("default", "c"), ("default", "ADV")]),
            ("replace", [("min-elements", "0"), ("max-elements", "6")]), ("add", [("must", "XPATH")]),
            ("add", [("units", "ADV")])],
    "ll2": [("add", [("default", "1"), ("default", "2")]), ("add", [("min-elements", "1")]), ("add", [("max-elements", "3")]),
            ("add", [("max-elements", "unbounded")]), ("add", [("min-elements", "2"), ("max-elements", "4")]),
            ("add", [("config", "false")]), ("replace", [("type", "TYPE")])],
    "ll3": [("replace", [("min-elements", "0")]), ("replace", [("max-elements", "unbounded")]),
            ("replace", [("min-elements", "4294967295"), ("max-elements", "4294967295")]), ("replace", [("max-elements", "4294967294")]),
            ("replace", [("min-elements", "2"), ("max-elements", "2")])],
    "tl": [("add", [("unique", "d e")]), ("add", [("unique", "d"), ("unique", "e")]), ("delete", [("unique", "a")]),
           ("delete", [("unique", "b c")]), ("delete", [("unique", "a"), ("unique", "b c")]),
           ("add", [("min-elements", "1"), ("max-elements", "3")]), ("add", [("max-elements", "unbounded")]),
           ("add", [("must", "XPATH")]), ("add", [("config", "false")])],
    "tl2": [("replace", [("max-elements", "4294967295")]), ("add", [("min-elements", "3")]), ("replace", [("max-elements", "unbounded")]), ("replace", [("max-elements", "10")]), ("add", [("min-elements", "1")])],
    "inner": [("not-supported", []), ("add", [("must", "XPATH")]), ("add", [("config", "false")])],
    "inner2": [("delete", [("must", "x")]), ("add", [("must", "XPATH")])],
    "tch": [("add", [("default", "ca")]), ("add", [("mandatory", "true")]), ("add", [("config", "false")])],
    "tch2": [("delete", [("default", "cb")]), ("replace", [("default", "cb")])],
    "ad": [("add", [("mandatory", "true")]), ("add", [("config", "false")]), ("add", [("must", "XPATH")])],
    "ax": [("replace", [("mandatory", "false")]), ("not-supported", [])],
    "tl/a": [("add", [("units", "ADV")])],
    "inner/x": [("not-supported", [])],
}
DEV_OTHER = {"/t:tc2/t:victim": [("not-supported", [])], "/t:tc2/t:victim2": [("not-supported", [])],
             "/t:tc2/t:act": [("not-supported", [])], "/t:tc2/t:nn": [("not-supported", [])],
             "/t:trpc/t:input/t:i": [("add", [("units", "ADV")]), ("not-supported", [])],
             "/t:tn/t:n": [("add", [("default", "ADV")])]}

# foreign augment targets: (path, kind, config)
AUG_TARGETS = [("/t:tc", "container", True), ("/t:tc/t:inner", "container", True), ("/t:tc/t:tl", "list", True),
               ("/t:tc/t:tch", "choice", True), ("/t:tc/t:tch/t:ca", "case", True), ("/t:trpc/t:input", "input", None),
               ("/t:trpc/t:output", "output", None), ("/t:tn", "notification", None), ("/t:tc2/t:act/t:input", "input", None),
               ("/t:tc2/t:nn", "notification", None), ("/t:tc2", "container", True)]

INT_LIM = {"int8": (-2 ** 7, 2 ** 7 - 1), "int16": (-2 ** 15, 2 ** 15 - 1), "int32": (-2 ** 31, 2 ** 31 - 1), "int64": (-2 ** 63, 2 ** 63 - 1),
           "uint8": (0, 2 ** 8 - 1), "uint16": (0, 2 ** 16 - 1), "uint32": (0, 2 ** 32 - 1), "uint64": (0, 2 ** 64 - 1)}


def boundary_points(lo, hi):
    """type minimum, minimum + 1, -1, 0, 1, maximum - 1, maximum (those inside the type)"""
    return sorted({v for v in (lo, lo + 1, -1, 0, 1, hi - 1, hi) if lo <= v <= hi})


def boundary_range(rng, lo, hi, fmt=str):
    """a range / length argument made of boundary values, with the min / max keywords now and then -> (text, values)"""
    pts = boundary_points(lo, hi)
    pick = sorted(rng.sample(pts, rng.randrange(1, len(pts) + 1)))
    parts, vals, i = [], [], 0
    word = lambda v: "min" if v == lo and rng.random() < 0.4 else "max" if v == hi and rng.random() < 0.4 else fmt(v)   # noqa: E731
    while i < len(pick):
        if i + 1 < len(pick) and rng.random() < 0.5:
            parts.append(word(pick[i]) + rng.choice(["..", " .. "]) + word(pick[i + 1]))
            vals += [fmt(pick[i]), fmt(pick[i + 1])]
            i += 2
        else:
            parts.append(word(pick[i]))
            vals.append(fmt(pick[i]))
            i += 1
    return rng.choice([" | ", "|", " |\n "]).join(parts), vals


def dec_fmt(fd):
    def f(v):
        a = abs(v)
        return "%s%d.%0*d" % ("-" if v < 0 else "", a // 10 ** fd, fd, a % 10 ** fd)
    return f


ENUM_BOUNDS = [-2 ** 31, -2 ** 31 + 1, -1, 0, 1, 2 ** 31 - 2, 2 ** 31 - 1]
BIT_BOUNDS = [0, 1, 2 ** 32 - 2, 2 ** 32 - 1]
ELEM_BOUNDS = ["0", "1", "4294967294", "4294967295"]
# revision dates at calendar limits (what lysp_check_date accepts)
DATE_BOUNDS = ["1970-01-01", "9999-12-31", "2000-02-29", "1900-02-28", "2038-01-19", "0001-01-01"]

INTS = {"int8": True, "int16": True, "int32": True, "int64": True, "uint8": False, "uint16": False, "uint32": False,
        "uint64": False}
U_RANGES = [("1..10", ["1", "5", "10"]), ("0 | 2..4 | 100..max", ["0", "3", "100"]), ("min..5", ["0", "5"]), ("7", ["7"]),
            ("min .. max", ["0", "9"]), ("1..2|4..5", ["2", "4"])]
S_RANGES = [("-10..10", ["-10", "0", "7"]), ("min..-1 | 1..max", ["-1", "1"]), ("0..max", ["0", "9"]),
            ("-5 | 5", ["-5", "5"])]
D_RANGES = [("1.5..2.5", ["1.5", "2.0"]), ("-1.0..1.0 | 3.1", ["0.5", "3.1"]), ("min..0.0", ["-0.5", "0.0"])]
LENGTHS = [("0 | 18446744073709551615", 0, 0), ("min..1 | 18446744073709551614..max", 0, 1), ("min..max", 0, 10 ** 6),
           ("0..18446744073709551615", 0, 10 ** 6), ("1..10", 1, 10), ("0 | 2..max", 2, 60), ("min..5", 0, 5), ("3", 3, 3), ("0..4|6..20", 6, 20)]
PATTERNS = [("", [""]), ("[a-z]+", ["abc", "x"]), ("[0-9a-fA-F]*", ["0aF", ""]), ("\\d{1,3}", ["12", "7"]), ("[^\"']*", ["ab", "q r"]),
            ("\\p{L}+", ["éx", "ab"]), ("a|b|c c", ["a", "c c"]), ("[a-c\\n\\t ]*", ["a b", "abc"]),
            ("x\\\\y|[/*{};+]+|//", ["//", "{};", "x\\y"]), ("(ab)*\\.\\*", [".*", "ab.*"]), ("'[^']*'|\"q\"", ["'a'", "\"q\""])]
XPATH_T = ["true()", "1 = 1", "not(false())", "count(/*) >= 0", "string-length(%s) >= 0", "contains(%s, 'x') or true()",
           "%s != name()", ". = . or %s = %s", "starts-with(%s,\n    %s)\n  or\ttrue()", "current() = current()",
           "boolean(%s) or 1"]


def has_mand(st):
    if st.kw in ("typedef", "grouping") and getattr(st, "_inner", False):
        return False
    for c in st.subs:
        if (c.kw == "mandatory" and c.arg == "true") or (c.kw == "min-elements" and c.arg not in ("0",)):
            return True
        if c.kw == "uses":
            return True          # (not looked through)
        if has_mand(c):
            return True
    return False


BUILTIN_TYPES = {"int8", "int16", "int32", "int64", "uint8", "uint16", "uint32", "uint64", "decimal64", "string", "boolean",
                 "enumeration", "bits", "binary", "leafref", "identityref", "empty", "union", "instance-identifier"}


class TI:
    """a type statement with what the generator has to know about it"""

    def __init__(self, stmt, vals=(), kind="", adv=False):
        self.stmt, self.vals, self.kind, self.adv = stmt, list(vals), kind, adv

    def value(self, rng):
        if self.adv and (not self.vals or rng.random() < 0.8):
            return adv_text(rng, maxlen=60)
        return rng.choice(self.vals) if self.vals else None


class Ctx:
    """where data definitions are being generated"""

    def __init__(self, cfg=True, mand=True, actions=True, grouping=False, tds=(), keyless=False, top=False):
        self.cfg, self.mand, self.actions, self.grouping, self.tds, self.keyless = cfg, mand, actions, grouping, list(tds), keyless
        self.nouses = False
        self.scope = set()      # groupings already used in the namespace the definitions go to (choice / case share it)
        self.top = top          # directly in the module / an augment of a non-container: no action may be put here

    def sub(self, **kw):
        c = Ctx(self.cfg, self.mand, self.actions, self.grouping, self.tds, self.keyless, self.top)
        c.nouses = self.nouses
        c.scope = self.scope
        for k, v in kw.items():
            setattr(c, k, v)
        return c


class ModGen:
    """one module ym (+ submodule ym-s) per instance"""

    def __init__(self, rng, name="ym", submodule=True, ext_prob=0.07, size=1.0, nested=False):
        self.rng = rng
        self.nested = nested
        self.has_nested = False
        self.name = name
        self.subname = name + "-s" if submodule else None
        self.k = 0
        self.ext_prob = ext_prob
        self.size = size
        self.feats = []
        self.feat_iff = {}
        self.top_used = set()
        self.aug_uses_done = False
        self.td_depth = {}
        self.cond_idents = set()
        self.exports = {}         # grouping -> groupings whose nodes a uses of it puts into the namespace of the uses
        self.idents = {}          # name -> set of ancestors (incl. itself)
        self.typedefs = {}        # name -> TI of the typedef (module level)
        self.groupings = {}       # name -> grouping statement
        self.leaf_paths = []      # absolute paths of config true top-level leafs (leafref targets)
        self.P = "p"              # prefixes valid in the unit being generated
        self.X = "x"
        self.T = "t"
        self.M = "md"
        self.uses_meta = False
        self.nacm = False
        self.plugins = set()

    def nm(self, p):
        self.k += 1
        return "%s%d" % (p, self.k)

    def ch(self, p):
        return self.rng.random() < p

    # ---- common substatements ----
    def docs(self, st, p=0.25):
        if self.ch(p):
            st.add(S("description", adv_text(self.rng)))
        if self.ch(p / 2):
            st.add(S("reference", adv_text(self.rng)))
        return st

    def status(self, st, leafy=False, p=0.12):
        if self.ch(p):
            st.add(S("status", self.rng.choice(["current", "current", "deprecated", "obsolete"]) if leafy else "current"))
        return st

    def xlit(self):
        t = adv_text(self.rng, maxlen=30)
        if "'" not in t:
            return "'" + t + "'"
        if '"' not in t:
            return '"' + t + '"'
        return "'q'"

    def xpath(self, when=False):
        t = self.rng.choice([x for x in XPATH_T if not when or (". " not in x and "current()" not in x)])
        return t % tuple(self.xlit() for _ in range(t.count("%s"))) if "%s" in t else t

    def iff_expr(self, avail=None):
        """avail given: the if-feature of a feature; only earlier features, no negation, so that every prefix-closed
        set of features can be enabled"""
        rng = self.rng
        positive = avail is not None
        avail = self.feats if avail is None else avail
        names = [(self.P + ":" + f if self.ch(0.3) else f) for f in avail] + ([] if positive else [self.X + ":xf"])

        def e(d):
            r = rng.random()
            if d == 0 or r < 0.5:
                return rng.choice(names)
            if r < 0.65 and not positive:
                return "not " + e(d - 1)
            if r < 0.75:
                return "(" + e(d - 1) + ")"
            return "%s%s%s" % (e(d - 1), rng.choice([" and ", " or ", "\n and ", "  or\t"]), e(d - 1))
        return e(2)

    def iffs(self, st, p=0.15, avail=None):
        if self.ch(p):
            for _ in range(self.rng.choice([1, 1, 2])):
                st.add(S("if-feature", self.iff_expr(avail)))
        return st

    def when(self, st, p=0.1):
        if self.ch(p):
            st.add(self.docs(S("when", self.xpath(True)), 0.3))
        return st

    def must(self, st, p=0.15):
        if self.ch(p):
            for _ in range(self.rng.choice([1, 1, 2, 3])):
                m = S("must", self.xpath(st.kw not in ("leaf", "leaf-list")))
                if self.ch(0.4):
                    m.add(S("error-message", adv_text(self.rng)))
                if self.ch(0.4):
                    m.add(S("error-app-tag", adv_text(self.rng, maxlen=40)))
                self.docs(m, 0.3)
                self.rng.shuffle(m.subs)
                st.add(m)
        return st

    def restr_subs(self, r, p=0.3):
        if self.ch(p):
            r.add(S("error-message", adv_text(self.rng)))
        if self.ch(p):
            r.add(S("error-app-tag", adv_text(self.rng, maxlen=40)))
        self.docs(r, p)
        self.rng.shuffle(r.subs)
        return r

    # ---- types ----
    def t_int(self):
        rng = self.rng
        b = rng.choice(list(INTS))
        t = S("type", b)
        vals = ["0", "1", "100"]
        r = rng.random()
        if r < 0.35:
            # the limits of the type and the values next to them
            txt, vals = boundary_range(rng, *INT_LIM[b])
            t.add(self.restr_subs(S("range", txt)))
        elif r < 0.7:
            txt, vals = rng.choice(S_RANGES if INTS[b] and self.ch(0.7) else U_RANGES)
            t.add(self.restr_subs(S("range", txt)))
        return TI(t, vals, "int")

    def t_dec(self):
        rng = self.rng
        fd = rng.choice([1, 2, 3, 9, 17, 18, 1, 18])
        t = S("type", "decimal64").add(S("fraction-digits", str(fd)))
        vals = ["0.0", "1.5", "-2.5"] if fd < 18 else ["0.0", "1.5"]
        r = rng.random()
        if r < 0.4:
            txt, vals = boundary_range(rng, -2 ** 63, 2 ** 63 - 1, dec_fmt(fd))
            t.add(self.restr_subs(S("range", txt)))
        elif r < 0.7 and fd < 18:
            txt, vals = rng.choice(D_RANGES)
            t.add(self.restr_subs(S("range", txt)))
        rng.shuffle(t.subs)
        return TI(t, vals, "dec")

    def t_str(self):
        rng = self.rng
        t = S("type", "string")
        vals, adv = [], True
        lo, hi = 0, 10 ** 6
        if self.ch(0.4):
            txt, lo, hi = rng.choice(LENGTHS)
            t.add(self.restr_subs(S("length", txt)))
        if self.ch(0.45):
            adv = False
            pt, pv = rng.choice(PATTERNS)
            vals = [v for v in pv if lo <= len(v) <= hi]
            t.add(self.restr_subs(S("pattern", pt)))
            if self.ch(0.3):
                t.add(self.restr_subs(S("pattern", rng.choice(["[\\s\\S]*", ".*|\\n*"]))))
                if self.ch(0.5):
                    t.subs[-1].add(S("modifier", "invert-match"))
                    t.subs[-1].arg = rng.choice(["never-this-text-[0-9]{9}", "\\p{IsGreek}{40}"])
            if self.ch(0.25):
                t.add(self.restr_subs(S("pattern", "zz+top")).add(S("modifier", "invert-match")))
        elif lo > 0 or hi < 100:
            adv = False
            vals = ["a" * n for n in {max(lo, 1), min(hi, max(lo, 4))} if lo <= n <= hi]
        rng.shuffle(t.subs)
        return TI(t, vals, "str", adv)

    def t_enum(self):
        rng = self.rng
        t = S("type", "enumeration")
        names, vals = [], []
        mx = None                  # highest value so far: the next automatic value is mx + 1 (0 for the first enum)
        start = rng.choice([-5, 0, 0, 10])
        # boundary mode: every value explicit, from the limits of int32 and their neighbours, in any order (after
        # 2147483647 no automatic value is possible)
        bounds = rng.sample(ENUM_BOUNDS, len(ENUM_BOUNDS)) if self.ch(0.3) else None
        for _ in range(rng.choice([1, 2, 3, 5]) if bounds is None else rng.choice([1, 2, 4, 7])):
            n = adv_text(rng, maxlen=25, nonempty=True, strip=True)
            if n in names or any(ord(c) < 32 for c in n) or "\\" in n:
                continue
            names.append(n)
            e = S("enum", n)
            auto = 0 if mx is None else mx + 1
            r = rng.random()
            if bounds is not None:
                v = bounds.pop()
                e.add(S("value", str(v)))
            elif r < 0.3:
                v = (start if mx is None else mx) + rng.choice([1, 2, 10])
                e.add(S("value", str(v)))
            elif r < 0.45:
                v = auto
                e.add(S("value", str(v)))          # what would have been assigned anyway
            else:
                v = auto
            mx = v if mx is None else max(mx, v)
            plain = True
            if self.ch(0.15) and self.feats and names[1:]:
                self.iffs(e, 1.0)
                plain = False
            self.status(e, True)
            self.docs(e, 0.2)
            rng.shuffle(e.subs)
            if plain:
                vals.append(n)
            t.add(e)
        if not names:
            t.add(S("enum", self.nm("en")))
            vals = [t.subs[-1].arg]
        return TI(t, vals, "enum")

    def t_bits(self):
        rng = self.rng
        t = S("type", "bits")
        pos = rng.choice([0, 0, 3])
        names = []
        bounds = rng.sample(BIT_BOUNDS, len(BIT_BOUNDS)) if self.ch(0.3) else None      # (as for enum values)
        for _ in range(rng.choice([1, 2, 4])):
            n = self.nm("b")
            b = S("bit", n)
            r = rng.random()
            if bounds is not None:
                b.add(S("position", str(bounds.pop())))
            elif r < 0.3:
                pos += rng.choice([1, 5])
                b.add(S("position", str(pos)))
            elif r < 0.45:
                b.add(S("position", str(pos)))
            pos += 1
            plain = True
            if self.ch(0.15) and self.feats and t.subs:
                self.iffs(b, 1.0)
                plain = False
            self.status(b, True)
            self.docs(b, 0.2)
            rng.shuffle(b.subs)
            if plain:
                names.append(n)
            t.add(b)
        vals = names[:1] + ([" ".join(names[:2])] if len(names) > 1 else []) + [""]
        if any(int(b.val("position", "0")) >= 2 ** 32 - 2 for b in t.subs):
            # no default value for such a type: the bitmap of a value is sized by the highest position + 1, which wraps
            # to 0 for position 4294967295 (repaired by 2baac78, finding bits-position-max-bitmap) and is half a gigabyte
            # for 4294967294 and above: too much memory for every generated module
            vals = []
        return TI(t, vals, "bits")

    def t_idref(self):
        rng = self.rng
        roots = [i for i in self.idents]
        t = S("type", "identityref")
        if not roots or self.ch(0.2):
            t.add(S("base", self.X + ":idb"))
            return TI(t, [], "idref")       # (no default: the identities of a module that is only imported are not usable)
        b = rng.choice(roots)
        t.add(S("base", (self.P + ":" if self.ch(0.4) else "") + b))
        vals = [i for i, anc in self.idents.items() if b in anc and i != b and i not in self.cond_idents]
        if self.ch(0.2):
            # a second base: values must derive from both
            b2 = rng.choice(roots)
            if b2 != b:
                t.add(S("base", b2))
                vals = [i for i in vals if b2 in self.idents[i] and i != b2]
        return TI(t, [(self.P + ":" + v if self.ch(0.5) else v) for v in vals], "idref")

    def t_simple(self):
        r = self.rng.random()
        if r < 0.3:
            return TI(S("type", "boolean"), ["true", "false"], "bool")
        if r < 0.5:
            return TI(S("type", "empty"), [], "empty")
        if r < 0.7:
            t = S("type", "binary")
            if self.ch(0.5):
                t.add(self.restr_subs(S("length", self.rng.choice(["0..10", "min..max", "0..18446744073709551615",
                                                                   "0..3 | 18446744073709551614..max"]))))
            return TI(t, ["", "YWJj"], "bin")
        if r < 0.85:
            t = S("type", "instance-identifier")
            if self.ch(0.6):
                t.add(S("require-instance", self.rng.choice(["true", "false"])))
            return TI(t, [], "inst")
        return TI(S("type", self.X + ":xt"), ["abc"], "str")

    def t_leafref(self, rel=None):
        t = S("type", "leafref")
        if rel and self.ch(0.6):
            t.add(S("path", rel))
        elif self.leaf_paths:
            t.add(S("path", self.rng.choice(self.leaf_paths).replace("/", "/" + self.P + ":")))
        else:
            return self.t_int()
        if self.ch(0.4):
            t.add(S("require-instance", self.rng.choice(["true", "false"])))
        self.rng.shuffle(t.subs)
        return TI(t, [], "leafref")

    def t_union(self, depth):
        rng = self.rng
        t = S("type", "union")
        vals, adv = [], False
        for _ in range(rng.choice([1, 2, 3, 4])):
            m = self.type_any(depth - 1, key=False)
            t.add(m.stmt)
            vals += m.vals
            adv = adv or m.adv
        return TI(t, vals, "union", adv and False)

    def t_derived(self, tds):
        rng = self.rng
        name = rng.choice(tds)
        base = self.typedefs[name]
        t = S("type", (self.P + ":" if self.ch(0.3) and name in self.top_tds else "") + name)
        if base.kind == "str" and self.ch(0.3):
            t.add(self.restr_subs(S("pattern", "[\\s\\S]*")))
        return TI(t, base.vals, base.kind, base.adv)

    def type_any(self, depth=2, key=False, tds=(), rel=None):
        rng = self.rng
        for _ in range(20):
            r = rng.random()
            if tds and r < 0.25:
                ti = self.t_derived(list(tds))
            elif r < 0.4:
                ti = self.t_int()
            elif r < 0.55:
                ti = self.t_str()
            elif r < 0.65:
                ti = self.t_enum()
            elif r < 0.72:
                ti = self.t_bits()
            elif r < 0.78:
                ti = self.t_dec()
            elif r < 0.84:
                ti = self.t_idref()
            elif r < 0.9:
                ti = self.t_simple()
            elif r < 0.95 and depth > 0:
                ti = self.t_union(depth)
            else:
                ti = self.t_leafref(rel)
            if key and ti.kind in ("empty", "union", "leafref", "inst"):
                continue
            return ti
        return self.t_int()

    def typedef(self, tds=()):
        name = self.nm("td")
        # (chains of three typedefs: listed finding typedef-chain-inherit-null of C11, a crash)
        for _ in range(20):
            ti = self.type_any(2, tds=[t for t in tds if self.td_depth.get(t, 1) == 1])
            base = ti.stmt.arg.split(":")[-1]
            depth = 1 if ":" not in ti.stmt.arg and base not in self.typedefs else 1 + self.td_depth.get(base, 1)
            if depth <= 2:
                break
        else:
            ti, depth = self.t_int(), 1
        self.td_depth[name] = depth
        td = S("typedef", name).add(ti.stmt)
        if ti.kind != "empty" and self.ch(0.4):
            v = ti.value(self.rng)
            if v is not None:
                td.add(S("default", v))
        if self.ch(0.3):
            td.add(S("units", adv_text(self.rng, maxlen=40)))
        self.status(td)
        self.docs(td)
        self.rng.shuffle(td.subs)
        self.typedefs[name] = ti
        return td

    # ---- data definitions ----
    def leaf(self, ctx, key=False, name=None, rel=None):
        rng = self.rng
        lf = S("leaf", name or self.nm("k" if key else "l"))
        ti = self.type_any(2, key=key, tds=ctx.tds, rel=None if key else rel)
        lf.add(ti.stmt)
        lf.ti = ti
        if self.ch(0.25):
            lf.add(S("units", adv_text(rng, maxlen=40)))
        if not key:
            r = rng.random()
            v = ti.value(rng) if ti.kind not in ("empty", "leafref", "inst") else None
            if r < 0.35 and v is not None:
                lf.add(S("default", v))
            elif r < 0.5 and ctx.mand:
                lf.add(S("mandatory", "true"))
            elif r < 0.55:
                lf.add(S("mandatory", "false"))
            self.when(lf)
            self.iffs(lf)
            self.status(lf, True)
            if ctx.cfg is True and not ctx.grouping and self.ch(0.08):
                lf.add(S("config", rng.choice(["true", "false"])))
            elif ctx.cfg is False and not ctx.grouping and self.ch(0.05):
                lf.add(S("config", "false"))
        self.must(lf)
        self.docs(lf)
        rng.shuffle(lf.subs)
        return lf

    def leaflist(self, ctx):
        rng = self.rng
        ll = S("leaf-list", self.nm("ll"))
        ti = self.type_any(2, key=True, tds=ctx.tds)
        ll.add(ti.stmt)
        ll.ti = ti
        r = rng.random()
        nd = 0
        if r < 0.35 and ti.kind != "empty":
            vals = []
            for _ in range(rng.choice([1, 2, 3])):
                v = ti.value(rng)
                if v is not None and v not in vals:
                    vals.append(v)
            if ti.kind in ("dec", "int", "bits", "idref", "union", "bin"):
                vals = vals[:1]                 # (distinct canonical values)
            for v in vals:
                ll.add(S("default", v))
            nd = len(vals)
        elif r < 0.5 and ctx.mand:
            ll.add(S("min-elements", rng.choice(["1", "2", "1", "4294967294", "4294967295"])))
        elif r < 0.55:
            ll.add(S("min-elements", "0"))
        if self.ch(0.3):
            mn = int(ll.val("min-elements", "0"))
            mx = rng.choice(["unbounded", "3", str(max(2, nd)), "1", "4294967294", "4294967295"])
            if mx != "unbounded" and int(mx) < max(mn, nd):
                mx = "unbounded"
            ll.add(S("max-elements", mx))
        if self.ch(0.25):
            ll.add(S("ordered-by", rng.choice(["user", "system"])))
        if self.ch(0.2):
            ll.add(S("units", adv_text(rng, maxlen=40)))
        self.when(ll)
        self.iffs(ll)
        self.status(ll, True)
        self.must(ll)
        self.docs(ll)
        if ctx.cfg is True and not ctx.grouping and self.ch(0.06):
            ll.add(S("config", rng.choice(["true", "false"])))
        rng.shuffle(ll.subs)
        return ll

    def anyd(self, ctx):
        rng = self.rng
        a = S(rng.choice(["anydata", "anyxml"]), self.nm("an"))
        if self.ch(0.2) and ctx.mand:
            a.add(S("mandatory", "true"))
        elif self.ch(0.1):
            a.add(S("mandatory", "false"))
        self.when(a)
        self.iffs(a)
        self.must(a)
        self.status(a, True)
        self.docs(a)
        if ctx.cfg is True and not ctx.grouping and self.ch(0.1):
            a.add(S("config", rng.choice(["true", "false"])))
        rng.shuffle(a.subs)
        return a

    def local_defs(self, st, ctx, p=0.2):
        """typedef / grouping inside a statement; returns the context for its children"""
        c = ctx
        if self.ch(p):
            tds = list(ctx.tds)
            for _ in range(self.rng.choice([1, 2])):
                td = self.typedef(tds)
                st.add(td)
                tds.append(td.arg)
            c = ctx.sub(tds=tds)
        if self.ch(p / 2):
            st.add(self.grouping(local=True))
        return c

    def cfg_of(self, st, ctx):
        """config statement of an inner node and the resulting context"""
        if ctx.cfg is True and not ctx.grouping and self.ch(0.12):
            v = self.rng.choice(["true", "false", "false"])
            st.add(S("config", v))
            return ctx.sub(cfg=(v == "true"), keyless=(v == "false"))
        if ctx.cfg is False and not ctx.grouping and self.ch(0.05):
            st.add(S("config", "false"))
        return ctx

    def container(self, ctx, depth):
        rng = self.rng
        c = S("container", self.nm("c"))
        cc = self.cfg_of(c, ctx)
        if ctx.top:
            ctx = cc = cc.sub(top=False, actions=True)
        if self.ch(0.3):
            c.add(S("presence", adv_text(rng, maxlen=60)))
            cc = cc.sub(mand=True) if not ctx.grouping and ctx.mand is not None else cc
        self.when(c)
        self.iffs(c)
        self.must(c)
        self.status(c)
        self.docs(c)
        cc = self.local_defs(c, cc)
        c.subs += self.ddefs(cc, depth - 1, rng.choice([0, 1, 2, 3]))
        if ctx.actions and self.ch(0.15):
            c.add(self.action(cc))
        if ctx.actions and self.ch(0.12):
            c.add(self.notification(cc, nested=True))
        rng.shuffle(c.subs)
        return c

    def lst(self, ctx, depth):
        rng = self.rng
        li = S("list", self.nm("li"))
        cc = self.cfg_of(li, ctx)
        if ctx.top:
            ctx = cc = cc.sub(top=False, actions=True)
        keyless = (cc.cfg is None or cc.cfg is False or cc.keyless) and not ctx.grouping and self.ch(0.3)
        cc = self.local_defs(li, cc)
        keys = [] if keyless else [self.leaf(cc, key=True) for _ in range(rng.choice([1, 1, 2, 3]))]
        if keys:
            li.add(S("key", rng.choice([" ", " ", "  ", "\n ", "\t"]).join(k.arg for k in keys)))
        li.subs += keys
        inner = cc.sub(actions=cc.actions and bool(keys))
        kids = self.ddefs(inner, depth - 1, rng.choice([1, 2, 3]))
        li.subs += kids
        cands = [k.arg for k in kids if k.kw == "leaf" and k.ti.kind != "empty" and not k.find("when") and
                 not k.find("if-feature") and not k.find("config") and not k.find("status")]
        for k in kids:
            if k.kw == "container" and not k.find("when") and not k.find("if-feature") and not k.find("config") and \
                    not k.find("status"):
                cands += [k.arg + "/" + x.arg for x in k.subs if x.kw == "leaf" and x.ti.kind != "empty" and
                          not x.find("when") and not x.find("if-feature") and not x.find("config") and not x.find("status")]
        li.uniq = set()
        if cands and self.ch(0.4):
            seen = []
            for _ in range(rng.choice([1, 2, 3])):
                u = sorted(rng.sample(cands, min(len(cands), rng.choice([1, 1, 2]))))
                if u not in seen:
                    seen.append(u)
                    li.uniq |= set(u)
                    li.add(S("unique", rng.choice([" ", "  ", "\n  "]).join(u)))
        r = rng.random()
        if r < 0.2 and ctx.mand:
            li.add(S("min-elements", rng.choice(["1", "2", "1", "4294967294", "4294967295"])))
        elif r < 0.25:
            li.add(S("min-elements", "0"))
        if self.ch(0.3):
            mx = rng.choice(["unbounded", "2", "10", "1", "4294967294", "4294967295"])
            if mx != "unbounded" and int(mx) < int(li.val("min-elements", "0")):
                mx = "unbounded"
            li.add(S("max-elements", mx))
        if self.ch(0.25):
            li.add(S("ordered-by", rng.choice(["user", "system"])))
        self.when(li)
        self.iffs(li)
        self.must(li)
        self.status(li)
        self.docs(li)
        if inner.actions and self.ch(0.12):
            li.add(self.action(inner))
        if inner.actions and self.ch(0.1):
            li.add(self.notification(inner, nested=True))
        rng.shuffle(li.subs)
        return li

    def choice(self, ctx, depth):
        rng = self.rng
        ch = S("choice", self.nm("ch"))
        cc = self.cfg_of(ch, ctx)
        r = rng.random()
        want_default = r < 0.35
        inner = cc.sub(mand=cc.mand and not want_default, actions=False, top=False)
        cases = []
        for _ in range(rng.choice([1, 2, 3, 4])):
            if self.ch(0.4):
                k = rng.random()
                sh = self.leaf(inner) if k < 0.4 else self.leaflist(inner) if k < 0.55 else self.anyd(inner) if k < 0.65 else \
                    self.container(inner, depth - 1) if k < 0.8 else self.lst(inner, depth - 1) if k < 0.9 or depth < 1 else \
                    self.choice(inner, depth - 1)       # (a nested choice shares the namespace: inner.scope)
                cases.append(sh)
            else:
                cs = S("case", self.nm("cs"))
                self.when(cs)
                self.iffs(cs)
                self.status(cs)
                self.docs(cs)
                cs.subs += self.ddefs(inner, depth - 1, rng.choice([0, 1, 2]), newscope=False)
                rng.shuffle(cs.subs)
                cases.append(cs)
        if want_default:
            d = rng.choice(cases)
            d.drop("if-feature")
            d.drop("when")
            ch.add(S("default", d.arg))
        elif r < 0.5 and ctx.mand:
            ch.add(S("mandatory", "true"))
        elif r < 0.55:
            ch.add(S("mandatory", "false"))
        self.when(ch)
        self.iffs(ch)
        self.status(ch)
        self.docs(ch)
        ch.subs += cases
        rng.shuffle(ch.subs)
        return ch

    def ddefs(self, ctx, depth, n, newscope=True):
        rng = self.rng
        out = []
        if newscope and not ctx.top:
            ctx = ctx.sub()
            ctx.scope = set()
        here = ctx.scope
        for _ in range(n):
            r = rng.random()
            if r < 0.38 or depth <= 0:
                out.append(self.leaf(ctx))
            elif r < 0.5:
                out.append(self.leaflist(ctx))
            elif r < 0.56:
                out.append(self.anyd(ctx))
            elif r < 0.7:
                out.append(self.container(ctx, depth))
            elif r < 0.8:
                out.append(self.lst(ctx, depth))
            elif r < 0.9:
                out.append(self.choice(ctx, depth))
            else:
                u = self.uses(ctx) if not ctx.nouses else None
                if u is not None:
                    # the same grouping twice in one namespace would define its nodes twice
                    g = u.arg.split(":")[-1]
                    exp = self.exports.get(g, {g})
                    sc = here
                    if exp & sc:
                        u = None
                    else:
                        sc |= exp
                out.append(u if u is not None else self.leaf(ctx))
        return out

    def inout(self, kw, ctx):
        io = S(kw)
        self.must(io, 0.3)
        cc = self.local_defs(io, ctx, 0.25)
        io.subs += self.ddefs(cc, 1, self.rng.choice([1, 1, 2]))
        self.rng.shuffle(io.subs)
        return io

    def action(self, ctx, kw="action"):
        rng = self.rng
        a = S(kw, self.nm("op"))
        cc = ctx.sub(cfg=None, actions=False, mand=True, keyless=True, top=False)
        self.iffs(a)
        self.status(a)
        self.docs(a)
        cc = self.local_defs(a, cc, 0.25)
        if self.ch(0.7):
            a.add(self.inout("input", cc))
        if self.ch(0.6):
            a.add(self.inout("output", cc))
        rng.shuffle(a.subs)
        return a

    def notification(self, ctx, nested=False):
        rng = self.rng
        n = S("notification", self.nm("nt"))
        cc = ctx.sub(cfg=None, actions=False, mand=True, keyless=True, top=False)
        self.iffs(n)
        self.must(n)
        self.status(n)
        self.docs(n)
        cc = self.local_defs(n, cc, 0.25)
        n.subs += self.ddefs(cc, 1, rng.choice([0, 1, 2]))
        rng.shuffle(n.subs)
        return n

    # ---- groupings, uses, refine ----
    def grouping(self, local=False):
        rng = self.rng
        g = S("grouping", self.nm("g"))
        ctx = Ctx(cfg=True, mand=True, actions=False, grouping=True)
        self.status(g)
        self.docs(g)
        cc = self.local_defs(g, ctx, 0.15) if not local else ctx
        cc = cc.sub()
        cc.scope = {g.arg}
        g.subs += self.ddefs(cc, 2 if not local else 1, rng.choice([1, 2, 3, 4]), newscope=False)
        self.exports[g.arg] = cc.scope
        if self.ch(0.2):
            g.add(self.action(cc.sub(actions=True)))
        if self.ch(0.15):
            g.add(self.notification(cc, nested=True))
        g.has_ops = any(s.kw in ("action", "notification") for s in g.subs)
        g.has_mand = has_mand(g)
        rng.shuffle(g.subs)
        if not local:
            self.groupings[g.arg] = g
        return g

    def gnodes(self, stmts, prefix="", in_dflt_case=False, keys=(), uniq=()):
        """(path, statement, flags) of the nodes a uses of these statements instantiates (nested uses without refine are
        looked through; anything a nested uses refines is left alone)"""
        out = []
        for s in stmts:
            if s.kw == "uses":
                g = self.groupings.get(s.arg.split(":")[-1])
                if g is not None and ":" not in s.arg[:0] and not s.arg.startswith(self.X + ":"):
                    touched = {r.arg.split("/")[0] for r in s.findall("refine")} | {a.arg.split("/")[0] for a in s.findall("augment")}
                    for p, n, f in self.gnodes(g.subs, prefix, in_dflt_case or bool(s.find("when")) and False, keys, uniq):
                        if p[len(prefix):].split("/")[0] not in touched:
                            out.append((p, n, dict(f, nested=True)))
                continue
            if s.kw not in ("container", "leaf", "leaf-list", "list", "choice", "case", "anydata", "anyxml"):
                continue
            p = prefix + s.arg
            out.append((p, s, {"dflt_case": in_dflt_case, "key": s.arg in keys, "uniq": s.arg in uniq}))
            if s.kw == "choice":
                d = s.val("default")
                for c in s.subs:
                    if c.kw == "case":
                        sub = self.gnodes([c], p + "/", c.arg == d)
                        if c.arg == d:
                            sub[0][2]["is_dflt"] = True
                        out += sub
                    elif c.kw in ("container", "leaf", "leaf-list", "list", "choice", "anydata", "anyxml"):
                        # shorthand: the implicit case is part of the path
                        out += self.gnodes([c], p + "/" + c.arg + "/", c.arg == d)
            elif s.kw in ("container", "case"):
                below = {u.split("/", 1)[1] for u in uniq if u.startswith(s.arg + "/")}
                out += self.gnodes(s.subs, p + "/", in_dflt_case and s.kw == "case" or (in_dflt_case and not s.find("presence")),
                                   (), below | {u.split("/")[0] for u in below})
            elif s.kw == "list":
                ks = s.val("key", "").split()
                un = {u.split("/")[0] for u in getattr(s, "uniq", ())} | {u for u in getattr(s, "uniq", ())}
                out += self.gnodes(s.subs, p + "/", False, ks, un)
        return out

    def refine(self, path, n, f, ctx, force=None):
        """a refine of node n with a random non-empty set of the substatements that may be refined there"""
        rng = self.rng
        rf = S("refine", path)
        opts = {}
        iskey = f["key"]
        if not iskey and not f.get("is_dflt") and not f["dflt_case"] and not f["uniq"]:
            # (nor into a leaf named by a unique statement: dangling pointer in the compiled list as well)
            # (an if-feature refined into the default case of a choice: libyang keeps a dangling pointer to the disabled
            # case and crashes - reported, not a C10 matter)
            opts["if-feature"] = lambda: [S("if-feature", self.iff_expr()) for _ in range(rng.choice([1, 2]))]
        opts["description"] = lambda: [S("description", adv_text(rng))]
        opts["reference"] = lambda: [S("reference", adv_text(rng))]
        mand_ok = ctx.mand and not f["dflt_case"] and not iskey and not n.find("when")
        cfg_ok = ctx.cfg is not None and not iskey and not f["uniq"] and n.kw != "case"
        if n.kw in ("leaf", "leaf-list", "container", "list", "anydata", "anyxml"):
            opts["must"] = lambda: [S("must", self.xpath(n.kw not in ("leaf", "leaf-list"))) for _ in range(rng.choice([1, 1, 2]))]
        if n.kw == "leaf" and not iskey:
            ti = n.ti
            has_d, is_m = n.find("default") is not None, n.val("mandatory") == "true"
            if not is_m and ti.kind not in ("empty", "leafref", "inst") and ti.value(rng) is not None:
                opts["default"] = lambda: [S("default", ti.value(rng))]
            if not has_d and mand_ok:
                opts["mandatory"] = lambda: [S("mandatory", "true")]
            elif not has_d:
                opts["mandatory"] = lambda: [S("mandatory", "false")]
        elif n.kw == "leaf-list":
            ti = n.ti
            mn = int(n.val("min-elements", "0"))
            nd = len(n.findall("default"))
            if mn == 0 and ti.kind == "str" and ti.value(rng) is not None:
                def dfl():
                    vals = []
                    for _ in range(rng.choice([1, 2, 3])):
                        v = ti.value(rng)
                        if v not in vals:
                            vals.append(v)
                    return [S("default", v) for v in vals]
                opts["default"] = dfl
            if nd == 0 and mand_ok:
                opts["min-elements"] = lambda: [S("min-elements", str(rng.choice([1, 2])))]
            else:
                opts["min-elements"] = lambda: [S("min-elements", "0")]
            opts["max-elements"] = lambda: [S("max-elements", rng.choice(["unbounded", "unbounded", "5", "77", "4294967294", "4294967295"]))]
        elif n.kw == "list":
            if mand_ok:
                opts["min-elements"] = lambda: [S("min-elements", str(rng.choice([0, 1, 2])))]
            opts["max-elements"] = lambda: [S("max-elements", rng.choice(["unbounded", "unbounded", "5", "77", "4294967294", "4294967295"]))]
        elif n.kw == "container":
            opts["presence"] = lambda: [S("presence", adv_text(rng, maxlen=50))]
        elif n.kw == "choice":
            has_d, is_m = n.find("default") is not None, n.val("mandatory") == "true"
            if not has_d and mand_ok:
                opts["mandatory"] = lambda: [S("mandatory", rng.choice(["true", "false"]))]
        elif n.kw in ("anydata", "anyxml"):
            if mand_ok:
                opts["mandatory"] = lambda: [S("mandatory", rng.choice(["true", "false"]))]
        if cfg_ok and n.kw != "choice":
            if ctx.cfg is True:
                # config false only where nothing below says config true and no key / unique is involved: leaf nodes
                if n.kw in ("leaf", "leaf-list", "anydata", "anyxml"):
                    opts["config"] = lambda: [S("config", rng.choice(["true", "false"]))]
                else:
                    opts["config"] = lambda: [S("config", "true")]
            else:
                opts["config"] = lambda: [S("config", "false")]
        if f.get("nested"):
            # what a nested uses may have given the node is not tracked: only the harmless ones
            opts = {k: v for k, v in opts.items() if k in ("description", "reference", "must", "max-elements", "presence")}
        names = sorted(opts)
        if force:
            pick = [k for k in force if k in opts]
        else:
            k = rng.choice([1, 1, 1, 2, 2, 3, len(names)])
            pick = rng.sample(names, min(k, len(names)))
        if "default" in pick and "mandatory" in pick and any(s.arg == "true" for s in opts["mandatory"]()):
            pick.remove("mandatory")
        if "default" in pick and "min-elements" in pick:
            pick.remove("min-elements")
        n.refined = True
        for k in pick:
            rf.subs += opts[k]()
        if "default" in pick and n.kw == "leaf":
            rf.subs = [s for s in rf.subs if not (s.kw == "mandatory" and s.arg == "true")]
        if not rf.subs:
            return None
        rng.shuffle(rf.subs)
        return rf

    def uses(self, ctx, gname=None, systematic=None):
        rng = self.rng
        cands = [g for g in self.groupings.values() if (ctx.actions or not g.has_ops) and (ctx.mand or not g.has_mand)]
        if gname is None and (not cands or self.ch(0.15)):
            u = S("uses", self.X + ":xg")
            self.when(u)
            self.iffs(u)
            self.docs(u)
            if self.ch(0.5):
                u.add(S("refine", rng.choice(["xgl", "xgc", "xgc/xgll"])).add(S("description", adv_text(rng))))
            if self.ch(0.4):
                u.add(S("augment", "xgc").add(self.leaf(ctx.sub(mand=False))))
            rng.shuffle(u.subs)
            return u
        g = self.groupings[gname] if gname else rng.choice(cands)
        u = S("uses", (self.P + ":" if self.ch(0.3) and g.arg in self.top_groupings else "") + g.arg)
        if g.arg not in self.top_groupings and gname is None:
            return None
        self.when(u)
        self.iffs(u)
        self.status(u)
        self.docs(u)
        nodes = self.gnodes(g.subs)
        rng.shuffle(nodes)
        done = []
        free = lambda p: not any(p == d or p.startswith(d + "/") or d.startswith(p + "/") for d in done)   # noqa: E731
        if systematic is not None:
            for p, n, f in nodes:
                rf = self.refine(p, n, f, ctx, force=systematic)
                if rf is not None and free(p):
                    done.append(p)
                    u.add(rf)
        else:
            for p, n, f in nodes[:rng.choice([0, 1, 1, 2, 3, 5])]:
                rf = self.refine(p, n, f, ctx) if free(p) else None
                if rf is not None:
                    done.append(p)
                    u.add(rf)
        tgts = [(p, n) for p, n, f in nodes if n.kw in ("container", "list", "choice", "case") and free(p) and not f.get("nested")]
        if tgts and self.ch(0.35):
            p, n = rng.choice(tgts)
            ag = S("augment", p)
            self.when(ag)
            self.iffs(ag)
            self.status(ag)
            self.docs(ag)
            inner = ctx.sub(mand=False, actions=False, grouping=ctx.grouping or ctx.cfg is None)
            inner.nouses = True
            if n.kw == "choice":
                ag.add(S("case", self.nm("cs")).add(self.leaf(inner)))
                if self.ch(0.5):
                    ag.add(self.leaf(inner))
            else:
                ag.subs += self.ddefs(inner.sub(grouping=True), 1, rng.choice([1, 2]))
            rng.shuffle(ag.subs)
            u.add(ag)
        rng.shuffle(u.subs)
        return u

    # ---- module level ----
    def feature(self):
        f = S("feature", self.nm("f"))
        if self.feats:
            self.iffs(f, 0.3, avail=list(self.feats))
        self.status(f)
        self.docs(f)
        self.rng.shuffle(f.subs)
        self.feats.append(f.arg)
        self.feat_iff[f.arg] = [x.arg for x in f.findall("if-feature")]
        return f

    def identity(self):
        rng = self.rng
        i = S("identity", self.nm("i"))
        anc = {i.arg}
        if self.idents and self.ch(0.7):
            for b in rng.sample(sorted(self.idents), min(len(self.idents), rng.choice([1, 1, 2]))):
                i.add(S("base", (self.P + ":" if self.ch(0.3) else "") + b))
                anc |= self.idents[b]
        if self.ch(0.15):
            i.add(S("base", self.X + ":idb"))
        self.iffs(i, 0.15)
        self.status(i)
        self.docs(i)
        rng.shuffle(i.subs)
        self.idents[i.arg] = anc
        if i.find("if-feature"):
            self.cond_idents.add(i.arg)
        return i

    def feature_set(self, want):
        """largest subset of want in which the if-feature of every enabled feature holds"""
        from props.comps_flatten import iff_parse, iff_eval
        on = set(want)
        while True:
            env = {f: f in on for f in self.feats}
            env["xf"] = False
            bad = [f for f in on if not all(iff_eval(iff_parse(e), env) for e in self.feat_iff.get(f, []))]
            if not bad:
                return sorted(on)
            on -= set(bad)

    def extension(self, name, arg, yinel):
        e = S("extension", name)
        if arg:
            a = S("argument", arg)
            if yinel is not None:
                a.add(S("yin-element", "true" if yinel else "false"))
            e.add(a)
        self.status(e)
        self.docs(e)
        self.rng.shuffle(e.subs)
        return e

    def own_augment(self, unit_nodes):
        """augment of a node written directly in this module: (path, statement) candidates are collected by walking"""
        rng = self.rng
        cands = []

        def walk(nodes, path, cfg, in_op, in_choice):
            for n in nodes:
                if n.kw not in ("container", "list", "choice", "case", "rpc", "action", "input", "output", "notification"):
                    continue
                c = cfg
                if n.find("config"):
                    c = n.val("config") == "true" and cfg is not False
                if n.kw in ("rpc", "action", "notification"):
                    c = None
                name = n.arg if n.arg is not None else n.kw
                segs = [name] if not (in_choice and n.kw != "case") else [name, name]
                p = path + "".join("/%s:%s" % (self.P, s) for s in segs)
                if n.kw not in ("rpc", "action"):
                    cands.append((p, n, c, in_op or n.kw in ("input", "output", "notification")))
                walk(n.subs, p, c, in_op or n.kw in ("rpc", "action", "notification"), n.kw == "choice")
        walk(unit_nodes, "", True, False, False)
        if not cands:
            return None
        p, n, cfg, in_op = rng.choice(cands)
        ag = S("augment", p)
        self.when(ag, 0.3)
        self.iffs(ag, 0.25)
        self.status(ag)
        self.docs(ag)
        ctx = Ctx(cfg=cfg, mand=not ag.find("when") and False, actions=False, keyless=cfg is not True, top=cfg is not None)
        ctx.nouses = True
        if n.kw == "choice":
            ag.add(S("case", self.nm("cs")).add(*self.ddefs(ctx, 1, rng.choice([1, 2]))))
            if self.ch(0.5):
                ag.add(self.leaf(ctx))
        else:
            ag.subs += self.ddefs(ctx, 1, rng.choice([1, 2, 3]))
            if n.kw == "container" and not in_op and self.ch(0.3):
                ag.add(self.action(ctx))
            if n.kw == "container" and not in_op and self.ch(0.2):
                ag.add(self.notification(ctx, nested=True))
        rng.shuffle(ag.subs)
        return ag

    def foreign_augment(self):
        rng = self.rng
        p, kind, cfg = rng.choice(AUG_TARGETS)
        ag = S("augment", p.replace("/t:", "/" + self.T + ":"))
        self.when(ag, 0.3)
        self.iffs(ag, 0.25)
        self.status(ag)
        self.docs(ag)
        ctx = Ctx(cfg=cfg, mand=False, actions=False, keyless=cfg is not True, top=cfg is not None)
        ctx.nouses = True
        if kind == "choice":
            ag.add(S("case", self.nm("cs")).add(*self.ddefs(ctx, 1, rng.choice([1, 2]))))
            if self.ch(0.5):
                ag.add(self.leaf(ctx))
        else:
            ag.subs += self.ddefs(ctx, 1, rng.choice([1, 2, 3]))
            if kind == "container" and self.ch(0.3):
                ag.add(self.action(ctx))
            if kind == "container" and self.ch(0.2):
                ag.add(self.notification(ctx, nested=True))
        if not self.aug_uses_done and kind != "choice" and self.ch(0.4):
            # (once per module: the nodes of the grouping must not arrive twice in one target)
            self.aug_uses_done = True
            ag.add(self.docs(S("uses", self.X + ":xg")))
        rng.shuffle(ag.subs)
        return ag

    def deviate_subs(self, items):
        rng = self.rng
        out = []
        for kw, arg in items:
            if arg == "ADV":
                arg = adv_text(rng, maxlen=40)
            elif arg == "XPATH":
                arg = self.xpath()
            if kw == "type":
                if arg == "TYPE":
                    ti = rng.choice([self.t_int, self.t_str, self.t_enum, self.t_bits, self.t_dec])()
                    out.append(ti.stmt)
                else:
                    out.append(S("type", arg))
            else:
                out.append(S(kw, arg))
        rng.shuffle(out)
        return out

    def deviations(self, n, systematic=False, round_=None):
        rng = self.rng
        out = []
        pool = [("/t:tc/" + "/".join("t:" + s for s in k.split("/")), v) for k, v in DEVIATES.items()] + list(DEV_OTHER.items())
        rng.shuffle(pool)
        used = []
        for path, alts in pool:
            if len(out) >= n and not systematic:
                break
            if any(path.startswith(u + "/") or u.startswith(path + "/") for u in used):
                continue
            used.append(path)
            dv = S("deviation", path.replace("/t:", "/" + self.T + ":"))
            self.docs(dv)
            kind, items = rng.choice(alts) if round_ is None else alts[round_ % len(alts)]
            d = S("deviate", kind)
            d.subs += self.deviate_subs(items)
            dv.add(d)
            if kind != "not-supported" and self.ch(0.3):
                # a second deviate of another kind that touches other properties
                for k2, it2 in rng.sample(alts, len(alts)):
                    if k2 not in (kind, "not-supported") and not ({a for a, _ in it2} & {a for a, _ in items}) and \
                            not ({"default", "mandatory"} <= ({a for a, _ in it2} | {a for a, _ in items})) and \
                            "type" not in ({a for a, _ in it2} | {a for a, _ in items}) and \
                            "config" not in ({a for a, _ in it2} | {a for a, _ in items}):
                        dv.add(S("deviate", k2).add(*self.deviate_subs(it2)))
                        break
            rng.shuffle(dv.subs)
            out.append(dv)
        return out

    def plain_ddefs(self, n, depth=1):
        """content of sx:structure / rc:yang-data: it is kept as generic statements, so that (with the listed findings
        avoided) no text statement and no argument that needs quotes may be in it"""
        rng = self.rng
        out = []
        adv = not avoid("yin-ext-substmt-unquoted")
        for _ in range(n):
            r = rng.random()
            if r < 0.5 or depth <= 0:
                lf = S(rng.choice(["leaf", "leaf", "leaf-list"]), self.nm("pl"))
                t = S("type", rng.choice(["string", "int8", "boolean", "uint64"]))
                if t.arg == "string" and self.ch(0.3):
                    t.add(S("length", "1..5" if not adv else "1 .. 5 | 7"))
                lf.add(t)
                if self.ch(0.3):
                    lf.add(S("units", self.nm("u") if not adv else adv_text(rng, maxlen=20)))
                if lf.kw == "leaf" and self.ch(0.3):
                    lf.add(S("mandatory", rng.choice(["true", "false"])))
                if not avoid("yin-ext-substmt-text"):
                    self.docs(lf, 0.4)
                rng.shuffle(lf.subs)
                out.append(lf)
            elif r < 0.75:
                c = S("container", self.nm("pc"))
                if self.ch(0.3):
                    c.add(S("presence", self.nm("w") if not adv else adv_text(rng, maxlen=20)))
                c.subs += self.plain_ddefs(rng.choice([1, 2]), depth - 1)
                out.append(c)
            else:
                li = S("list", self.nm("pli"))
                k = S("leaf", self.nm("pk")).add(S("type", "string"))
                li.add(S("key", k.arg), k)
                li.subs += self.plain_ddefs(1, depth - 1)
                rng.shuffle(li.subs)
                out.append(li)
        return out

    def plugin_ext(self, which):
        """instances of the extensions libyang has plugins for"""
        rng = self.rng
        if which == "annotation":
            a = S(self.M + ":annotation", self.nm("ann"))
            if avoid("yin-ext-substmt-unquoted") or avoid("yin-ext-substmt-text"):
                # (the content of the instance is kept as generic statements)
                t = S("type", rng.choice(["string", "int8", "boolean", "uint64"]))
                if t.arg == "string" and self.ch(0.4):
                    t.add(S("length", "1..5"))
                if t.arg == "int8" and self.ch(0.4):
                    t.add(S("range", "1..5").add(S("error-app-tag", "tag")))
                a.add(t)
            else:
                ti = rng.choice([self.t_str, self.t_int, self.t_enum, self.t_simple])()
                while ti.kind in ("empty", "inst"):
                    ti = self.t_int()
                a.add(ti.stmt)
            if self.ch(0.4):
                a.add(S("units", "u" if avoid("yin-ext-substmt-unquoted") else adv_text(rng, maxlen=30)))
            if not avoid("ext-disabled-stale-slot"):
                self.iffs(a, 0.3)
            self.status(a)
            if not avoid("yin-ext-substmt-text"):
                self.docs(a, 0.6)
            rng.shuffle(a.subs)
            return a
        if which == "structure":
            st = S("sx:structure", self.nm("sxs"))
            st.subs += self.plain_ddefs(rng.choice([1, 2, 3]))
            return st
        if which == "yang-data":
            st = S("rc:yang-data", self.nm("yd"))
            c = S("container", self.nm("c"))
            c.subs += self.plain_ddefs(rng.choice([1, 2]))
            st.add(c)
            return st
        return None

    GENERIC = [("units", "ID"), ("default", "ID"), ("config", "true"), ("mandatory", "false"), ("status", "current"),
               ("presence", "ID"), ("max-elements", "7"), ("min-elements", "0"), ("value", "3"), ("position", "4"),
               ("error-app-tag", "ID"), ("prefix", "ID"), ("ordered-by", "user"), ("yin-element", "true"),
               ("fraction-digits", "2"), ("require-instance", "false"), ("key", "ID"), ("unique", "ID"), ("base", "ID"),
               ("if-feature", "ID"), ("namespace", "urn:ID"), ("must", "ID"), ("when", "ID"), ("path", "../ID"),
               ("pattern", "ID"), ("range", "1..2"), ("length", "1..2"), ("enum", "ID"), ("bit", "ID"),
               ("revision-date", "2020-01-01"), ("modifier", "invert-match"), ("yang-version", "1.1"), ("argument", "ID"),
               ("belongs-to", "ID"), ("refine", "ID"), ("augment", "/ID"), ("deviate", "add"), ("deviation", "/ID")]
    GENERIC_BLOCK = ["container", "leaf", "leaf-list", "list", "choice", "case", "anydata", "anyxml", "grouping", "typedef",
                     "uses", "rpc", "action", "notification", "input", "output", "type", "feature", "identity", "extension",
                     "import", "include", "revision"]
    GENERIC_TEXT = ["description", "reference", "contact", "organization", "error-message"]

    def generic_stmts(self, depth=1):
        """substatements of an extension instance of an extension without a plugin: any YANG statement is accepted there
        as a generic statement"""
        rng = self.rng
        out = []
        for _ in range(rng.choice([1, 1, 2, 3])):
            r = rng.random()
            if r < 0.5:
                kw, arg = rng.choice(self.GENERIC)
                if "ID" in arg:
                    arg = arg.replace("ID", self.nm("w")) if avoid("yin-ext-substmt-unquoted") or self.ch(0.5) else \
                        adv_text(rng, maxlen=30)
                out.append(S(kw, arg))
            elif r < 0.7:
                kw = rng.choice(self.GENERIC_BLOCK)
                st = S(kw, None if kw in ("input", "output") else self.nm("w"))
                if depth > 0 and self.ch(0.6):
                    st.subs += self.generic_stmts(depth - 1)
                out.append(st)
            elif r < 0.85:
                if avoid("yin-ext-substmt-text"):
                    continue
                out.append(S(rng.choice(self.GENERIC_TEXT), adv_text(rng)))
            else:
                # an instance written directly in an instance: fine through YANG (347838c); the YIN parser reads it as a
                # generic substatement (listed finding yin-ext-nested-generic), so only the modules made with nested=True
                # have them and these skip the checks that parse YIN (driver flag 2)
                if not self.nested:
                    continue
                self.has_nested = True
                out.append(self.ext_instance(depth - 1))
        return out

    def ext_instance(self, depth=1):
        rng = self.rng
        own = [("e0", None), ("e1", "attr"), ("e2", "elem")]
        r = rng.random()
        if r < 0.45:
            pfx, (name, kind) = self.P, rng.choice(own)
        else:
            pfx, (name, kind) = self.X, rng.choice([("a0", None), ("a1", "attr"), ("a2", "elem")])
        e = S("%s:%s" % (pfx, name), None if kind is None else adv_text(rng, maxlen=60))
        if kind == "elem" and not e.arg.strip() and avoid("yin-ext-arg-element-blank"):
            e.arg = "x" + e.arg
        if depth >= 0 and self.ch(0.4):
            e.subs += self.generic_stmts(depth)
        return e

    # statements whose arguments are kept in arrays of plain strings: an extension instance under the second one is the
    # listed finding yin-ext-substmt-index
    INDEXED = ("default", "unique", "if-feature", "base", "must", "pattern", "enum", "bit", "revision", "import", "include")

    SIMPLE = {"config", "mandatory", "presence", "units", "default", "key", "unique", "min-elements", "max-elements",
              "ordered-by", "status", "description", "reference", "value", "position", "prefix", "namespace", "yang-version",
              "contact", "organization", "error-message", "error-app-tag", "fraction-digits", "require-instance", "path",
              "modifier", "base", "if-feature", "yin-element", "revision-date", "belongs-to", "argument"}

    DATA_KW = ("container", "leaf", "leaf-list", "list", "choice", "case", "anydata", "anyxml")

    def decorate(self, st, in_ext=False, path=(), amended=False):
        """extension instances under every kind of statement"""
        if ":" in st.kw:
            return
        # a node that a refine changes is duplicated before it is compiled and the copies of its extension instances lose
        # their substatement (listed finding amend-dup-ext-parent-stmt): none under the substatements of such a node
        amended = (amended and st.kw not in self.DATA_KW) or (getattr(st, "refined", False) and avoid("amend-dup-ext-parent-stmt"))
        if st.kw == "belongs-to" and avoid("compiled-print-ext-order"):
            return      # (the instances under its prefix share the submodule's array: see one_slot below)
        # the compiled extension instances of a submodule's header statements are appended to the module's array after
        # those of the module: the array moves and the storage pointers of md:annotation / sx:structure / rc:yang-data
        # instances dangle (listed finding ext-storage-realloc-dangling)
        hdr_skip = ("yang-version", "belongs-to", "organization", "contact", "description", "reference") \
            if st.kw == "submodule" and self.has_plugin_ext and avoid("ext-storage-realloc-dangling") else ()
        rng = self.rng
        seen = {}
        # the compiled printer stops at the first extension instance of a node that belongs to another substatement
        # (listed finding compiled-print-ext-order): with it avoided, the instances of one statement and of its
        # substatements without a structure of their own (they share one array) are all in one place
        # the YIN parser notes the array of a type / enum / bit for later when one of fraction-digits, require-instance,
        # value, position has been read and appends to it afterwards (listed finding yin-unres-exts-realloc): there, too
        # all instances in a refine / deviation are copied to the target node as the node's own (the same finding)
        one_slot = avoid("compiled-print-ext-order") or (st.kw in ("type", "enum", "bit") and avoid("yin-unres-exts-realloc")) or \
            (st.kw in ("refine", "deviation") and avoid("amend-dup-ext-parent-stmt"))
        simple = [c for c in st.subs if c.kw in self.SIMPLE]
        own = any(":" in c.kw for c in st.subs)
        slot = None
        # a node with an instance of an extension that has a plugin (nacm, mount-point) and one without: the tree printer
        # crashes on the second (the same defect as the listed tree-ext-noplugin-crash, which is recognised for top-level
        # instances only): no instance without a plugin in such a node
        plug_node = own and avoid("tree-ext-noplugin-crash-node")
        if one_slot and not own and simple and self.ch(0.7):
            slot = rng.choice(simple)
        for c in list(st.subs):
            idx = seen.get(c.kw, 0)
            seen[c.kw] = idx + 1
            if c.kw in hdr_skip:
                continue
            toplvl = st.kw in ("module", "submodule") or (st.kw == "grouping" and st.arg in self.top_used)
            if c.kw == "grouping" and c.arg in self.top_used and st.kw in ("module", "submodule") and \
                    avoid("toplevel-uses-ext-crash"):
                # (so has a grouping that is used there)
                c_simple = [x for x in c.subs if x.kw in self.SIMPLE]
                c.subs = [x for x in c.subs if x.kw not in self.SIMPLE]
                self.decorate(c)
                c.subs += c_simple
                c.own_ext_ok = False
                continue
            if c.kw == "uses" and toplvl and avoid("toplevel-uses-ext-crash"):
                # (a uses directly in the module with an extension instance: null pointer in lys_compile_uses)
                for x in c.subs:
                    if x.kw not in self.SIMPLE:
                        self.decorate(x)
                continue
            self.decorate(c, amended=amended)
            if ":" in c.kw:
                continue
            if (one_slot and c.kw in self.SIMPLE and c is not slot) or (plug_node and c.kw in self.SIMPLE) or \
                    (amended and c.kw in self.SIMPLE):
                continue
            if not getattr(c, "own_ext_ok", True):
                continue
            if self.ch(self.ext_prob * (3 if c is slot else 1)):
                if c.kw in self.GENERIC_TEXT and avoid("yin-text-ext-order"):
                    continue
                if c.kw == "if-feature" and avoid("yin-iffeature-ext"):
                    continue
                if c.kw == "bit" and avoid("bit-ext-dropped"):
                    continue
                if c.kw == "type" and c.arg.split(":")[-1] not in BUILTIN_TYPES and avoid("type-ext-typedef-assert"):
                    # (a type that only adds an extension instance to a typedef of a typedef of bits / enumeration:
                    # assert(base_type_p) in lys_compile_type_ - seen, a crash on a valid module, not a C10 matter)
                    continue
                if idx > 0 and c.kw in ("default", "unique", "if-feature", "base") and avoid("yin-ext-substmt-index"):
                    continue
                if c.kw in self.no_ext_under:
                    continue
                for _ in range(rng.choice([1, 1, 2])):
                    c.subs.insert(rng.randrange(len(c.subs) + 1), self.ext_instance())
        st.own_ext_ok = (not one_slot or slot is None or not any(":" in x.kw for x in slot.subs)) and not plug_node


    def mp_first(self, st):
        """the tree printer looks for a printing plugin at the FIRST extension instance of a node only (listed finding
        tree-ext-first-record): in a node with a mount-point the node's own instances are written before its
        substatements, as the printer does, so that the first one stays the first"""
        if ":" in st.kw:
            return
        if any(c.kw.startswith("yangmnt:") for c in st.subs):
            st.subs = [c for c in st.subs if ":" in c.kw] + [c for c in st.subs if ":" not in c.kw]
        for c in st.subs:
            self.mp_first(c)

    no_ext_under = set()

    def header(self, unit, main):
        """module / submodule header, linkage, meta and revision statements (shuffled inside each group, the groups in the
        order RFC 7950 requires)"""
        rng = self.rng
        pf = self.pfx[main]
        hdr = [S("yang-version", "1.1")]
        if main:
            ns = "urn:ym:" + rng.choice(["a", "b/c", "x y", "q&<>'\"z", "é", adv_text(rng, maxlen=20, nonempty=True, strip=True)])
            if avoid("yin-xmlns-unescaped"):
                ns = re.sub(r"[&<\"]", "_", ns)
            hdr += [S("namespace", ns), S("prefix", pf["P"])]
        else:
            hdr += [S("belongs-to", self.name).add(S("prefix", pf["P"]))]
        rng.shuffle(hdr)
        link = []
        imp = S("import", "yme").add(S("prefix", pf["X"]))
        if self.ch(0.5):
            imp.add(S("revision-date", "2020-01-01"))
        self.docs(imp, 0.4)
        rng.shuffle(imp.subs)
        link.append(imp)
        imp = S("import", "ymt").add(S("prefix", pf["T"]))
        self.docs(imp, 0.3)
        rng.shuffle(imp.subs)
        link.append(imp)
        if not main and self.sub2 is not None:
            link.append(self.docs(S("include", self.sub2.arg), 0.3))
        if main:
            link.append(S("import", "ietf-yang-metadata").add(S("prefix", "md")))
            link.append(S("import", "ietf-netconf-acm").add(S("prefix", "nacm")))
            link.append(S("import", "ietf-yang-structure-ext").add(S("prefix", "sx")))
            link.append(S("import", "ietf-restconf").add(S("prefix", "rc")))
            link.append(S("import", "ietf-yang-schema-mount").add(S("prefix", "yangmnt")))
            if self.subname and self.sub2 is not None:
                link.append(self.docs(S("include", self.sub2.arg), 0.3))
            if self.subname:
                inc = S("include", self.subname)
                if self.ch(0.5):
                    inc.add(S("revision-date", "2021-02-03"))
                self.docs(inc, 0.4)
                rng.shuffle(inc.subs)
                link.append(inc)
        rng.shuffle(link)
        meta = []
        for kw in ("organization", "contact", "description", "reference"):
            if self.ch(0.5):
                meta.append(S(kw, adv_text(rng)))
        rng.shuffle(meta)
        revs = []
        dates = ["2021-02-03"] if not main else []
        # (the submodule's newest revision is the one the include names)
        dates += rng.sample(["2019-12-31", "2022-06-16", "2000-01-01", "2024-02-29"] + DATE_BOUNDS if main else
                            ["2019-12-31", "2000-01-01", "1970-01-01", "1900-02-28", "0001-01-01"],
                            rng.choice([0, 1, 2, 3]) if main else rng.choice([0, 1, 2]))
        rng.shuffle(dates)
        for d in dates:
            revs.append(self.docs(S("revision", d), 0.5))
        unit.subs = hdr + link + meta + revs + unit.subs

    def build(self, systematic=None):
        """-> {name: statement}"""
        rng = self.rng
        self.top_tds, self.top_groupings = set(), set()
        main = S("module", self.name)
        sub = S("submodule", self.subname) if self.subname else None
        self.pfx = {True: {"P": rng.choice(["p", "ym", "a-b", "x1", "_u.v"]), "X": rng.choice(["x", "e", "yme"]),
                           "T": rng.choice(["t", "tgt"]), "M": "md"},
                    False: {"P": rng.choice(["bp", "p", "s-1"]), "X": rng.choice(["xs", "x", "e2"]), "T": rng.choice(["ts", "t"]), "M": "md"}}

        if avoid("yin-submodule-xmlns-prefix"):
            self.pfx[False]["P"] = self.pfx[True]["P"]

        def unit(force_main=False, force_sub=False):
            m = not force_sub and (force_main or sub is None or rng.random() < 0.65)
            pf = self.pfx[m]
            self.P, self.X, self.T, self.M = pf["P"], pf["X"], pf["T"], pf["M"]
            return main if m else sub

        for nm_, a, y in (("e0", None, None), ("e1", "name", rng.choice([None, False])), ("e2", "text", True)):
            unit().add(self.extension(nm_, a, y))
        for _ in range(rng.choice([1, 2, 3])):
            unit().add(self.feature())
        for _ in range(rng.choice([0, 2, 3, 4])):
            unit().add(self.identity())
        unit(True)
        main.add(S("container", "refs").add(S("leaf", "r1").add(S("type", "string")), S("leaf", "r2").add(S("type", "int32"))))
        self.leaf_paths = ["/refs/r1", "/refs/r2"]
        for _ in range(rng.choice([1, 2, 3, 5])):
            u = unit()
            td = self.typedef(sorted(self.top_tds))
            self.top_tds.add(td.arg)
            u.add(td)
        for _ in range(rng.choice([0, 1, 2, 3])):
            u = unit()
            g = self.grouping()
            self.top_groupings.add(g.arg)
            u.add(g)
        sz = self.size
        def top():
            c = Ctx(cfg=True, mand=True, actions=False, tds=sorted(self.top_tds), top=True)
            c.scope = self.top_used          # (module and submodule: one namespace)
            return c
        if systematic == "refine":
            self.refine_systematic(main, top())
        for _ in range(max(1, int(rng.choice([1, 2, 3, 4]) * sz))):
            u = unit()
            u.subs += self.ddefs(top(), 2, 1)
        for _ in range(rng.choice([0, 1, 2])):
            u = unit()
            ag = self.own_augment([s for s in u.subs])
            if ag is not None:
                u.add(ag)
        for _ in range(rng.choice([0, 1, 2])):
            unit().add(self.foreign_augment())
        for _ in range(rng.choice([0, 1, 2])):
            unit().add(self.action(top(), "rpc"))
        for _ in range(rng.choice([0, 1, 2])):
            unit().add(self.notification(top()))
        # a second submodule, included by the module and by the first submodule
        self.sub2 = None
        if sub is not None and self.ch(0.3):
            unit(False, True)
            self.sub2 = S("submodule", self.name + "-s2").add(
                S("yang-version", "1.1"), S("belongs-to", self.name).add(S("prefix", self.P)),
                S("import", "yme").add(S("prefix", self.X)),
                self.docs(S("container", self.nm("s2c")).add(self.leaf(Ctx(cfg=True, mand=False, actions=False))), 0.5))
        u = unit()
        dev_sys = isinstance(systematic, tuple) and systematic[0] == "deviation"
        u.subs += self.deviations(rng.choice([0, 0, 1, 2, 4]) if not dev_sys else 99, dev_sys, systematic[1] if dev_sys else None)
        # extensions with plugins (main module: it has the imports)
        unit(True)
        self.has_plugin_ext = False
        for w in ("annotation", "annotation", "structure", "yang-data"):
            if self.ch(0.3):
                main.add(self.plugin_ext(w))
                self.has_plugin_ext = True
        nodes = []

        def collect(st, data):
            for c in st.subs:
                if c.kw in ("container", "list", "leaf", "leaf-list", "choice", "anydata", "anyxml", "case"):
                    nodes.append(c)
                if ":" not in c.kw and c.kw not in ("grouping", "augment", "deviation"):
                    collect(c, True)
        collect(main, False)
        for n in rng.sample(nodes, min(len(nodes), rng.choice([0, 1, 2]))):
            if n.kw != "case":
                n.subs.insert(rng.randrange(len(n.subs) + 1), S("nacm:" + rng.choice(["default-deny-write", "default-deny-all"])))
        for n in main.subs:
            if n.kw in ("container", "list") and self.ch(0.1):
                n.add(S("yangmnt:mount-point", self.nm("mp")))
        # extension instances without a plugin: everywhere
        for un in (main, sub):
            if un is None:
                continue
            unit(un is main, un is not main)
            rng.shuffle(un.subs)
            self.header(un, un is main)
            self.decorate(un)
            if self.ch(0.3) and (un is main or (not avoid("submodule-toplevel-ext-dropped") and
                                                not (self.has_plugin_ext and avoid("ext-storage-realloc-dangling")))) and un.own_ext_ok:
                for _ in range(rng.choice([1, 2])):
                    un.subs.insert(rng.randrange(len(un.subs) - 1, len(un.subs) + 1), self.ext_instance())
        if avoid("tree-ext-first-record"):
            self.mp_first(main)
        out = {self.name: main}
        if sub is not None:
            out[self.subname] = sub
            if self.sub2 is not None:
                out[self.sub2.arg] = self.sub2
        return out

    REFINABLE = ["if-feature", "must", "presence", "default", "config", "mandatory", "min-elements", "max-elements",
                 "description", "reference"]

    def refine_systematic(self, main, ctx):
        """every refinable substatement alone and in pairs, on every kind of node"""
        rng = self.rng
        g = S("grouping", "gsys")
        lf = S("leaf", "sl").add(S("type", "string"))
        lf.ti = TI(lf.subs[0], [], "str", True)
        ll = S("leaf-list", "sll").add(S("type", "string"))
        ll.ti = TI(ll.subs[0], [], "str", True)
        li = S("list", "sli").add(S("key", "k"), S("leaf", "k").add(S("type", "string")))
        li.subs[1].ti = TI(li.subs[1].subs[0], [], "str", True)
        chl = S("leaf", "shl").add(S("type", "string"))
        chl.ti = TI(chl.subs[0], [], "str", True)
        g.add(lf, ll, S("container", "sc"), li, S("choice", "sch").add(S("case", "scs"), chl), S("anydata", "sad"), S("anyxml", "sax"))
        g.has_ops, g.has_mand = False, False
        self.groupings["gsys"] = g
        self.top_groupings.add("gsys")
        main.add(g)
        combos = [[k] for k in self.REFINABLE]
        pairs = [[a, b] for i, a in enumerate(self.REFINABLE) for b in self.REFINABLE[i + 1:]]
        combos += rng.sample(pairs, 14) + [rng.sample(self.REFINABLE, 3) for _ in range(4)] + [list(self.REFINABLE)]
        for force in combos:
            c = S("container", self.nm("rs"))
            c.add(self.uses(ctx.sub(top=False), "gsys", systematic=force))
            main.add(c)


# ------------------------------------------------------------------------------------------------
# source statements against the statements of the first YANG print (what the YANG parser and printer keep)
# ------------------------------------------------------------------------------------------------
def stmts_of_tokens(toks):
    """token list -> nested [kw, arg, [children]]"""
    pos = [0]

    def block():
        out = []
        while pos[0] < len(toks) and toks[pos[0]] != "}":
            t = toks[pos[0]]
            if not isinstance(t, tuple):
                raise LexError("keyword expected")
            kw = t[1]
            pos[0] += 1
            arg = None
            if pos[0] < len(toks) and isinstance(toks[pos[0]], tuple):
                arg = toks[pos[0]][1]
                pos[0] += 1
            if pos[0] >= len(toks):
                raise LexError("statement end expected")
            kids = []
            if toks[pos[0]] == "{":
                pos[0] += 1
                kids = block()
                if pos[0] >= len(toks):
                    raise LexError("} expected")
                pos[0] += 1
            elif toks[pos[0]] == ";":
                pos[0] += 1
            else:
                raise LexError("statement end expected")
            out.append([kw, arg, kids])
        return out
    return block()


def canon_src(st):
    return [st.kw, None if st.arg is None else str(st.arg), [canon_src(c) for c in st.subs]]


def norm_tree(t):
    """order of substatements is not compared (the printer has its own); a few arguments have one meaning in several
    spellings"""
    kw, arg, kids = t
    if kw in ("key", "unique") and arg is not None:
        arg = " ".join(arg.split())
    return (kw, arg, tuple(sorted((norm_tree(k) for k in kids), key=repr)))


def tree_diff(a, b, path=""):
    """first difference of two normalised trees, None when equal"""
    if a[0] != b[0] or a[1] != b[1]:
        return "%s: %s %r in the source, %s %r printed" % (path, a[0], a[1], b[0], b[1])
    p = "%s/%s%s" % (path, a[0], "" if a[1] is None else "[%s]" % a[1][:30])
    ka, kb = list(a[2]), list(b[2])
    if ka == kb:
        return None
    only_a = [x for x in ka if x not in kb]
    only_b = [x for x in kb if x not in ka]
    for x in only_a:
        # same keyword and argument on the other side: the difference is below
        for y in only_b:
            if x[0] == y[0] and x[1] == y[1]:
                return tree_diff(x, y, p)
    if only_a:
        return "%s: %s %r is in the source and not in the YANG print" % (p, only_a[0][0], only_a[0][1])
    if only_b:
        return "%s: %s %r is in the YANG print and not in the source" % (p, only_b[0][0], only_b[0][1])
    return "%s: different numbers of equal substatements" % p


# ------------------------------------------------------------------------------------------------
# the oracle
# ------------------------------------------------------------------------------------------------
def case_line(name, feats, defs, flags=0):
    """defs: [(name, 'y'|'x', text)]"""
    return "mrt\t%s\t%s\t%d\t" % (name, feats, flags) + "\t".join("%s:%s:%s" % (n, f, hexs(t)) for n, f, t in defs)


def repo_modules():
    """name -> (path, text) of the modules under /repo/models and /repo/tests/modules/yang"""
    out = {}
    for d in ("models", "tests/modules/yang"):
        for p in sorted(glob.glob(os.path.join(vlib.REPO, d, "*.yang"))):
            n = os.path.basename(p)[:-5].split("@")[0]
            out.setdefault(n, (p, open(p, encoding="utf-8").read()))
    return out


INTERNAL = {"ietf-yang-metadata", "yang", "ietf-inet-types", "ietf-yang-types", "ietf-yang-schema-mount",
            "ietf-yang-structure-ext", "ietf-datastores", "ietf-yang-library"}


def deps_of(text, mods, seen):
    for m in re.finditer(r"\b(?:import|include)\s+([A-Za-z0-9_.-]+)", text):
        n = m.group(1)
        if n in mods and n not in seen:
            seen.add(n)
            deps_of(mods[n][1], mods, seen)
    return seen


def decode_tok(tok):
    """one failure token of the driver -> (check, kind, fields)"""
    if tok.startswith("yin-yang="):
        _, a, b = tok.split("=")
        return "yin-yang", "texts", (unhex(a).decode("utf-8", "replace"), unhex(b).decode("utf-8", "replace"))
    if "!" in tok:
        c, m = tok.split("!", 1)
        return c, "error", (unhex(m).decode("utf-8", "replace"),)
    if "@" in tok:
        c, r = tok.split("@", 1)
        ln, a, b = r.split(":")
        return c, "diff", (int(ln), unhex(a).decode("utf-8", "replace"), unhex(b).decode("utf-8", "replace"))
    if tok.startswith("tree-crash") or "-crash:" in tok:
        c, v = tok.rsplit(":", 1)
        return c, "crash", (v,)
    return tok, "?", ()


class ModuleRT:
    """C10 (search): for generated whole modules (every statement kind, extension instances everywhere, adversarial
    argument strings and source spellings, submodule), the structured sets of C11, data-oriented modules and the real
    modules of the repository, per feature set: YANG and YIN prints (module and submodules) are accepted in a fresh
    context, compile to the identical compiled print, print again to the identical YANG / YIN text (YANG from YIN: equal as
    token sequences); the same for the parsed, not implemented module; compiled and tree prints are deterministic."""
    name = "modrt"
    driver = "t_ymod"
    kinds = None
    quick_sanitize = False
    timeout = 900

    def __init__(self):
        self.cases = {}
        self.skipped = 0

    def n(self, tier, quick, thorough, scale=1.0):
        return max(1, int((thorough if tier == "thorough" else quick) * scale))

    # ---- case builders ----
    def support_defs(self):
        mods = repo_modules()
        out = [("yme", "y", YME), ("ymt", "y", YMT)]
        for n in ("ietf-netconf-acm", "ietf-restconf"):
            out.append((n, "y", mods[n][1]))
            for d in sorted(deps_of(mods[n][1], mods, set())):
                if d not in INTERNAL and d not in [x[0] for x in out]:
                    out.append((d, "y", mods[d][1]))
        return out

    def gen_module_cases(self, rng, systematic=None, nfeat=2):
        mg = ModGen(rng, submodule=rng.random() < 0.75, nested=rng.random() < 0.25)
        mods = mg.build(systematic)
        w = Writer(rng, noise=rng.choice([0.0, 0.1, 0.3]))
        defs = [(k, "y", w.text(v)) for k, v in mods.items()] + self.support
        out = []
        fsets = ["*", "-"]
        if len(mg.feats) > 1:
            fsets.append(",".join(mg.feature_set(rng.sample(mg.feats, rng.randrange(1, len(mg.feats))))) or "-")
        rng.shuffle(fsets)
        src = {k: norm_tree(canon_src(v)) for k, v in mods.items()}
        for fs in fsets[:nfeat]:
            line = case_line("ym", fs, defs, 4 | (2 if mg.has_nested else 0))
            self.cases[line] = {"kind": "gen", "valid": True, "src": src}
            out.append(line)
        return out

    def v1_case(self, rng):
        """a YANG 1 module (yang-version 1 or none at all) made of the statements with numeric arguments at their limits"""
        mg = ModGen(rng, name="yv", submodule=False)
        mg.P, mg.X = "v", "x"
        t_str = mg.t_str

        def t_str_v1():
            ti = t_str()
            ti.stmt.subs = [c for c in ti.stmt.subs if not c.find("modifier")]      # (modifier is YANG 1.1)
            return ti
        mg.t_str = t_str_v1
        m = S("module", "yv")
        hdr = [S("namespace", "urn:yv"), S("prefix", "v")]
        if rng.random() < 0.7:
            hdr.append(S("yang-version", "1"))
        rng.shuffle(hdr)
        m.subs += hdr
        for d in rng.sample(DATE_BOUNDS, rng.randrange(0, 4)):
            m.add(mg.docs(S("revision", d), 0.3))
        body = []
        for _ in range(rng.randrange(2, 6)):
            ti = rng.choice([mg.t_int, mg.t_dec, mg.t_enum, mg.t_bits, mg.t_str])()
            td = S("typedef", mg.nm("td")).add(ti.stmt)
            v = ti.value(rng)
            if v is not None and rng.random() < 0.5:
                td.add(S("default", v))
            body.append(td)
            lf = S("leaf", mg.nm("l")).add(S("type", td.arg))
            if rng.random() < 0.3:
                ti2 = rng.choice([mg.t_int, mg.t_dec, mg.t_enum, mg.t_bits])()
                lf = S("leaf", mg.nm("l")).add(ti2.stmt)
                v = ti2.value(rng)
                if v is not None and rng.random() < 0.5:
                    lf.add(S("default", v))
            body.append(lf)
        for _ in range(rng.randrange(1, 4)):
            ll = S(rng.choice(["leaf-list", "list"]), mg.nm("ll"))
            if ll.kw == "list":
                ll.add(S("key", "k"), S("leaf", "k").add(S("type", "string")))
            else:
                ll.add(rng.choice([mg.t_int, mg.t_dec, mg.t_str])().stmt)
            mn = rng.choice([None, "0", "1", "4294967294", "4294967295"])
            mx = rng.choice([None, "unbounded", "1", "4294967294", "4294967295"])
            if mn is not None:
                ll.add(S("min-elements", mn))
            if mx is not None and (mx == "unbounded" or int(mx) >= int(mn or 0)):
                ll.add(S("max-elements", mx))
            rng.shuffle(ll.subs)
            body.append(ll)
        rng.shuffle(body)
        m.subs += body
        w = Writer(rng, noise=rng.choice([0.0, 0.1]))
        line = case_line("yv", "-", [("yv", "y", w.text(m))], 4)
        self.cases[line] = {"kind": "gen", "valid": True, "src": {"yv": norm_tree(canon_src(m))}}
        return line

    def flatten_cases(self, rng):
        from props import comps_flatten as F
        # (only the generator of the structured set is used; a fresh PRNG so that work in progress on that slice cannot
        # shift the stream of this one)
        sub = __import__("random").Random(rng.random())
        try:
            mods = F.SetGen(sub).build()
        except Exception:       # noqa: the other slice is being edited
            return []
        defs = [(k, "y", v.text()) for k, v in mods.items()]
        out = []
        for name in ("fa", "fb", "fd"):
            fs = rng.choice(["*", "-", "f1", "f1,f3"]) if name == "fa" else "-"
            line = case_line(name, fs, defs)
            self.cases[line] = {"kind": "flatten", "valid": False}
            out.append(line)
        return out

    def yanggen_case(self, rng):
        import yanggen
        g = yanggen.SchemaGen(rng, adversarial=rng.random() < 0.5)
        m = g.module()
        line = case_line("m1", "*", [("m1", "y", m.yang())])
        self.cases[line] = {"kind": "yanggen", "valid": False}
        return line

    def real_cases(self, names=None):
        mods = repo_modules()
        out = []
        for n in sorted(mods):
            if names is not None and n not in names:
                continue
            if n in INTERNAL:
                # every context holds its own copy, parsing the text again would only return that one: the module goes
                # through the checks under another name and namespace
                t = re.sub(r"^(\s*module\s+)%s\b" % re.escape(n), r"\1x-" + n, mods[n][1], count=1, flags=re.M)
                t = re.sub(r'(\n\s*namespace\s+"[^"]*)"', r'\1-x"', t, count=1)
                line = case_line("x-" + n, "*", [("x-" + n, "y", t)])
            else:
                deps = sorted(deps_of(mods[n][1], mods, set()) - INTERNAL - {n})
                line = case_line(n, "*", [(n, "y", mods[n][1])] + [(d, "y", mods[d][1]) for d in deps])
            self.cases[line] = {"kind": "real", "valid": True, "name": n}
            out.append(line)
        return out

    def regression_cases(self, tier="quick"):
        """the witness modules of the findings that were repaired: they go through all checks like any other module"""
        import json
        out = []
        try:
            known = json.load(open(os.path.join(vlib.VERIF, "known_findings.d", "ymod.json")))
        except (OSError, ValueError):
            return out
        for k in known:
            rc = k.get("regression_case")
            if k.get("status") != "fixed" or not isinstance(rc, dict) or "corpus_line" not in rc:
                continue
            if rc.get("tier") == "thorough" and tier != "thorough":
                continue
            fn, idx = rc["corpus_line"]
            lines = [l.rstrip("\n") for l in open(os.path.join(vlib.VERIF, fn)) if l.strip() and not l.startswith("#")]
            line = lines[idx]
            if rc.get("flags"):
                f = line.split("\t")
                f[3] = str(rc["flags"])
                line = "\t".join(f)
            self.cases[line] = {"kind": "regression", "valid": True, "name": k["tag"]}
            out.append(line)
        return out

    def gen(self, rng, tier, scale=1.0):
        self.support = self.support_defs()
        L = self.regression_cases(tier)
        L += self.gen_module_cases(rng, "refine", nfeat=1)
        # every alternative of every deviation target once: round r takes the r-th alternative of each
        for r in range(max(len(v) for v in DEVIATES.values())):
            L += self.gen_module_cases(rng, ("deviation", r), nfeat=1)
        for _ in range(self.n(tier, 300, 4000, scale)):
            L += self.gen_module_cases(rng)
        for _ in range(self.n(tier, 25, 600, scale)):
            L.append(self.v1_case(rng))
        for _ in range(self.n(tier, 6, 200, scale)):
            L += self.flatten_cases(rng)
        for _ in range(self.n(tier, 8, 300, scale)):
            L.append(self.yanggen_case(rng))
        L += self.real_cases(None if tier == "thorough" else
                             {"ietf-origin", "ietf-netconf-acm", "ietf-ip", "ietf-yang-library", "sm-extension", "ietf-restconf",
                              "yang", "ietf-netconf-with-defaults"})
        if os.environ.get("YMOD_DUMP_LINES"):
            open(os.environ["YMOD_DUMP_LINES"], "w").write("\n".join(L) + "\n")
        return L

    # ---- verdict ----
    def attribute(self, check, kind, f, line):
        """tag of the listed finding a failed check is an instance of, or None. The findings that were recognised here
        from the driver's answer (tree-ext-noplugin-crash, yin-ext-substmt-text) are repaired (FIXED): nothing is
        attributed any more, the constructs of the open findings are not generated"""
        return None

    def judge(self, line, out):
        meta = self.cases.get(line, {"kind": "corpus", "valid": False})
        if out.startswith("CRASH(") or out == "TIMEOUT":
            return (None, "crash: " + out)
        if out.startswith("?"):
            return (None, "protocol: " + out)
        if out.startswith("E!") and meta["kind"] == "regression":
            return (None, "the witness module of the repaired finding %s is rejected: %s" % (
                meta.get("name"), unhex(out[2:]).decode("utf-8", "replace")[:300]))
        if out.startswith("E!"):
            if meta["valid"]:
                self.skipped += 1
                self.rejected = getattr(self, "rejected", []) + [unhex(out[2:]).decode("utf-8", "replace")]
            return None
        res = []
        for tok in out.split(" "):
            if meta.get("src") and (tok[:3] == "Y0=" or re.match(r"S\d=", tok)):
                # the statements of the source are the statements of the print
                name = "?"
                try:
                    tr = stmts_of_tokens(yang_tokens(unhex(tok[3:]).decode("utf-8")))
                    name = tr[0][1] if len(tr) == 1 else "?"
                    d = tree_diff(meta["src"][name], norm_tree(tr[0])) if name in meta["src"] else "not one known (sub)module"
                except LexError as e:
                    d = "the print does not lex: %s" % e
                if d:
                    res.append((None, "src-print (%s): %s" % (name, d)))
                continue
            if re.match(r"[YXCST]\d=", tok):
                continue
            if tok == "" and out.endswith(" "):
                # (a line that stops after the texts printed for the judge: the driver died, vlib hands the partial line on)
                res.append((None, "crash: the driver died during the checks (partial answer)"))
                continue
            if tok == "ok":
                continue
            check, kind, f = decode_tok(tok)
            if check == "yin-yang":
                d = tokens_equal(f[0], f[1])
                if d is None:
                    continue
                res.append((self.attribute(check, kind, f, line), "yin-yang: YANG printed from the YIN-parsed module differs "
                            "from the first YANG print in more than quoting: " + d))
            elif kind == "error":
                res.append((self.attribute(check, kind, f, line), "%s: %s" % (check, f[0].replace("\x01", " | "))))
            elif kind == "diff":
                res.append((self.attribute(check, kind, f, line), "%s: first difference in line %d: %r / %r" % (check, f[0], f[1], f[2])))
            elif kind == "crash":
                res.append((self.attribute(check, kind, f, line), "%s: the tree printer crashed" % check))
            else:
                res.append((None, "unknown answer " + tok[:80]))
        if not res:
            return None
        # an unattributed failure first: it is what has to be looked at
        res.sort(key=lambda r: r[0] is not None)
        return (res[0][0], "; ".join(r[1] for r in res)[:3000])
