"""oracles.py - property-level oracles run on the implementation through impl/lyx.c.

An oracle generates case lines (scripts), and judge() decides from the implementation's answer line
whether the PROPERTY ITSELF fails on that input. judge returns None (holds) or (tag, detail):
tag names a known deviation class (looked up in known_findings.json) or is None."""
import difflib
import json
import random
import xml.parsers.expat

import gens
import yanggen
from lyxlib import *          # noqa: F401,F403
from lyxlib import Script, results, rc, payload, TEST_MODULES
from vlib import hexs, unhex


class Oracle:
    name = ""
    driver = "lyx"
    kinds = None                 # default: check.py decides (rel; +asan in thorough)
    quick_sanitize = False

    def n(self, tier, quick, thorough, scale=1.0):
        return max(1, int((thorough if tier == "thorough" else quick) * scale))

    def judge(self, line, out):
        raise NotImplementedError


def crashed(out):
    return out.startswith("CRASH(") or out == "TIMEOUT"


def gen_case(rng, adversarial=None, **kw):
    meta_prob = kw.pop("meta_prob", 0.05)
    g = yanggen.SchemaGen(rng, adversarial=(rng.random() < 0.5) if adversarial is None else adversarial, **kw)
    m = g.module()
    ig = yanggen.InstGen(rng, meta_prob=meta_prob)
    return m, ig


# ------------------------------------------------------------------------------------------------
# C01: print o parse = identity, formats agree
# ------------------------------------------------------------------------------------------------
class RoundTrip(Oracle):
    """C01: for a generated module and a valid instance, every format x printer option set prints a document that parses
    back to an equal tree (structure, order, canonical values, default flags, metadata); XML and JSON encodings produced
    by an independent encoder parse to equal trees."""
    name = "roundtrip"
    # (format, print opts, exact?)  exact = compare with default flags and dumps; otherwise compare after re-validation
    # ignoring the explicit/implicit distinction
    COMBOS = [("x", PRINT_SIBLINGS | PRINT_SHRINK | WD_EXPLICIT, True), ("x", PRINT_SIBLINGS | WD_IMPL_TAG, True),
              ("j", PRINT_SIBLINGS | PRINT_SHRINK | WD_EXPLICIT, True), ("j", PRINT_SIBLINGS | WD_IMPL_TAG, True),
              ("b", PRINT_SIBLINGS | WD_EXPLICIT, True),
              ("x", PRINT_SIBLINGS | WD_TRIM, False), ("x", PRINT_SIBLINGS | PRINT_SHRINK | WD_ALL, False),
              ("x", PRINT_SIBLINGS | WD_ALL_TAG, False), ("j", PRINT_SIBLINGS | WD_TRIM, False),
              ("j", PRINT_SIBLINGS | PRINT_SHRINK | WD_ALL, False), ("j", PRINT_SIBLINGS | WD_ALL_TAG, False),
              ("x", PRINT_SIBLINGS | PRINT_KEEPEMPTY, True), ("j", PRINT_SIBLINGS | PRINT_KEEPEMPTY, True)]

    def gen(self, rng, tier, scale=1.0):
        L = []
        for i in range(self.n(tier, 500, 4000, scale)):
            m, ig = gen_case(rng)
            if i % 2:
                ig.edp = 0.0
            f = ig.forest(m)
            s = Script()
            s.ctx(searchdir=TEST_MODULES)
            s.mod(m.yang())
            s.load("ietf-netconf-with-defaults")
            s.parse(0, "x", yanggen.to_xml(f))
            s.parse(1, "j", yanggen.to_json(f))
            s.add("nexpldflt", "t0")
            s.dump(0)
            s.dump(1)
            for k, (fmt, po, exact) in enumerate(self.COMBOS):
                s.add("rt", "t0", "t2", fmt, po, PARSE_STRICT, VAL_PRESENT)
                s.add("cmp", "t0", "t2", CMP_FULL | (CMP_DEFAULTS if exact else 0))
                s.dump(2, 0 if exact else 2)
            s.dump(0, 2)
            L.append(s.line())
            self.cases[L[-1]] = f
        return L

    def __init__(self):
        self.cases = {}

    @staticmethod
    def metas(dump):
        return sorted(x for ln in dump.split(";") for x in ln.split(":@")[1:])

    @staticmethod
    def strip_meta(dump):
        return ";".join(ln.split(":@")[0] for ln in dump.split(";"))

    def judge(self, line, out):
        if crashed(out):
            return (None, "crash: " + out)
        r = results(out)
        if r[1] != "0" or r[2] != "0":
            return None                       # module rejected: not a case for this oracle
        r = r[1:]
        if rc(r[2]) != 0 or rc(r[3]) != 0:
            # the instance is valid by construction: a rejection is either a generator defect or libyang rejecting valid data
            # (C02). It is not judged here, but counted: check.py fails the oracle when more than 5 % of the cases are skipped,
            # so that a parser defect cannot hide every case of its kind from the round-trip comparison
            self.skipped = getattr(self, "skipped", 0) + 1
            return None
        nexpl = int(r[4])
        if r[5] != r[6]:
            # (the former finding json-leaflist-meta-order - the metadata array of a system-ordered leaf-list coupled with the
            # instances after sorting - is fixed by 85059b4: any difference is a plain violation)
            return (None, "independently encoded XML and JSON parse to different trees")
        base = r[5]
        base_noflags = r[-2]
        i = 7
        for fmt, po, exact in self.COMBOS:
            prt, cmp_, dmp = r[i], r[i + 1], r[i + 2]
            i += 3
            what = "fmt=%s opts=%#x" % (fmt, po)
            if (po & 0xF0) in (WD_TRIM, WD_ALL_TAG) and nexpl:
                # trim drops explicit default-valued nodes (their metadata / case selection / mandatory-choice role);
                # report-all-tagged turns them into default nodes: the property excepts this distinction
                continue
            if (po & 0xF0) in (WD_TRIM, WD_ALL_TAG) and (rc(prt) != 0 or dmp != base_noflags) and \
                    partial_default_leaflist(self.cases.get(line, [])):
                return ("wd-leaflist-partial-default", "an explicit leaf-list instance whose value equals one of the schema "
                        "defaults is treated as a default node (%s)" % what)
            if rc(prt) != 0:
                return ("lyb-hash-collision" if (fmt == "b" and prt.startswith("P")) else None,
                        "print/parse failed: %s result=%s" % (what, prt))
            if exact:
                if dmp != base:
                    # (a container that only holds state defaults loses its own default flag with them)
                    nd = lambda x: x.replace(":ds", ":s").replace(":i:d;", ":i:;") if ":ds" in base else x
                    if (po & 0xF0) == WD_EXPLICIT and nd(dmp) == nd(base):
                        tag = "wd-explicit-state-dflt"      # RFC 6243 explicit mode reports state defaults
                        k = self.report_known(tag)
                        if k:
                            return k
                        continue
                    return (None, "re-parsed tree differs (dump): " + what)
                if cmp_ != "0":
                    return (None, "re-parsed tree differs (lyd_compare_siblings=%s): %s" % (cmp_, what))
            else:
                if dmp != base_noflags or cmp_ != "0":
                    return (None, "re-parsed tree differs (ignoring default flags): " + what)
        return None

    def report_known(self, tag):
        return (tag, "explicit with-defaults mode prints default-flagged state nodes; they come back explicit")


# ------------------------------------------------------------------------------------------------
# C12: independent standard readers on libyang's XML / JSON output
# ------------------------------------------------------------------------------------------------
def expat_events(data):
    ev = []
    p = xml.parsers.expat.ParserCreate(namespace_separator=" ")
    p.buffer_text = True
    p.StartElementHandler = lambda n, a: ev.append(("s", n, tuple(sorted(a.items()))))
    p.EndElementHandler = lambda n: ev.append(("e", n))
    p.CharacterDataHandler = lambda d: ev.append(("t", d))
    p.Parse(b"<root>" + data + b"</root>", True)
    return ev


def xml_tree(data):
    """[(ns, name, text, attrs, children)] read by expat"""
    ev = expat_events(data)
    stack = [[None, None, "", (), []]]
    for e in ev:
        if e[0] == "s":
            ns, _, nm = e[1].rpartition(" ")
            node = [ns, nm, "", e[2], []]
            stack[-1][4].append(node)
            stack.append(node)
        elif e[0] == "e":
            stack.pop()
        else:
            stack[-1][2] += e[1]
    return stack[0][4][0][4]


def expected_xml(forest):
    out = []
    for n in forest:
        s = n.schema
        attrs = tuple(sorted(("urn:verif:%s %s" % (mm, mn), mv) for mm, mn, mv in n.meta))
        if s.kind in ("leaf", "leaf-list"):
            out.append([s.module.ns, s.name, n.value, attrs, []])
        else:
            out.append([s.module.ns, s.name, None, attrs, expected_xml(n.children)])
    return out


def canon_xml(nodes, inner_text_ws=True):
    """order-insensitive canonical form of [ns, name, text, attrs, children] lists (libyang orders siblings itself)"""
    out = []
    for ns, nm, text, attrs, ch in nodes:
        if ch or (text is None and False):
            c = canon_xml(ch)
            if text is not None and text.strip(" \t\r\n"):
                c = c + [("#unexpected-text", text)]
            out.append((ns, nm, None, attrs, tuple(c)))
        else:
            out.append((ns, nm, text or "", attrs, ()))
    return sorted(out, key=repr)


def drop_empty_np(forest):
    out = []
    for n in forest:
        if n.schema.kind == "container" and not n.schema.presence:
            ch = drop_empty_np(n.children)
            if not ch:
                continue
            c = n.clone()
            c.children = ch
            out.append(c)
        elif n.children:
            c = n.clone()
            c.children = drop_empty_np(n.children)
            out.append(c)
        else:
            out.append(n)
    return out


def xml_equal(exp, got):
    a = canon_xml(exp)
    b = canon_xml(got)
    if a == b:
        return None
    # locate a small difference for the report
    def first_diff(x, y, path):
        if len(x) != len(y):
            return "%s: %d children expected, %d read" % (path, len(x), len(y))
        for p, q in zip(x, y):
            if p != q:
                if p[:2] != q[:2]:
                    return "%s: element %s vs %s" % (path, p[1], q[1])
                if p[2] != q[2]:
                    return "%s/%s: text %r vs %r" % (path, p[1], p[2], q[2])
                if p[3] != q[3]:
                    return "%s/%s: attributes %r vs %r" % (path, p[1], p[3], q[3])
                return first_diff(list(p[4]), list(q[4]), path + "/" + p[1])
        return path + ": differs"
    return first_diff(a, b, "")


class StdReaders(Oracle):
    """C12: libyang's XML output is read by expat and its JSON output by Python's json module (no code shared with
    libyang); element/member structure, namespaces/module qualifiers and character data must be the instance's."""
    name = "stdreaders"

    def __init__(self):
        self.cases = {}

    def gen(self, rng, tier, scale=1.0):
        L = []
        for i in range(self.n(tier, 500, 5000, scale)):
            m, ig = gen_case(rng, adversarial=True, meta_prob=0.15)
            f = ig.forest(m)
            s = Script()
            s.ctx()
            s.mod(m.yang())
            f = drop_empty_np(f)
            s.parse(0, "x", yanggen.to_xml(f), popts=PARSE_STRICT | PARSE_ONLY, vopts=0)
            for po in (PRINT_SIBLINGS | PRINT_SHRINK, PRINT_SIBLINGS):
                s.print(0, "x", po)
                s.print(0, "j", po)
            line = s.line()
            self.cases[line] = f
            L.append(line)
        return L

    def judge(self, line, out):
        if crashed(out):
            return (None, "crash: " + out)
        r = results(out)
        if r[1] != "0" or rc(r[2]) != 0:
            return None
        f = self.cases[line]
        exp = expected_xml(f)
        for k in (3, 5):
            if rc(r[k]) != 0:
                return (None, "XML print failed")
            data = payload(r[k])
            try:
                got = xml_tree(data)
            except xml.parsers.expat.ExpatError as e:
                return (None, "printed XML is not well-formed: %s%s" % (e, ws_hint(f)))
            d = xml_equal(exp, got)
            if d:
                return (None, "expat reads a different document: " + d + ws_hint(f))
        expj = yanggen.to_json_obj(f)
        for k in (4, 6):
            if rc(r[k]) != 0:
                return (None, "JSON print failed")
            data = payload(r[k])
            try:
                got = json.loads(data.decode("utf-8"))
            except (ValueError, UnicodeDecodeError) as e:
                return (None, "printed JSON is not RFC 8259 JSON: %s" % e)
            d = json_equal(expj, got)
            if d:
                return (None, "json reads a different document: " + d)
        return None


def partial_default_leaflist(forest):
    """is there a leaf-list whose instances include a schema default value without being exactly the default set?"""
    groups = {}
    for n in forest:
        if n.schema.kind == "leaf-list" and n.schema.defaults:
            groups.setdefault(id(n.schema), (n.schema, []))[1].append(n.value)
        if partial_default_leaflist(n.children):
            return True
    for sch, vals in groups.values():
        if any(v in sch.defaults for v in vals) and sorted(vals) != sorted(sch.defaults):
            return True
    return False


def all_values(forest):
    for n in forest:
        if n.value is not None:
            yield n.value, False
        for _, _, mv in n.meta:
            yield mv, True
        yield from all_values(n.children)


def ws_hint(forest):
    """text appended to the detail of an XML deviation. Raw CR in content and raw TAB/LF/CR in attribute values were the
    known findings xml-cr / xml-attr-ws until lyxml_dump_text() was fixed (6fdbff2, 47fa563: written as character
    references now). They are no longer expected: a deviation is a plain violation (tag None) whatever the values hold;
    the hint only says that the instance has such values, i.e. that one of the fixes may have regressed."""
    cr = any("\r" in v for v, _ in all_values(forest))
    attrws = any(isattr and any(ch in v for ch in "\t\n\r") for v, isattr in all_values(forest))
    if attrws:
        return " [instance has TAB/LF/CR in a metadata value: regression of 47fa563 (xml-attr-ws)?]"
    if cr:
        return " [instance has a CR in a value: regression of 6fdbff2 (xml-cr)?]"
    return ""


def canon_json(o):
    """order-insensitive canonical form of an RFC 7951 document: arrays become sorted lists of (value, metadata) pairs so
    that the positional pairing of a leaf-list with its metadata array (RFC 7952) is kept"""
    if isinstance(o, dict):
        out = {}
        for k, v in o.items():
            if k.startswith("@") and k != "@" and isinstance(v, list):
                continue
            if isinstance(v, list) and not (len(v) == 1 and v[0] is None):
                meta = o.get("@" + k, [])
                meta = list(meta) + [None] * (len(v) - len(meta))
                out[k] = sorted((json.dumps(canon_json(x), sort_keys=True), json.dumps(m, sort_keys=True))
                                for x, m in zip(v, meta))
            else:
                out[k] = canon_json(v)
        for k, v in o.items():
            if k.startswith("@") and k != "@" and isinstance(v, list) and k[1:] not in o:
                out[k] = "dangling metadata"
        return out
    if isinstance(o, list):
        return [canon_json(x) for x in o]
    return o


def json_equal(exp, got, path=""):
    a, b = canon_json(exp), canon_json(got)
    if a == b:
        return None
    if isinstance(a, dict) and isinstance(b, dict):
        if set(a) != set(b):
            return "%s: members %s vs %s" % (path, sorted(set(a) - set(b)), sorted(set(b) - set(a)))
        for k in a:
            if a[k] != b[k]:
                if isinstance(exp.get(k), dict) and isinstance(got.get(k), dict):
                    return json_equal(exp[k], got[k], path + "/" + k)
                return "%s/%s: %s vs %s" % (path, k, str(a[k])[:200], str(b[k])[:200])
    return "%s: %s vs %s" % (path, str(a)[:200], str(b)[:200])


# ------------------------------------------------------------------------------------------------
# C06 / C13: diff, apply, reverse, merge
# ------------------------------------------------------------------------------------------------
DUPF = DUP_RECURSIVE | DUP_WITH_FLAGS
CMPX = CMP_FULL | CMP_DEFAULTS


def strip_flags(dump):
    """dump lines without their flag field"""
    out = []
    for seg in dump.split(";"):
        p = seg.split(":")
        if len(p) > 4:
            p[4] = ""
        out.append(":".join(p))
    return ";".join(out)


def only_reordered(dump_a, dump_b, names):
    """the two dumps hold the same lines and differ only in the order of lines of the (leaf-)lists named in names"""
    la, lb = dump_a.split(";"), dump_b.split(";")
    if sorted(la) != sorted(lb):
        return False
    for x, y in zip(la, lb):
        if x != y:
            for z in (x, y):
                p = z.split(":")
                if len(p) < 3 or p[2] not in names:
                    return False
    return True


def subtree_names(n):
    out = {n.name}
    if n.kind in ("container", "list"):
        for c in n.children:
            out |= subtree_names(c)
    elif n.kind == "choice":
        for _, ns in n.cases:
            for c in ns:
                out |= subtree_names(c)
    return out


def dupinst_names(m):
    """names of the key-less lists / state leaf-lists (libyang: duplicate-instance lists, matched by position) of module m
    and of all nodes below them"""
    out = set()
    for n in m.all_nodes():
        if (n.kind == "list" and not n.keys) or (n.kind == "leaf-list" and not n.config):
            out |= subtree_names(n)
    return out


def confined_to(dump_a, dump_b, names):
    """every line in which the two dumps differ (as multisets or in order) belongs to a node named in names"""
    la, lb = dump_a.split(";"), dump_b.split(";")
    for op, i1, i2, j1, j2 in difflib.SequenceMatcher(None, la, lb, autojunk=False).get_opcodes():
        if op == "equal":
            continue
        for z in la[i1:i2] + lb[j1:j2]:
            p = z.split(":")
            if len(p) < 3 or p[2] not in names:
                return False
    return True


def schema_has(m, pred):
    return any(pred(n) for n in m.all_nodes())


class Diff(Oracle):
    """C06/C13: diff(A,A) is empty; apply(diff(A,B),A)=B (exactly with the defaults option, after validation without);
    computing/applying leaves the inputs unchanged; the diff survives print/parse and freeing A,B; apply(reverse(d),B)=A;
    apply(merge(diff(A,B),diff(B,C)),A)=C; merging the undo leaves no change."""
    name = "diff"
    family = "plain"             # plain: no user-ordered / duplicate-instance lists; "uord": with them
    parts = ("forward", "reverse")   # forward = C06 laws, reverse = C13 laws (reverse, merge, merge-undo)

    def __init__(self):
        self.info = {}

    def gen(self, rng, tier, scale=1.0):
        L = []
        for i in range(self.n(tier, 600, 6000, scale)):
            plain = (self.family == "plain")
            m, ig = gen_case(rng, userord=not plain, state=not plain, meta_prob=0.0)
            a = ig.forest(m)
            b = yanggen.cross(rng, a, ig.forest(m), m.nodes) if rng.random() < 0.8 else ig.forest(m)
            c = yanggen.cross(rng, b, ig.forest(m), m.nodes)
            s = Script()
            s.ctx()
            s.mod(m.yang())
            s.parse(0, "x", yanggen.to_xml(a))             # 2
            s.parse(1, "j", yanggen.to_json(b))            # 3
            s.parse(9, "x", yanggen.to_xml(c))             # 4
            s.dump(0); s.dump(1)                           # 5 6
            for opts in (DIFF_DEFAULTS, 0):
                s.add("diff", "t0", "t1", opts, "t2")      # +0
                s.add("diff", "t0", "t0", opts, "t4")      # +1
                s.dump(4)                                  # +2
                s.add("dup", "t0", "t3", DUPF)             # +3
                s.add("apply", "t3", "t2")                 # +4
                if not opts:
                    s.add("val", "t3", "c0", VAL_PRESENT)
                else:
                    s.add("inv", "t3")                     # +5
                s.add("cmp", "t3", "t1", CMPX if opts else CMP_FULL)   # +6
                s.dump(3, 0)                               # +7
                s.dump(1, 0)                               # +8
            # purity
            s.dump(0); s.dump(1)                           # 25 26
            uo = schema_has(m, lambda n: getattr(n, "userord", False) or (n.kind in ("list", "leaf-list") and not n.config))
            di = schema_has(m, lambda n: (n.kind == "list" and not n.keys) or (n.kind == "leaf-list" and not n.config))
            nop = lambda: s.dump(31)                       # placeholder keeping the result indices fixed
            s.add("diff", "t0", "t1", DIFF_DEFAULTS, "t2") # 27
            s.dump(2)                                      # (taken out of the result list by judge(): the indices below stay)
            # reverse (defaults diff)
            if "reverse" in self.parts:
                s.add("rev", "t2", "t7")
                s.add("dup", "t1", "t8", DUPF)
                s.add("apply", "t8", "t7")                 # 30
                s.add("cmp", "t8", "t0", CMPX)             # 31
            else:
                for _ in range(4):
                    nop()
            # merge and merge undo: claimed (and supported by lyd_diff_merge_*) for non user-ordered, keyed data only
            if "reverse" in self.parts and not (uo or di):
                s.add("diff", "t1", "t9", DIFF_DEFAULTS, "t10")
                s.add("dup", "t2", "t11", DUPF)
                s.add("dmerge", "t11", "t10", 0)           # 34
                s.add("dup", "t0", "t12", DUPF)
                s.add("apply", "t12", "t11")               # 36
                s.add("cmp", "t12", "t9", CMPX)            # 37
                s.add("diff", "t1", "t0", DIFF_DEFAULTS, "t13")
                s.add("dup", "t2", "t14", DUPF)
                s.add("dmerge", "t14", "t13", 0)           # 40
                s.add("dup", "t0", "t15", DUPF)
                s.add("apply", "t15", "t14")               # 42
                s.add("cmp", "t15", "t0", CMPX)            # 43
            else:
                for _ in range(12):
                    nop()
            # self-contained: print the diff, free A and B, parse it back, apply to a copy of A
            s.add("dup", "t0", "t16", DUPF)
            s.add("rt", "t2", "t5", "b", PRINT_SIBLINGS, PARSE_ONLY, 0, "c0")   # 45 (LYB keeps default flags of the diff nodes)
            s.add("dup", "t1", "t17", DUPF)
            s.add("free", "t0"); s.add("free", "t1"); s.add("free", "t2")
            s.add("apply", "t16", "t5")                    # 50
            s.add("cmp", "t16", "t17", CMPX)               # 51
            L.append(s.line())
            # libyang treats every config-false (leaf-)list as user-ordered
            ue = set()        # names of user-ordered leaf-lists that hold an instance with the empty value in A, B or C
            bq = False        # a key of a user-ordered list instance holds both quote characters
            for forest in (a, b, c):
                for n, _, _ in yanggen.walk(forest):
                    sc = n.schema
                    if sc.kind == "leaf-list" and (sc.userord or not sc.config) and n.value == "":
                        ue.add(sc.name)
                    if sc.kind == "list" and (sc.userord or not sc.config):
                        for ch in getattr(n, "children", []):
                            if ch.schema.name in (sc.keys or []) and "'" in str(ch.value) and '"' in str(ch.value):
                                bq = True
            sl = False        # a keyed state list with other children than its keys (its moved instances are duplicated whole)
            ud = set()        # names of user-ordered leaf-lists that have default values
            for sc in m.all_nodes():
                if sc.kind == "leaf-list" and (sc.userord or not sc.config) and "" in (sc.defaults or ()):
                    ue.add(sc.name)       # the empty value as an IMPLICIT default instance
                if sc.kind == "leaf-list" and (sc.userord or not sc.config) and sc.defaults:
                    ud.add(sc.name)
                if sc.kind == "list" and not sc.config and sc.keys and len(sc.children) > len(sc.keys):
                    sl = True
            # a TOP-LEVEL user-ordered list with keys and other children: the diff node of a moved instance with a change
            # inside can be the first node of the diff when it is relinked
            tm = any(sc.kind == "list" and (sc.userord or not sc.config) and sc.keys and len(sc.children) > len(sc.keys)
                     for sc in m.nodes)
            un = {sc.name for sc in m.all_nodes() if sc.kind in ("list", "leaf-list") and (sc.userord or not sc.config)}
            self.info[L[-1]] = (uo, di, ue, bq, dupinst_names(m) if di else set(), sl, ud, tm, un)
        return L

    @staticmethod
    def uord_ops(ddump, un):
        """(a user-ordered instance is deleted - itself or with an ancestor -, the largest number of moves in one list) of a
        diff dump: the two shapes of the known finding uord-reverse"""
        stack, moves, deleted = [], {}, False
        for i, seg in enumerate(x for x in ddump.split(";") if x and x != "empty"):
            p = seg.split(":")
            d = int(p[0])
            op = None
            for x in p[5:]:
                if x.startswith("operation="):
                    op = bytes.fromhex(x.split("=", 1)[1]).decode()
            del stack[d:]
            eff = op or (stack[-1][1] if stack else None)
            stack.append((i, eff))
            if p[2] in un:
                if eff == "delete":
                    deleted = True
                if op == "replace":
                    k = (stack[-2][0] if d else -1, p[2])
                    moves[k] = moves.get(k, 0) + 1
        return deleted, max(moves.values()) if moves else 0

    def judge(self, line, out):
        if crashed(out):
            return (None, "crash: " + out)
        r = results(out)
        if r[1] != "0" or rc(r[2]) != 0 or rc(r[3]) != 0 or rc(r[4]) != 0:
            return None
        uo, di, ue, bq, dn, sl, ud, tm, un = self.info.get(line, (False, False, set(), False, set(), False, set(), False, set()))
        ddump = r.pop(28) if len(r) > 28 else ""
        a0, b0 = r[5], r[6]
        fwd = self._judge_forward(r, a0, b0, uo, di, ue, bq, dn, sl, ud, tm)
        if fwd:
            # a failure of the forward laws is a C06 matter: the reverse-only oracles (C13) cannot judge such a case
            return fwd if "forward" in self.parts else None
        return self._judge_reverse(r, uo, di, ue, sl, self.uord_ops(ddump, un))

    def _judge_forward(self, r, a0, b0, uo, di, ue=(), bq=False, dn=(), sl=False, ud=(), tm=False):
        k = 7
        for opts in (DIFF_DEFAULTS, 0):
            what = "diff options=%d" % opts
            if r[k] != "0":
                return ("uord-key-both-quotes" if (bq and rc(r[k]) == 7) else None,
                        "lyd_diff_siblings(A,B) failed: %s (%s)" % (r[k], what))
            if r[k + 1] != "0" or r[k + 2] != "empty":
                return (None, "diff(A,A) is not empty (%s)" % what)
            if not r[k + 4].startswith("0"):
                t = None
                if di and (r[k + 4].startswith("3~failed-to-find-node-instance-in-data") or r[k + 4] == "3"):
                    # ("3" without a message: the position addresses the moved instance itself, lyd_insert_after(node, node))
                    t = "dupinst-position"
                elif di and uo and r[k + 4].startswith("6~node-without-an-operation"):
                    t = "uord-move-nested-dupinst"
                elif sl and uo and (r[k + 4].startswith("6~node-without-an-operation") or
                                    r[k + 4].startswith("3~operation-is-invalid-for-node-without-children")):
                    t = "uord-move-state-subtree"
                elif ue and r[k + 4].startswith("3~failed-to-find"):
                    t = "uord-empty-anchor"
                elif tm and uo and opts and r[k + 4].startswith("3~"):
                    t = "uord-diff-first-moved"       # operations linked before the returned diff node are not applied
                return (t, "apply(diff(A,B),A) failed: %s (%s)" % (r[k + 4], what))
            if "!" in r[k + 4]:
                return ("diff-apply-first-sibling" if uo else None, "lyd_diff_apply_all left *data not at the first sibling")
            if opts and r[k + 5] != "ok":
                return (None, "tree after apply breaks an invariant: " + r[k + 5])
            if (not opts) and rc(r[k + 5]) != 0:
                t = "dflt-orphan-after-delete" if ("too-few" in r[k + 5] or "/9/" in r[k + 5] or "/10/" in r[k + 5]) else None
                return (t, "validation after apply failed: " + r[k + 5])
            if (not opts) and "empty" in (a0, b0):
                pass        # LYD_VALIDATE_PRESENT adds no defaults to an empty tree: not comparable after re-validation
            elif r[k + 6] != "0" or (r[k + 7] != r[k + 8] if opts else strip_flags(r[k + 7]) != strip_flags(r[k + 8])):
                if not opts:
                    sa, sb = r[k + 7].split(";"), r[k + 8].split(";")
                    extra = [x for x in sa if strip_flags(x) not in {strip_flags(y) for y in sb}]
                    missing = [x for x in sb if strip_flags(x) not in {strip_flags(y) for y in sa}]
                    # (the surviving node can keep its case selected: then the defaults of the right case are missing)
                    if extra and all(x.split(":")[4:5] and "d" in x.split(":")[4] for x in extra + missing):
                        return ("dflt-orphan-after-delete", "default nodes whose enabling explicit data was deleted survive "
                                "validation: " + ";".join(extra)[:200])
                if di and r[k + 7].replace(":ds", ":s") == r[k + 8].replace(":ds", ":s"):
                    return ("dupinst-dflt-flag", "instances of a key-less list / state leaf-list that differ only in default flags "
                            "are matched as equal by the diff")
                if ue and confined_to(r[k + 7], r[k + 8], ue):
                    return ("uord-empty-anchor", "instances of a user-ordered leaf-list that holds the empty value end up "
                            "different (order / presence): " + ",".join(sorted(ue)))
                if dn and confined_to(r[k + 7], r[k + 8], dn):
                    return ("dupinst-position", "instances of key-less lists / state leaf-lists (matched by position) end up "
                            "different after apply")
                if (not opts) and ud and confined_to(r[k + 7], r[k + 8], ud):
                    return ("uord-dflt-anchor-nodefaults", "explicit instances of a user-ordered leaf-list with defaults, created "
                            "next to its implicit default instances, end up in another order: " + ",".join(sorted(ud)))
                if tm and uo and set(r[k + 7].split(";")) <= set(a0.split(";")) | set(b0.split(";")):
                    return ("uord-diff-first-moved", "only a part of the operations was applied (every node of the result is a "
                            "node of A or of B): the returned diff starts behind its first sibling")
                return (None, "apply(diff(A,B),A) != B (%s)" % what)
            k += 9
        if r[25] != a0 or r[26] != b0:
            return (None, "diff/apply modified its inputs")
        if "forward" in self.parts and not r[45].startswith("P6"):
            # (P6: the LYB printer gave up on colliding sibling hashes - finding lyb-hash-collision of C01, not a diff matter)
            if rc(r[45]) != 0 or not r[50].startswith("0") or r[51] != "0":
                return (None, "printed/parsed diff applied after freeing A,B does not give B: rt=%s apply=%s cmp=%s" % (r[45], r[50], r[51]))
        return None

    def _judge_reverse(self, r, uo, di, ue=(), sl=False, uops=(True, 2)):
        if "reverse" not in self.parts:
            return None
        # reverse
        if r[28] != "0":
            t = None
            if di:
                t = "dupinst-reverse"
            elif sl and uo and r[28].startswith("6~internal-error"):
                t = "uord-move-state-subtree-reverse"
            elif ue and rc(r[28]) == 11:
                t = "uord-empty-anchor-reverse"
            return (t, "lyd_diff_reverse_all failed: " + r[28])
        if not r[30].startswith("0") or "!" in r[30] or r[31] != "0":
            # uord-reverse: only the shapes of its witnesses - a deleted user-ordered instance or two moves in one list
            tag = "uord-reverse" if (uo and (uops[0] or uops[1] >= 2)) else ("dupinst-reverse" if di else None)
            return (tag, "apply(reverse(diff(A,B)),B) != A: apply=%s cmp=%s" % (r[30], r[31]))
        # merge (claimed for non user-ordered data only)
        if not (uo or di):
            if r[34] != "0" or not r[36].startswith("0") or r[37] != "0":
                return (None, "apply(merge(diff(A,B),diff(B,C)),A) != C: merge=%s apply=%s cmp=%s" % (r[34], r[36], r[37]))
            if r[40] != "0" or not r[42].startswith("0") or r[43] != "0":
                return (None, "merging the undoing diff does not cancel: merge=%s apply=%s cmp=%s" % (r[40], r[42], r[43]))
        return None


class DiffUord(Diff):
    name = "diff-uord"
    family = "uord"


class DiffFwd(Diff):
    parts = ("forward",)


class DiffUordFwd(DiffUord):
    parts = ("forward",)


class DiffRev(Diff):
    name = "diff-reverse"
    parts = ("reverse",)


class DiffUordRev(DiffUord):
    name = "diff-uord-reverse"
    parts = ("reverse",)


# ------------------------------------------------------------------------------------------------
# C14: merge and dup
# ------------------------------------------------------------------------------------------------
class MergeDup(Oracle):
    """C14: merge(T,S) contains every explicit source node with the source value, keeps the target rest, leaves S untouched
    unless consumed, equals the destructive merge, is idempotent; merge(empty,S)=S; dup equals the original for every option
    set and is independent of it (editing/freeing either leaves the other intact; run under ASan in the thorough tier)."""
    name = "mergedup"
    quick_sanitize = True

    def gen(self, rng, tier, scale=1.0):
        L = []
        for i in range(self.n(tier, 500, 5000, scale)):
            m, ig = gen_case(rng, userord=(i % 3 == 0), state=(i % 3 == 0), meta_prob=0.05 if i % 2 else 0.0)
            t = ig.forest(m)
            src = yanggen.cross(rng, t, ig.forest(m), m.nodes) if rng.random() < 0.8 else ig.forest(m)
            s = Script()
            s.ctx()
            s.mod(m.yang())
            s.parse(0, "x", yanggen.to_xml(t))               # 2 target
            s.parse(1, "j", yanggen.to_json(src))            # 3 source
            s.dump(1)                                        # 4
            s.add("dup", "t0", "t2", DUPF)                   # 5
            s.add("merge", "t2", "t1", 0)                    # 6 non-destructive
            s.dump(1)                                        # 7 source unchanged
            s.add("inv", "t2")                               # 8
            s.add("dup", "t0", "t3", DUPF)
            s.add("dup", "t1", "t4", DUPF)
            s.add("merge", "t3", "t4", MERGE_DESTRUCT)       # 11
            s.add("cmp", "t2", "t3", CMPX)                   # 12 same result
            s.dump(2, 4); s.dump(3, 4)                       # 13 14
            s.add("merge", "t2", "t1", 0)                    # 15 again
            s.dump(2, 4)                                     # 16 idempotent
            # source content present: diff(merged, source) has no create/replace of explicit nodes => validate by
            # merging into the source: merge(S, merged) then S' superset; cheaper exact check: diff(merged,S) only deletes
            s.add("diff", "t2", "t1", 0, "t5")               # 17
            s.add("print", "t5", "x", PRINT_SIBLINGS | PRINT_SHRINK | WD_ALL)     # 18
            # merge into empty
            s.add("free", "t6")
            s.add("merge", "t6", "t1", 0)                    # 20
            s.add("cmp", "t6", "t1", CMP_FULL)               # 21
            # dup options
            s.add("dup", "t0", "t7", DUP_RECURSIVE)          # 22
            s.add("cmp", "t7", "t0", CMP_FULL)               # 23
            s.add("dup", "t0", "t8", DUPF)
            s.add("cmp", "t8", "t0", CMPX)                   # 25
            s.dump(8); s.dump(0)                             # 26 27
            s.add("dup", "t0", "t10", DUPF | DUP_NO_META)
            s.dump(10, 0); s.dump(0, 4)                      # 29 30
            # independence: free / edit the copy, original intact; free original, copy intact
            s.add("freen", "t8#%d" % rng.randrange(0, 6))
            s.add("chg", "t7#%d" % rng.randrange(0, 10), hexs("1"))
            s.dump(0)                                        # 33
            s.add("dup", "t0", "t9", DUPF)
            s.add("free", "t0")
            s.dump(9)                                        # 36
            s.add("inv", "t9")                               # 37
            # to another context with the same module
            s.ctx(1)
            s.add("mod", "c1", "-", hexs(m.yang()))          # 39
            s.add("dupctx", "t9", "c1", "t11", DUPF)         # 40
            s.dump(11)                                       # 41
            s.add("free", "t9")
            s.add("print", "t11", "j", PRINT_SIBLINGS | PRINT_SHRINK | WD_ALL)   # 43
            L.append(s.line())
        return L

    def judge(self, line, out):
        if crashed(out):
            if "rb_sort_clb" in getattr(self, "last_err", "") and "realtype" in self.last_err:
                return ("dupctx-union-sort", "assertion val1->realtype == val2->realtype in rb_sort_clb after lyd_dup_siblings_to_ctx")
            return (None, "crash: " + out)
        r = results(out)
        if r[1] != "0" or rc(r[2]) != 0 or rc(r[3]) != 0:
            return None
        if r[6] != "0" or r[11] != "0":
            return (None, "merge failed: %s %s" % (r[6], r[11]))
        if r[7] != r[4]:
            return (None, "non-destructive merge modified its source")
        if r[8] != "ok":
            if "not sorted" in r[8]:
                return ("merge-dup-unsorted", "merged tree breaks an invariant: " + r[8])
            return (None, "merged tree breaks an invariant: " + r[8])
        if r[12] != "0" or r[13] != r[14]:
            return (None, "destructive and non-destructive merge differ")
        if r[15] != "0" or r[16] != r[13]:
            return (None, "merge is not idempotent")
        if r[17] != "0":
            return (None, "diff(merged, source) failed")
        d = payload(r[18]).decode("utf-8", "replace")
        if 'operation="create"' in d or 'operation="replace"' in d:
            # user-ordered moves show up as replace with unchanged values; tolerated only with key/value anchors
            if 'yang:key=' not in d and 'yang:value=' not in d and 'yang:position=' not in d:
                return (None, "merged tree lacks source content: diff(merged,source) = " + d[:300])
        if r[20] != "0" or r[21] != "0":
            return (None, "merge into an empty target is not a copy of the source: %s %s" % (r[20], r[21]))
        if r[23] != "0" or r[25] != "0" or r[26] != r[27]:
            return (None, "duplicate differs from the original")
        if r[29] != r[30]:
            return (None, "dup with NO_META differs from the original without metadata")
        if r[33] != r[27]:
            return (None, "editing/freeing a duplicate changed the original")
        if r[36] != r[27] or r[37] != "ok":
            return (None, "freeing the original changed the duplicate")
        if r[39] == "0" and (r[40] != "0" or r[41] != r[27] or rc(r[43]) != 0):
            return (None, "duplicate into another context differs: %s" % r[40])
        return None


# ------------------------------------------------------------------------------------------------
# C07: validation is an idempotent normalisation with an exact change set; with-defaults modes
# ------------------------------------------------------------------------------------------------
def count_terms(xmlbytes):
    """number of elements without element children in a printed XML document (terms + empty inner nodes)"""
    try:
        t = xml_tree(xmlbytes)
    except xml.parsers.expat.ExpatError:
        return -1

    def rec(ns):
        return sum(1 if not n[4] else rec(n[4]) for n in ns)
    return rec(t)


class ValidateIdem(Oracle):
    """C07: validate(validate(T)) = validate(T) with an empty change set; the change set applied to the tree before gives
    the tree after; default-flagged terms hold the schema default; with-defaults modes print exactly the RFC 6243 node
    sets (computed from the tree's flags); histories edit -> validate -> edit -> validate."""
    name = "validate-idem"

    def gen(self, rng, tier, scale=1.0):
        L = []
        for i in range(self.n(tier, 600, 6000, scale)):
            m, ig = gen_case(rng, meta_prob=0.0, userord=(i % 2 == 0), state=(i % 3 == 0))
            f = ig.forest(m, config_only=False)
            s = Script()
            s.ctx()
            s.mod(m.yang())
            s.parse(0, "x", yanggen.to_xml(f), popts=PARSE_STRICT | PARSE_ONLY, vopts=0)    # 2
            nrounds = 3
            for rnd in range(nrounds):
                s.add("dup", "t0", "t1", DUPF)                     # +0
                s.add("val", "t0", "c0", VAL_PRESENT, "t2")        # +1
                s.dump(0, 8 | 1)                                   # +2  (with NEW flag + is-default marks)
                s.add("dup", "t0", "t4", DUPF)
                s.add("val", "t0", "c0", VAL_PRESENT, "t3")        # +4
                s.dump(0, 8 | 1)                                   # +5
                s.dump(3)                                          # +6 empty
                s.add("apply", "t1", "t2")                         # +7
                s.add("cmp", "t1", "t0", CMPX)                     # +8
                s.dump(1); s.dump(0)                               # +9 +10
                s.add("inv", "t0")                                 # +11
                for mode in (WD_EXPLICIT, WD_TRIM, WD_ALL):
                    s.print(0, "x", PRINT_SIBLINGS | PRINT_SHRINK | PRINT_KEEPEMPTY | mode)      # +12..14
                # edits for the next round
                for _ in range(rng.randrange(1, 4)):
                    r = rng.random()
                    if r < 0.5:
                        s.add("freen", "t0#%d" % rng.randrange(0, 25))
                    elif r < 0.8:
                        s.add("chg", "t0#%d" % rng.randrange(0, 25), hexs(rng.choice(["1", "true", "zero", "a", "10", "b1"])))
                    else:
                        s.add("newpath", "t0", "c0", NEWPATH_UPDATE, hexs("/m1:" + rng.choice(m.nodes).name), "~")
            L.append(s.line())
            di = schema_has(m, lambda n: (n.kind == "list" and not n.keys) or (n.kind == "leaf-list" and not n.config))
            ue = schema_has(m, lambda n: n.kind == "leaf-list" and (n.userord or not n.config) and "" in n.defaults) or \
                any(n.schema.kind == "leaf-list" and (n.schema.userord or not n.schema.config) and n.value == ""
                    for n, _, _ in yanggen.walk(f))
            self.info[L[-1]] = (di, ue)
        return L

    def __init__(self):
        self.info = {}

    def judge(self, line, out):
        di, ue = self.info.get(line, (False, False))
        if crashed(out):
            if di and "lyd_diff_merge_r" in getattr(self, "last_err", ""):
                return ("vdiff-dupinst", "assertion in lyd_diff_merge_r while building the validation diff of a key-less list")
            return (None, "crash: " + out)
        r = results(out)
        if r[1] != "0" or rc(r[2]) != 0:
            return None
        cmds = line.split("\t")[1:]
        k = 3
        rnd = 0
        while k + 14 < len(r):
            if not cmds[k].startswith("dup t0 t1"):
                k += 1          # an edit command between rounds
                continue
            rnd += 1
            if rc(r[k + 1]) != 0:
                return None     # the (edited) tree is invalid: end of this history
            d1, d2 = r[k + 2], r[k + 5]
            if rc(r[k + 4]) != 0 or d1 != d2:
                return (None, "second validation changed the tree (round %d)" % rnd)
            if r[k + 6] != "empty":
                return (None, "second validation reports a non-empty change set (round %d)" % rnd)
            if ":n" in d1.replace(":=", "") and any(seg.split(":")[-1].find("n") >= 0 for seg in d1.split(";") if seg):
                # any node still flagged new?
                for seg in d1.split(";"):
                    fl = seg.rsplit(":", 1)[-1] if seg else ""
                    if "n" in fl and "=" not in fl:
                        return (None, "a node keeps the NEW flag after validation: " + seg)
            if not r[k + 7].startswith("0") or r[k + 8] != "0" or r[k + 9] != r[k + 10]:
                t = "vdiff-np-container" if self.only_np_diff(r[k + 9], r[k + 10]) else ("vdiff-dupinst" if di else None)
                if t is None and ue and sorted(r[k + 9].split(";")) == sorted(r[k + 10].split(";")):
                    t = "uord-empty-anchor"
                return (t, "validation diff applied to the tree before does not give the tree after (round %d): apply=%s cmp=%s"
                        % (rnd, r[k + 7], r[k + 8]))
            if r[k + 11] != "ok":
                return (None, "validated tree breaks an invariant: " + r[k + 11])
            # default flag soundness and with-defaults node sets, from the flags in the dump
            nall = ntrim = nexpl = 0
            for seg in d1.split(";"):
                if not seg:
                    continue
                parts = seg.split(":")
                fl = parts[4] if len(parts) > 4 else ""
                is_term = parts[3].startswith("=") if len(parts) > 3 else False
                if is_term:
                    if "d" in fl and "D" not in fl:
                        return (None, "default-flagged node does not hold the schema default: " + seg)
                    nall += 1
                    if "D" not in fl:
                        ntrim += 1
                    if "d" not in fl or "s" in fl:
                        nexpl += 1
            for mode, exp, res in (("explicit", nexpl, r[k + 12]), ("trim", ntrim, r[k + 13]), ("report-all", nall, r[k + 14])):
                if rc(res) != 0:
                    return (None, "print failed in mode " + mode)
                got = count_terms(payload(res))
                # inner nodes without children are counted by count_terms too: compare lower bound and exactness for ALL
                if got < exp:
                    t = "wd-leaflist-partial-default" if mode == "trim" else None
                    return (t, "with-defaults mode %s printed %d leaves, RFC 6243 selects %d" % (mode, got, exp))
            k += 15
        return None

    @staticmethod
    def only_np_diff(a, b):
        sa = [x for x in a.split(";") if ":i:" not in x]
        sb = [x for x in b.split(";") if ":i:" not in x]
        return sa == sb


# ------------------------------------------------------------------------------------------------
# C15: paths identify nodes; C04: edit histories keep the tree canonical and searchable
# ------------------------------------------------------------------------------------------------
def quote_pred(v):
    return "'%s'" % v if "'" not in v else '"%s"' % v


def node_path(n, parents):
    """this file's own rendering of the data path of an instance node (independent of lyd_path)"""
    out = ""
    chain = parents + [n]
    prevmod = None
    for i, x in enumerate(chain):
        s = x.schema
        out += "/" + (("%s:" % s.module.name) if s.module is not prevmod else "") + s.name
        prevmod = s.module
        if s.kind == "list" and s.keys:
            for c in x.children:
                if c.schema.name in s.keys:
                    out += "[%s=%s]" % (c.schema.name, quote_pred(c.value))
        elif s.kind == "leaf-list" and s.config:
            out += "[.=%s]" % quote_pred(x.value)
    return out


def walk_paths(forest, parents=None):
    parents = parents or []
    for n in forest:
        yield n, parents
        yield from walk_paths(n.children, parents + [n])


class Paths(Oracle):
    """C15: for every node, lyd_path() is accepted by lyd_find_path and lyd_find_xpath and both return exactly that node;
    creating from that path (+value) in an empty tree gives the node and its ancestors; creating an existing node reports
    LY_EEXIST (no duplicate)."""
    name = "paths"

    def __init__(self):
        self.info = {}

    def gen(self, rng, tier, scale=1.0):
        L = []
        for i in range(self.n(tier, 400, 4000, scale)):
            m, ig = gen_case(rng, adversarial=True, meta_prob=0.0, state=(i % 2 == 0))
            ig.max_inst = 3
            f = ig.forest(m)
            nn = yanggen.count_nodes(f)
            if nn == 0 or nn > 120:
                continue
            s = Script()
            s.ctx()
            s.mod(m.yang())
            s.parse(0, "j", yanggen.to_json(f), popts=PARSE_STRICT | PARSE_ONLY, vopts=0)      # 2
            s.add("count", "t0")                                                               # 3
            s.add("paths", "t0")                                                               # 4 per node: path find xfind
            s.add("rebuild", "t0", "c0")                                                       # 5 per node: newpath in empty tree
            L.append(s.line())
            both = any(n.value is not None and "'" in n.value and '"' in n.value and
                       (n.schema.kind == "leaf-list" or getattr(n.schema, "is_key", False)) for n, _ in walk_paths(f))
            self.info[L[-1]] = both
        return L

    def judge(self, line, out):
        if crashed(out):
            return (None, "crash: " + out)
        r = results(out)
        if r[1] != "0" or rc(r[2]) != 0:
            return None
        both = self.info.get(line, False)
        for k, what in ((4, "find"), (5, "rebuild")):
            if r[k] != "ok":
                if both and "both-quotes" in r[k]:
                    return ("path-both-quotes", r[k][:300])
                return (None, "%s: %s" % (what, r[k][:400]))
        return None


def creation_items(forest):
    """(path, value) items whose creation by lyd_new_path rebuilds the forest: every term that is not a key, every list
    instance and every childless container"""
    items = []
    for n, parents in walk_paths(forest):
        s = n.schema
        if any(p.schema.kind == "list" and not p.schema.keys for p in parents + [n]):
            return None                     # key-less lists are not addressable by value
        if s.kind == "leaf-list" and not s.config:
            return None
        if n.value is not None and "'" in n.value and '"' in n.value and (s.kind == "leaf-list" or s.is_key):
            return None                     # not expressible in a path predicate (known finding path-both-quotes)
        if s.kind == "leaf":
            if not s.is_key:
                items.append((node_path(n, parents), n.value))
        elif s.kind == "leaf-list":
            items.append((node_path(n, parents), None))
        elif s.kind == "list" or (s.kind == "container" and (s.presence or not n.children)):
            items.append((node_path(n, parents), None))
    return items


class EditHistory(Oracle):
    """C04: after every editing call of a random history (create by path, free, change value incl. keys and leaf-list
    values, unlink + re-insert, merge, apply diff, add implicit, validate) the tree passes the read-only invariant check
    (links, schema order, contiguity, sortedness, children_ht content, every search = scan) and printing + parsing it back
    gives the same tree; the same node set created in two different orders gives equal trees."""
    name = "edit-history"
    quick_sanitize = True

    def gen(self, rng, tier, scale=1.0):
        L = []
        for i in range(self.n(tier, 500, 5000, scale)):
            uo = (i % 3 == 0)
            m, ig = gen_case(rng, adversarial=(i % 4 == 0), meta_prob=0.0, userord=uo, state=False)
            ig.max_inst = 6 if i % 2 else 3
            a = ig.forest(m)
            b = yanggen.cross(rng, a, ig.forest(m), m.nodes)
            ia, ib = creation_items(a), creation_items(b)
            if not ia or not ib:
                continue
            s = Script()
            s.ctx()
            s.mod(m.yang())
            s.parse(0, "x", yanggen.to_xml(a), popts=PARSE_STRICT | PARSE_ONLY, vopts=0)   # 2
            s.parse(1, "j", yanggen.to_json(b), popts=PARSE_STRICT | PARSE_ONLY, vopts=0)  # 3
            s.add("inv", "t0")
            nops = rng.randrange(5, 25)
            for _ in range(nops):
                r = rng.random()
                if r < 0.3:
                    p, v = rng.choice(ib)
                    s.add("newpath", "t0", "c0", NEWPATH_UPDATE, hexs(p), hexs(v) if v is not None else "~")
                elif r < 0.45:
                    p, v = rng.choice(ia + ib)
                    s.add("freepath", "t0", hexs(p))
                elif r < 0.65:
                    # change a value: of any term of A or B (keys and leaf-list values included) to a value of B's
                    n, parents = rng.choice([x for x in walk_paths(a + b) if x[0].value is not None] or [(None, None)])
                    if n is None:
                        continue
                    s.add("chgpath", "t0", hexs(node_path(n, parents)), hexs(n.schema.type.valid(rng)))
                elif r < 0.75:
                    k = rng.randrange(0, 30)
                    s.add("unlink", "t0#%d" % k, "t5")
                    s.add("ins", rng.choice(["sibling", "child", "before", "after"]), "t0#%d" % rng.randrange(0, 30), "t5")
                    s.add("free", "t5")
                elif r < 0.82:
                    s.add("merge", "t0", "t1", 0)
                elif r < 0.88:
                    # diff/apply are defined on valid trees only (an edit may have produced duplicate instances)
                    s.add("val", "t0", "c0", VAL_PRESENT)
                    s.add("ifok", "diff", "t0", "t1", DIFF_DEFAULTS, "t6")
                    s.add("ifok", "apply", "t0", "t6")
                elif r < 0.94:
                    s.add("implicit", "t0", "c0", 0)
                else:
                    s.add("val", "t0", "c0", VAL_PRESENT)
                s.add("inv", "t0")
            s.dump(0, 2)
            s.add("rt", "t0", "t9", "x", PRINT_SIBLINGS | PRINT_SHRINK | WD_ALL | PRINT_KEEPEMPTY, PARSE_ONLY | PARSE_STRICT, 0, "c0")
            s.dump(9, 2)
            # order independence of creation (not for user-ordered data)
            if not uo:
                for slot in (10, 11):
                    items = list(ia)
                    rng.shuffle(items)
                    for p, v in items:
                        s.add("newpath", "t%d" % slot, "c0", NEWPATH_UPDATE, hexs(p), hexs(v) if v is not None else "~")
                s.add("inv", "t10")
                s.add("cmp", "t10", "t11", CMP_FULL)
                s.dump(10, 2); s.dump(11, 2)
                s.add("free", "t12")
                s.parse(12, "x", yanggen.to_xml(a), popts=PARSE_STRICT | PARSE_ONLY, vopts=0)
                s.add("cmp", "t10", "t12", CMP_FULL)
                s.dump(12, 2)
            L.append(s.line())
        return L

    def judge(self, line, out):
        if crashed(out):
            return (None, "crash: " + out + " " + getattr(self, "last_err", "")[-300:])
        r = results(out)
        if r[1] != "0" or rc(r[2]) != 0 or rc(r[3]) != 0:
            return None
        cmds = line.split("\t")[1:]
        for k, c in enumerate(cmds):
            if c.startswith("inv ") and r[k] != "ok":
                prev = cmds[k - 1].replace("ifok ", "").split(" ")[0] if k else ""
                # (the former known finding implicit-toplevel-order, fixed by libyang 7ad8277, is a plain failure now;
                # regression case: corpus/edit-history.txt)
                return (None, "after '%s': %s" % (" ".join(cmds[k - 1].split(" ")[:3]), r[k]))
            if "!" in r[k] and not c.startswith("dump"):
                return (None, "after '%s': %s" % (" ".join(c.split(" ")[:3]), r[k]))
        # print/parse fixpoint
        k = max(i for i, c in enumerate(cmds) if c.startswith("rt t0 t9"))
        if rc(r[k]) != 0 or r[k - 1] != r[k + 1]:
            return (None, "printing the edited tree and parsing it back gives a different tree (rt=%s)" % r[k])
        if cmds[-1].startswith("dump t12"):
            n = len(cmds)
            if r[n - 8] != "ok":
                return (None, "tree built by lyd_new_path breaks an invariant: " + r[n - 8])
            if r[n - 7] != "0" or r[n - 6] != r[n - 5]:
                return (None, "the same node set created in two different orders gives different trees")
            if r[n - 2] != "0" or r[n - 1] != r[n - 6]:
                return (None, "tree built by lyd_new_path differs from the parsed tree of the same instance")
        return None
