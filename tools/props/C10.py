"""C10 - printed schemas re-parse to the same module"""
from props import comps_ytext as Y

PID = "C10"
LEVEL = "proof"


def components():
    return [Y.YEnc(), Y.YPrint(), Y.YLex(), Y.YRt()]


def oracles_():
    return [Y.YModRT()]


MANIFEST = {
    "text": "Coq theorems (Properties_C10_ytext.v): the YANG printer's string output (ypr_encode/ypr_text, both layouts and quote "
            "kinds, every indentation level) is read back by the quoted-string lexer as the same argument for every string under "
            "exactly the hypotheses the proof forces (no CR, no blank before LF, ...), each hypothesis with a refutation witness; "
            "print is a fixpoint under them. Tie: extracted model vs the static C functions (T2). Whole-module print/parse/print is "
            "checked by the API oracle (search).",
    "note": "Modelled C: ypr_encode, ypr_text, ypr_text_squote_line, read_qstring via get_argument, buf_store_char. Statement-level "
            "printers (printer_yang.c/printer_yin.c bodies, extension instances) are only reached by the oracle.",
    "technique": "Coq proof (printer/lexer round trip) + differential correspondence + module round-trip oracle",
}
