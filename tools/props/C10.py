"""C10 - printed schemas re-parse to the same module"""
from props import comps_ytext as Y

PID = "C10"
LEVEL = "proof"


def components():
    return [Y.YEnc(), Y.YPrint(), Y.YLex(), Y.YRt()]


def oracles_():
    return [Y.YModRT()]


MANIFEST = {
    "text": "Coq theorems (Properties_C10_ytext.v): the YANG printer's string output (ypr_encode/ypr_text, both layouts and quote "
            "kinds, every indentation level) is read back by the quoted-string lexer as the same argument: for double-quoted "
            "printing for every lexable string without a carriage return (C10_yang_text_roundtrip_dquoted; blanks before a "
            "newline and, in the single-line layout, after a newline are covered since the printer escapes such a newline, "
            "C10_yang_text_roundtrip_trailing_ws_fixed / _singleline_indent_fixed), for single-quoted printing for every "
            "string without a newline; each remaining hypothesis has a refutation witness (_cr_refuted, "
            "_squote_newline_refuted, _print_fixpoint_cr_refuted, _char_plane4_refuted); print is a fixpoint under the same "
            "hypotheses (C10_yang_text_print_fixpoint_partial). Tie: extracted model vs the static C functions (T2). "
            "Whole-module print/parse/print of description, units, presence and (double- or single-quoted) default "
            "arguments is checked by the API oracle (search).",
    "note": "Modelled C: ypr_encode, ypr_text, ypr_text_squote_line, read_qstring via get_argument, buf_store_char. Statement-level "
            "printers (printer_yang.c/printer_yin.c bodies, extension instances) are only reached by the oracle.",
    "technique": "Coq proof (printer/lexer round trip) + differential correspondence + module round-trip oracle",
}
