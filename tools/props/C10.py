"""C10 - printed schemas re-parse to the same module"""
from props import comps_ytext as Y
from props import comps_ymod as YM

PID = "C10"
LEVEL = "proof"


def components():
    return [Y.YEnc(), Y.YPrint(), Y.YLex(), Y.YRt()]


def oracles_():
    return [Y.YModRT(), YM.ModuleRT()]


MANIFEST = {
    "text": "Coq theorems (Properties_C10_ytext.v): the YANG printer's string output (ypr_encode/ypr_text, both layouts and quote "
            "kinds, every indentation level) is read back by the quoted-string lexer as the same argument: for double-quoted "
            "printing for every lexable string without a carriage return (C10_yang_text_roundtrip_dquoted; blanks before a "
            "newline and, in the single-line layout, after a newline are covered since the printer escapes such a newline, "
            "C10_yang_text_roundtrip_trailing_ws_fixed / _singleline_indent_fixed), for single-quoted printing for every "
            "string without a newline; each remaining hypothesis has a refutation witness (_cr_refuted, "
            "_squote_newline_refuted, _print_fixpoint_cr_refuted); the lexer's character rule is the RFC 7950 yang-char rule "
            "(C10_yang_char_spec, _plane4_regression since f25b870); print is a fixpoint under the same "
            "hypotheses (C10_yang_text_print_fixpoint_partial). Tie: extracted model vs the static C functions (T2). "
            "Whole-module print/parse/print of description, units, presence and (double- or single-quoted) default "
            "arguments is checked by the API oracle ymod (search). Module level (search, oracle modrt, comps_ymod.py + "
            "impl/t_ymod.c): generated whole modules with a submodule (every statement of RFC 7950 section 7 with its "
            "substatements in shuffled order, extension instances under every statement kind, adversarial strings and source "
            "spellings in every string-valued statement), the structured sets of C11, data-oriented modules and the real "
            "modules of the repository go, per feature set, through: YANG print -> fresh context -> accepted, identical compiled "
            "print, identical second YANG and YIN print; YIN print -> fresh context -> accepted, identical compiled and YIN "
            "print, YANG print equal as a token sequence; submodule prints likewise; the only imported (parsed, not compiled) "
            "module likewise; compiled and tree prints identical when printed twice and from two contexts; a digest of the "
            "compiled structures written by the driver itself (presence and other flags, defaults, units, descriptions, must / "
            "when, types with restrictions, extension instances; absent and empty told apart) identical after both round "
            "trips; the statements of the generated source equal the statements of the first YANG print.",
    "note": "Modelled C: ypr_encode, ypr_text, ypr_text_squote_line, read_qstring via get_argument, buf_store_char. Statement-level "
            "printers (printer_yang.c/printer_yin.c bodies, extension instances) and the YIN parser are only reached by the "
            "oracles. The module generator does not write the constructs of the findings listed in known_findings.d/ymod.json "
            "(each is replayed from its witness in corpus/ymod-findings.txt; YMOD_NO_AVOID=<tag,..|all> generates them again).",
    "technique": "Coq proof (printer/lexer round trip) + differential correspondence + module round-trip oracle",
}
