"""C10 - printed schemas re-parse to the same module"""
from props import comps_ytext as Y
from props import comps_ymod as YM

PID = "C10"
LEVEL = "proof"


def components():
    return [Y.YEnc(), Y.YPrint(), Y.YLex(), Y.YRt()]


def oracles_():
    return [Y.YModRT(), YM.ModuleRT()]


MANIFEST = {
    "text": "PROVED (Coq, Properties_C10_ytext.v, about the model YangText.v of the C string printer and lexer): for every byte "
            "string s the lexer accepts (ylexable), every statement name without a newline, every indentation level and "
            "LY_PRINT_SHRINK, both layouts (text after the name / on a line of its own) and both quote kinds, lexing what "
            "ypr_text prints for s, at the column of the opening quote and followed by a byte that is neither + nor white space, "
            "returns exactly s - under the hypothesis rt_hyp: no carriage return when double-quoted, no newline when "
            "single-quoted (C10_yang_text_roundtrip; double-quoted case spelled out: C10_yang_text_roundtrip_dquoted; s given as "
            "the UTF-8 encoding of any sequence of RFC 7950 yang-char: C10_yang_text_roundtrip_unicode; the one-line form "
            "ypr_encode between double quotes used for extension arguments: C10_yang_encode_roundtrip). Under the same "
            "hypotheses printing the lexed text reproduces the first print (C10_yang_text_print_fixpoint_partial; partial = only "
            "under rt_hyp). Each hypothesis is necessary, by witness: C10_yang_text_roundtrip_cr_refuted, "
            "C10_yang_text_print_fixpoint_cr_refuted, C10_yang_text_roundtrip_squote_newline_refuted (known findings yang-cr, "
            "yang-squote-newline). Regression statements of two repaired defects: blanks before a newline / after a newline in the "
            "one-line layout are kept because such a newline is printed escaped (C10_yang_text_roundtrip_trailing_ws_fixed, "
            "C10_yang_text_roundtrip_singleline_indent_fixed; fixed by f628c31); the lexer's character test equals the RFC 7950 "
            "yang-char rule for every code point (C10_yang_char_spec, exhaustive; C10_yang_char_plane4_regression, fixed by "
            "f25b870). Satisfiability of the hypotheses: Example C10_yang_text_example. TIE (T2): the extracted model and the "
            "static C functions are run on the same generated inputs and must print the same bytes (ypr_encode; ypr_text for "
            "every layout; get_argument/read_qstring on arbitrary quoted text at a column; print-then-lex). SEARCH, not proof - "
            "everything at the level of whole modules: oracle ymod (one fixed module shape: print / parse / print of a "
            "description, units, presence, default argument); oracle modrt (comps_ymod.py + impl/t_ymod.c): generated whole "
            "modules with up to two submodules (every parent/substatement pair of the RFC 7950 section 7 grammar, shuffled order, "
            "extension instances under the statement kinds, adversarial and boundary strings - empty, blank, only quotes / "
            "newline / backslash - in every string-valued statement with both quote styles and + concatenation in the source, "
            "numeric arguments at their limits, YANG 1 modules), the structured sets of C11, data-oriented modules, the witness "
            "modules of the repaired findings and the real modules of the repository go, per feature set, through: YANG print -> "
            "fresh context -> accepted, identical compiled print, identical second YANG and YIN print; YIN print -> fresh "
            "context -> accepted, identical compiled and YIN print, YANG print equal as a token sequence (string values compared, "
            "not their quoting or layout: YIN carries no quoting); submodule prints likewise; the only imported (parsed, not "
            "compiled) module likewise; compiled and tree prints identical when printed twice and from two contexts; a digest of "
            "the compiled structures written by the driver itself (flags incl. presence, defaults, units, descriptions, must / "
            "when, types with restrictions, extension instances; absent and empty told apart) identical after both round trips; "
            "the statements of the generated source equal, order aside, the statements of the first YANG print.",
    "note": "Modelled (transcribed by hand, tied by T2 only): printer_yang.c ypr_encode, ypr_text_squote_line, ypr_text; "
            "parser_yang.c get_argument entered at a quote, read_qstring, skip_comment, buf_store_char; is_yangutf8char; "
            "ly_getutf8 (Utf8.v). The theorems speak about this model, for one argument string at a time. NOT modelled, reached "
            "by the oracles only (a search that reports concrete failing modules, no proof): every statement-level printer "
            "(printer_yang.c / printer_yin.c bodies, compiled and tree printers, extension instances and plugins), the YANG and "
            "YIN statement parsers, compilation. Trusted: the drivers impl/t_ytext.c and impl/t_ymod.c, the Python generators, "
            "the YANG tokenizer used for the YIN->YANG comparison and for source-vs-print. Outside everything: modules given as "
            "YIN or hand-written YANG 1 source beyond the generated ones, lys_print_node / file and fd variants of the print API, "
            "LYS_PRINT options other than the default. The module generator leaves out the constructs of the OPEN findings so "
            "that they cannot hide anything else in the same module (yang-cr, yang-squote-newline; of known_findings.d/ymod.json: "
            "ext-storage-realloc-dangling, refine-iffeature-default-case-crash, and yin-ext-nested-generic - nested extension "
            "instances are generated in part of the modules, which then skip the checks that PARSE YIN), each replayed from its "
            "witness on every run, and a few constructs that crash libyang for reasons outside C10 (refine if-feature on a "
            "unique leaf, extension instance on a type referring to a typedef, typedef chains of three, default values of bits "
            "types with positions near 2^32). The findings of this oracle that were repaired in /repo are listed as fixed "
            "with their commits in known_findings.d/ymod.json (e.g. yin-ext-substmt-text a7f915d, compiled-print-ext-order "
            "d3bb587, ext-nested-dropped 347838c, bits-position-max-bitmap 2baac78); their constructs are generated again and "
            "their witnesses are regression cases. YMOD_NO_AVOID=<tag,..|all> generates the left-out constructs of open findings.",
    "technique": "Coq proof (printer/lexer round trip) + differential correspondence + module round-trip oracle",
}
