"""comps_paths.py - C15 oracle PathsOps (driver impl/t_paths.c): every node of data, RPC / action request, reply and
notification trees over schemas with adversarial identifier shapes.

Generator blind spots this file covers (on top of oracles.Paths):
  * identifier shapes: yanggen.SchemaGen(names=AdvNames, key_shuffle=True): names that are prefixes of each other continued
    with '-', '.', '_', digits, letters; XPath / YANG keywords and function names; every identifier character; very long names;
    case variants; the same local name in two modules (second module augments the first: data nodes, RPC input / output,
    notifications), key order shuffled against leaf order;
  * operation data: RPC, action (nested in containers / list entries), replies, top-level and nested notifications, where
    leaf-lists and key-less lists hold duplicates and nodes are neither config true nor config false; state data with
    key-less lists / leaf-lists nested several levels and duplicates injected;
  * key / leaf-list types: identityref (identities of two modules with equal local names), instance-identifier, decimal64,
    bits, empty, boolean, union, enumerations whose names hold blanks, brackets, quotes, slashes; non-canonical lexical
    forms in the documents (the path has to carry the canonical one).

Oracle: the driver checks find / xfind / create / re-create / whole-tree rebuild by pointer identity (see t_paths.c); this
file compares the multiset of lyd_path() strings with its OWN rendering of the paths from the generated instance (form of
every predicate: keys in key-statement order, value for configuration leaf-lists, position otherwise; module prefix where
the module changes; canonical values)."""
import json as _json

import yanggen
from yanggen import (SNode, SLeaf, SLeafList, SContainer, SList, SChoice, DNode, TString, TInt, TDec64, TBool, TEmpty, TEnum,
                     TBits, TUnion, INT_BOUNDS, yang_dq, xml_text)
from vlib import hexs, unhex
from props.oracles import Oracle, crashed


# ------------------------------------------------------------------------------------------------
# types with lexical variants:  valid() gives the canonical value, lexical() another spelling of it
# ------------------------------------------------------------------------------------------------
class PString(TString):
    """strings over the characters that matter inside a path predicate"""
    ALPHA = ["a", "b", "z", "0", " ", "  ", "[", "]", "/", "=", "'", "*", ".", "..", "//", ":", "|", "(", ")", "@", ",", "$", "-", "+",
             "é", "€", "[1]", "[.='", "']", " and ", " or ", "\\", "\t", "<", "&", ">", "{", "}", "#", "%", "!", "~", "^", ";"]

    def __init__(self, quote='"'):
        super().__init__()
        self.quote = quote

    def valid(self, rng):
        n = rng.choice([0, 1, 1, 2, 3, 4, 6])
        s = "".join(rng.choice(self.ALPHA) for _ in range(n))
        r = rng.random()
        if r < 0.25:
            # the other quote character (only one kind per value, except rarely: listed known finding path-both-quotes)
            q = "'" if "'" in s else rng.choice("'\"")
            k = rng.randrange(len(s) + 1)
            s = s[:k] + q + s[k:]
        elif r < 0.265:
            s += "'\""
        return s


class PInt(TInt):
    def lexical(self, rng, v, fmt):
        n = int(v)
        if fmt == "j" and self.json_kind == "number":
            return v                              # a JSON number has one spelling
        r = rng.random()
        if r < 0.4 and n >= 0:
            return "+" + v
        if r < 0.8 and fmt != "j":
            # (not in JSON: a 64-bit integer written as a JSON string with a leading zero is read as an OCTAL number by
            # libyang - reported separately, it is a defect of value parsing, not of paths)
            return ("-" if n < 0 else "") + "00" + str(abs(n))
        return v


class PDec64(TDec64):
    def lexical(self, rng, v, fmt):
        r = rng.random()
        ip, fp = v.split(".")
        if r < 0.3 and len(fp) < self.fd:
            return v + "0" * rng.randrange(1, self.fd - len(fp) + 1)
        if r < 0.5 and fp == "0":
            return ip
        if r < 0.7 and not v.startswith("-"):
            return "+" + v
        if r < 0.85:
            return ("-0" + ip[1:] if ip.startswith("-") else "0" + ip) + "." + fp
        return v


class PEnum(TEnum):
    def yang(self):
        return "type enumeration { %s }" % " ".join('enum "%s" { value %d; }' % (yang_dq(n), v) for n, v in self.names)


class PBits(TBits):
    def lexical(self, rng, v, fmt):
        parts = v.split()
        if len(parts) > 1 and rng.random() < 0.7:
            rng.shuffle(parts)
            return rng.choice([" ", "  ", " \n "]).join(parts)
        return v


class TIdentRef(yanggen.Type):
    name = "identityref"

    def __init__(self, idents):
        self.idents = idents                 # [(module name, identity name)]

    def yang(self):
        return "type identityref { base m1:base-id; }"

    def valid(self, rng):
        return "%s:%s" % rng.choice(self.idents)

    def lexical(self, rng, v, fmt, leafmod="m1"):
        mod, name = v.split(":", 1)
        if mod == leafmod and rng.random() < 0.5:
            return name                      # identity of the leaf's own module: prefix optional
        return v

    def sort_key(self, v):
        return v.encode()


class TInstId(yanggen.Type):
    name = "instance-identifier"

    def __init__(self, targets):
        self.targets = targets               # shared list of (canonical, fully prefixed spelling), filled after the schema exists

    def yang(self):
        return "type instance-identifier { require-instance false; }"

    def valid(self, rng):
        return rng.choice(self.targets)[0] if self.targets else "/m1:base-target"

    def lexical(self, rng, v, fmt):
        # XML: every node name carries a prefix (RFC 7950 9.13.2); JSON: prefix exactly where the module changes (RFC 7951 6.11)
        for c, full in self.targets:
            if c == v and fmt == "x":
                return full
        return v

    def sort_key(self, v):
        return v.encode()


ENUM_ADV = [("zero", 0), ("a b", 1), ("it's", 2), ("x/y", 3), ("[1]", 4), ("k='v'", 5), ('say "hi"', 6), ("and", 7), (".", 8), ("*", 9),
            ("-1", 10), ("1e3", 11), ("..", 12)]
IDENTS = [("m1", "id1"), ("m1", "id-2"), ("m1", "and"), ("m1", "id1.x"), ("m2", "id1"), ("m2", "ID1"), ("m2", "or")]


def ptype(rng, targets, two_modules):
    r = rng.random()
    if r < 0.17:
        return PString()
    if r < 0.22:
        return TString(length=(1, 5))
    if r < 0.26:
        return TString(pattern="[a-z]+")
    if r < 0.38:
        nm = rng.choice(list(INT_BOUNDS))
        if rng.random() < 0.3:
            lo, hi = INT_BOUNDS[nm]
            a = max(lo, -10) if lo < 0 else 0
            return PInt(nm, [(a, a + 5), (a + 10, a + 10), (a + 20, min(hi, a + 100))])
        return PInt(nm)
    if r < 0.48:
        return PDec64(rng.choice([1, 2, 5, 18]))
    if r < 0.54:
        return TBool()
    if r < 0.62:
        return PEnum(rng.sample(ENUM_ADV, 5)) if rng.random() < 0.7 else TEnum([("zero", 0), ("one", 1), ("minus", -3), ("big", 100)])
    if r < 0.69:
        return PBits([("b0", 0), ("b1", 1), ("and", 5), ("b-31.x", 31)])
    if r < 0.74:
        return TEmpty()
    if r < 0.83:
        return TIdentRef([i for i in IDENTS if two_modules or i[0] == "m1"])
    if r < 0.92:
        return TInstId(targets)
    return TUnion([TInt("int8"), TEnum([("up", 1), ("down", 2)]), TString(length=(1, 4), letters=True)])


# ------------------------------------------------------------------------------------------------
# operations as schema nodes
# ------------------------------------------------------------------------------------------------
class SOp(SNode):
    """rpc / action: children of input and of output"""

    def __init__(self, name, kind, inp, outp):
        super().__init__(name)
        self.kind = kind                     # "rpc" | "action"
        self.input = inp
        self.output = outp
        for c in inp + outp:
            c.parent = self

    def yang(self, ind, cfg_parent=True):
        s = "%s%s %s {\n%s  input {\n" % (ind, self.kind, self.name, ind)
        for c in self.input:
            s += c.yang(ind + "    ")
        s += "%s  }\n%s  output {\n" % (ind, ind)
        for c in self.output:
            s += c.yang(ind + "    ")
        return s + "%s  }\n%s}\n" % (ind, ind)


class SNotif(SNode):
    kind = "notification"

    def __init__(self, name, children):
        super().__init__(name)
        self.children = children
        for c in children:
            c.parent = self

    def yang(self, ind, cfg_parent=True):
        s = "%snotification %s {\n" % (ind, self.name)
        for c in self.children:
            s += c.yang(ind + "  ")
        return s + ind + "}\n"


def schildren(s):
    """all schema children lists of a node: [(what, list)] ; what in child | case:<name> | input | output"""
    if s.kind in ("container", "list", "notification"):
        return [("child", s.children)]
    if s.kind == "choice":
        return [("case:" + cn, ns) for cn, ns in s.cases]
    if s.kind in ("rpc", "action"):
        return [("input", s.input), ("output", s.output)]
    return []


def swalk(nodes):
    for n in nodes:
        yield n
        for _, lst in schildren(n):
            yield from swalk(lst)


def schema_path(lst_owner, what):
    """schema node id (for augment) of a children list: owner node + which of its lists"""
    segs = []
    if what in ("input", "output"):
        segs.append("m1:" + what)
    elif what.startswith("case:"):
        segs.append("m1:" + what[5:])
    n = lst_owner
    while n is not None:
        segs.append("m1:" + n.name)
        p = n.parent
        if p is not None and p.kind == "choice":
            for cn, ns in p.cases:
                if n in ns:
                    segs.append("m1:" + cn)
        elif p is not None and p.kind in ("rpc", "action"):
            segs.append("m1:" + ("input" if n in p.input else "output"))
        n = p
    return "/" + "/".join(reversed(segs))


class PModule(yanggen.Module):
    """module with identities; children flagged .aug belong to another module and are left out of this module's text"""

    def __init__(self, name, nodes, identities=(), **kw):
        self.identities = list(identities)       # (name, base or None)
        super().__init__(name, nodes, **kw)

    def yang(self):
        saved = []
        for n in swalk(self.nodes):
            for _, lst in schildren(n):
                if any(getattr(c, "aug", False) for c in lst):
                    saved.append((lst, list(lst)))
                    lst[:] = [c for c in lst if not getattr(c, "aug", False)]
        try:
            s = super().yang()
        finally:
            for lst, old in saved:
                lst[:] = old
        ids = "".join("  identity %s%s\n" % (n, " { base %s; }" % b if b else ";") for n, b in self.identities)
        head, sep, rest = s.partition("  prefix %s;\n" % self.prefix)
        # imports are printed right after the prefix by Module.yang(); identities must follow them
        lines = rest.split("\n")
        k = 0
        while k < len(lines) and lines[k].startswith("  import "):
            k += 1
        return head + sep + "\n".join(lines[:k]) + ("\n" if k else "") + ids + "\n".join(lines[k:])


class PGen(yanggen.SchemaGen):
    """SchemaGen with the extended type set, key-less lists and duplicates inside operations"""

    def __init__(self, rng, two_modules=True, **kw):
        super().__init__(rng, adversarial=True, constraints=False, defaults=False, **kw)
        self.targets = []
        self.two = two_modules
        self.in_op = False

    def ptype(self):
        return ptype(self.rng, self.targets, self.two)

    def leaf(self, config=True, allow_mand=True):
        return SLeaf(self.nm("lf"), self.ptype(), config=config)

    def leaflist(self, config=True):
        t = self.ptype()
        while isinstance(t, TEmpty):
            t = self.ptype()
        return SLeafList(self.nm("ll"), t, userord=self.userord and self.rng.random() < 0.4, config=config)

    def list(self, depth, config=True):
        rng = self.rng
        cfg = config and not (self.state and not self.in_op and rng.random() < 0.15)
        keyless = ((not cfg) or self.in_op) and rng.random() < 0.4
        nkeys = 0 if keyless else rng.choice([1, 1, 2, 2, 3])
        keys, children = [], []
        for _ in range(nkeys):
            k = SLeaf(self.key_name(keys), self.ptype(), config=cfg)
            keys.append(k.name)
            children.append(k)
        children += self.nodes(depth - 1, cfg, count=rng.randrange(1, 4))
        if self.key_shuffle and len(keys) > 1:
            rng.shuffle(keys)
        return SList(self.nm("l"), keys, children, userord=(self.userord and bool(keys) and rng.random() < 0.35), config=cfg)

    def key_name(self, keys):
        """key names of one list are often a family: one a proper prefix of another, continued by any identifier character"""
        rng = self.rng
        if keys and self.names is not None and rng.random() < 0.5:
            base = rng.choice(keys)[:40]
            for _ in range(8):
                r = rng.random()
                if r < 0.2:
                    c = rng.choice([base.upper(), base.lower(), base.swapcase(), base.capitalize()])
                elif r < 0.7 or len(base) < 2:
                    c = base + rng.choice(yanggen.AdvNames.CONT)
                else:
                    c = base[:rng.randrange(1, len(base))]
                if c not in self.names.used and (c[0].isalpha() or c[0] == "_") and not c.lower().startswith("xml"):
                    self.names.used.add(c)
                    self.n += 1
                    return c
        return self.nm("k")

    def op_nodes(self, depth=2, count=None):
        saved = self.state, self.in_op
        self.state, self.in_op = False, True
        try:
            ns = self.nodes(depth, config=True, count=count if count is not None else self.rng.randrange(1, 4))
            # operations are where leaf-lists / key-less lists with duplicates live: make sure there is one
            if self.rng.random() < 0.7:
                ns.append(self.leaflist(True))
            if self.rng.random() < 0.4:
                ns.append(self.list(depth, True))
        finally:
            self.state, self.in_op = saved
        for n in swalk(ns):
            n.in_op = True
        return ns


def is_dup(s):
    return (s.kind == "list" and not s.keys) or (s.kind == "leaf-list" and (not s.config or getattr(s, "in_op", False)))


def scope_names(lst):
    """names that must stay distinct among the schema children `lst` of one data parent (choices are transparent)"""
    out = set()
    for n in lst:
        out.add(n.name)
        if n.kind == "choice":
            for cn, ns in n.cases:
                out.add(cn)
                out |= scope_names(ns)
    return out


def rename(n, new):
    p = n.parent
    if getattr(n, "is_key", False) and p is not None and p.kind == "list":
        p.keys[p.keys.index(n.name)] = new
    n.name = new


def share_names(rng, lst, chain=(), prob=0.12):
    """the generators hand out every name once per module; equal names in DIFFERENT scopes are legal and matter to name
    lookup: a node named like one of its ancestors, output nodes named like input nodes of the same operation"""
    names = scope_names(lst)

    def data_nodes(ns):
        for n in ns:
            if n.kind == "choice":
                for _, cs in n.cases:
                    yield from data_nodes(cs)
            else:
                yield n
    for n in data_nodes(lst):
        if chain and rng.random() < prob:
            c = rng.choice(chain)
            if c not in names:
                names.add(c)
                rename(n, c)
    for n in data_nodes(lst):
        if n.kind in ("rpc", "action"):
            share_names(rng, n.input, chain + (n.name,), prob)
            onames = scope_names(n.output)
            ins = [x.name for x in data_nodes(n.input)]
            for x in data_nodes(n.output):
                if ins and rng.random() < 0.4:
                    c = rng.choice(ins)
                    if c not in onames:
                        onames.add(c)
                        rename(x, c)
            share_names(rng, n.output, chain + (n.name,), prob)
        else:
            for _, sub in schildren(n):
                share_names(rng, sub, chain + (n.name,), prob)


def gen_schema(rng, adv_names=True, two_modules=True):
    """-> (modules in load order, the generator of the first module)"""
    pool = yanggen.AdvNames() if adv_names else None
    g = PGen(rng, two_modules=two_modules, names=pool, key_shuffle=True)
    nodes = g.nodes(3, count=rng.randrange(2, 5))
    if rng.random() < 0.85:
        nodes.append(SContainer(g.nm("c"), g.nodes(2, False, count=rng.randrange(2, 6)), presence=rng.random() < 0.3, config=False))
    # nested actions / notifications (not below a key-less list, RFC 7950 7.15 / 7.16)
    def place(lst, anc, keyless_above):
        for n in list(lst):
            if n.kind in ("container", "list"):
                kl = keyless_above or (n.kind == "list" and not n.keys)
                if not kl and rng.random() < 0.25:
                    n.children.append(SOp(g.nm("act"), "action", g.op_nodes(), g.op_nodes()))
                    n.children[-1].parent = n
                if not kl and rng.random() < 0.2:
                    n.children.append(SNotif(g.nm("nt"), g.op_nodes()))
                    n.children[-1].parent = n
                place([c for c in n.children if c.kind in ("container", "list", "choice")], anc + [n], kl)
            elif n.kind == "choice":
                for _, ns in n.cases:
                    place(ns, anc, keyless_above)
    place(nodes, [], False)
    rpcs = [SOp(g.nm("rpc"), "rpc", g.op_nodes(), g.op_nodes()) for _ in range(rng.randrange(1, 3))]
    notifs = [SNotif(g.nm("ntf"), g.op_nodes()) for _ in range(rng.randrange(1, 3))]
    nodes.append(SLeaf("base-target", TString(length=(1, 5))))
    share_names(rng, nodes + rpcs + notifs)
    m1 = PModule("m1", nodes + rpcs + notifs, identities=[("base-id", None)] + [(n, "base-id") for m, n in IDENTS if m == "m1"],
                 annotations=[])
    for n in swalk(m1.nodes):
        n.module = m1
    mods = [m1]
    if two_modules:
        # second module: same local names, augments data nodes, RPC input/output and notifications of the first
        def data_parent(x):
            x = x.parent
            while x is not None and x.kind == "choice":
                x = x.parent
            return x
        # (not the cases of a top-level choice: libyang cannot parse top-level data nodes that another module adds to a
        # choice of this module - "Node not found in the module" - reported separately, it is not a defect of paths)
        cands = [(n, what, lst) for n in swalk(m1.nodes) for what, lst in schildren(n)
                 if not (n.kind == "choice" and data_parent(n) is None)]
        rng.shuffle(cands)
        augs = []
        g2names = None
        for n, what, lst in cands[:rng.randrange(1, 4)]:
            if pool is not None:
                g2names = yanggen.AdvNames(reuse=[c.name for c in lst] + [n.name], prob=0.95)
                g2names.used = set(x for a in augs for x in a[3])
            g2 = PGen(rng, two_modules=True, names=g2names, key_shuffle=True)
            g2.n = 1000 + 100 * len(augs)
            g2.targets = g.targets
            in_op = n.kind in ("rpc", "action", "notification") or getattr(n, "in_op", False)
            cfg = True if in_op else (data_parent(n).config if n.kind == "choice" else n.config)
            if in_op:
                new = g2.op_nodes(1, count=rng.randrange(1, 3))
            else:
                new = g2.nodes(1, cfg, count=rng.randrange(1, 3))
                if rng.random() < 0.5:
                    new.append(g2.list(1, cfg))
            if pool is None:
                # default naming: force a clash of local names by hand
                new[0].name = lst[0].name if lst else new[0].name
            new = [c for c in new if c.kind != "choice"]
            if not new:
                continue
            for c in new:
                c.aug = True
                c.parent = n
            augs.append((schema_path(n, what), new, n, [c.name for c in new]))
            lst.extend(new)
        top2 = []
        if rng.random() < 0.6:
            g3 = PGen(rng, two_modules=True, names=None)
            g3.n = 5000
            g3.targets = g.targets
            c = SContainer(nodes[0].name, g3.nodes(1, True), presence=True)
            top2.append(c)
        m2 = PModule("m2", top2, identities=[(n, "m1:base-id") for m, n in IDENTS if m == "m2"], imports=["m1"],
                     augments=[(p, ns, t) for p, ns, t, _ in augs], annotations=[])
        for n in swalk(m2.nodes):
            n.module = m2
        for _, ns, _, _ in augs:
            for n in swalk(ns):
                n.module = m2
        mods.append(m2)
        nodes = nodes + top2
    return mods, g


# ------------------------------------------------------------------------------------------------
# instances
# ------------------------------------------------------------------------------------------------
def walk3(forest, parents=()):
    """(node, parents, sibling list)"""
    for n in forest:
        yield n, parents, forest
        yield from walk3(n.children, parents + ((n, forest),))


def quote_pred(v):
    return "'%s'" % v if "'" not in v else '"%s"' % v


def canon(n):
    return getattr(n, "canon", n.value)


def position(n, sibs):
    k = 0
    for x in sibs:
        if x.schema is n.schema:
            k += 1
        if x is n:
            return k
    raise ValueError


def exp_path(n, parents, sibs, full_prefix=False):
    """this file's rendering of lyd_path(LYD_PATH_STD)"""
    out = ""
    prevmod = None
    for x, xs in list(parents) + [(n, sibs)]:
        s = x.schema
        pfx = (s.module.name + ":") if (s.module is not prevmod or full_prefix) else ""
        out += "/" + pfx + s.name
        prevmod = s.module
        if s.kind == "list" and s.keys:
            for kn in s.keys:
                kv = next(c for c in x.children if c.schema.name == kn and c.schema.module is s.module and c.schema.is_key)
                out += "[%s%s=%s]" % (pfx if full_prefix else "", kn, quote_pred(canon(kv)))
        elif is_dup(s):
            out += "[%d]" % position(x, xs)
        elif s.kind == "leaf-list":
            out += "[.=%s]" % quote_pred(canon(x))
    return out


def inject_dups(rng, forest):
    """equal instances where they are legal: state / operation leaf-lists and key-less lists"""
    for n in list(forest):
        inject_dups(rng, n.children)
    groups = {}
    for n in forest:
        if is_dup(n.schema):
            groups.setdefault(id(n.schema), []).append(n)
    for g in groups.values():
        if rng.random() < 0.6:
            for _ in range(rng.randrange(1, 3)):
                c = rng.choice(g).clone()
                start = min(k for k, x in enumerate(forest) if any(x is y for y in g))
                forest.insert(start + rng.randrange(len(g) + 1), c)       # inside or at the ends: the group stays contiguous
                g.append(c)


def keys_first(forest):
    """list entries: key leaves first, in the order of the key statement (RFC 7950 7.8.5)"""
    for n, _, _ in walk3(forest):
        s = n.schema
        if s.kind == "list" and s.keys:
            ks = [c for c in n.children if c.schema.kind == "leaf" and c.schema.is_key and c.schema.module is s.module]
            ks.sort(key=lambda c: s.keys.index(c.schema.name))
            n.children[:] = ks + [c for c in n.children if not any(c is k for k in ks)]


def respell(rng, forest, fmt):
    for n, _, _ in walk3(forest):
        if n.value is not None:
            n.canon = n.value
            t = n.schema.type
            if hasattr(t, "lexical") and (rng.random() < 0.5 or (fmt == "x" and isinstance(t, TInstId))):
                if isinstance(t, TIdentRef):
                    n.value = t.lexical(rng, n.value, fmt, n.schema.module.name)
                else:
                    n.value = t.lexical(rng, n.value, fmt)


def fill_targets(rng, ig, nodes, targets):
    """instance-identifier values: paths of some data nodes of the first module (plain key values only)"""
    def simple(v):
        return v is not None and all(ch.isalnum() or ch in "-+. :_" for ch in v)

    def rec(lst, parents, depth):
        for s in lst:
            if getattr(s, "aug", False) or len(targets) > 8:
                continue
            if s.kind == "choice":
                for _, ns in s.cases[:1]:
                    rec(ns, parents, depth)
                continue
            if s.kind not in ("container", "list", "leaf", "leaf-list"):
                continue
            if is_dup(s) or isinstance(getattr(s, "type", None), (TInstId,)):
                continue
            d = DNode(s)
            if s.kind == "list":
                ks = [c for c in s.children if c.name in s.keys and c.kind == "leaf"]
                if any(isinstance(c.type, (TInstId, TEmpty)) for c in ks):
                    continue
                d.children = [DNode(c, c.type.valid(rng)) for c in ks]
                if not all(simple(c.value) for c in d.children):
                    continue
            elif s.kind == "leaf-list":
                d.value = s.type.valid(rng)
                if not simple(d.value) or d.value == "":
                    continue
            if rng.random() < 0.5:
                targets.append((exp_path(d, parents, [d]), exp_path(d, parents, [d], full_prefix=True)))
            if s.kind in ("container", "list") and depth > 0:
                rec(s.children, parents + ((d, [d]),), depth - 1)
    rec(nodes, (), 2)
    targets.append(("/m1:base-target", "/m1:base-target"))


def op_instances(rng, ig, nodes):
    """[(type, forest)] one request + reply per rpc / action, one document per notification"""
    docs = []

    def spine(anc, leaf_dnode):
        cur = leaf_dnode
        for s in reversed(anc):
            d = DNode(s)
            if s.kind == "list":
                d.children = [DNode(c, c.type.valid(rng)) for c in s.children if c.kind == "leaf" and c.is_key]
            d.children.append(cur)
            cur = d
        return [cur]

    def rec(lst, anc):
        for s in lst:
            if s.kind in ("rpc", "action"):
                docs.append(("r", spine(anc, DNode(s, children=ig.children_of(s.input)))))
                docs.append(("y", spine(anc, DNode(s, children=ig.children_of(s.output)))))
            elif s.kind == "notification":
                docs.append(("n", spine(anc, DNode(s, children=ig.children_of(s.children)))))
            elif s.kind in ("container", "list"):
                if not (s.kind == "list" and not s.keys):
                    rec(s.children, anc + [s])
            elif s.kind == "choice":
                for _, ns in s.cases:
                    rec(ns, anc)
    rec(nodes, [])
    return docs


# ------------------------------------------------------------------------------------------------
# encoders (independent of libyang)
# ------------------------------------------------------------------------------------------------
def _jval(n):
    t = n.schema.type
    if isinstance(t, TEmpty):
        return [None]
    if isinstance(t, (TInt,)) and t.json_kind == "number":
        return int(n.value)
    if isinstance(t, TBool):
        return n.value == "true"
    if isinstance(t, TUnion):
        return yanggen._json_val(t, n.value)
    return n.value


def enc_json_obj(forest, parent_mod=None):
    obj = {}
    for n in forest:
        s = n.schema
        name = s.name if s.module is parent_mod else "%s:%s" % (s.module.name, s.name)
        if s.kind == "leaf":
            obj[name] = _jval(n)
        elif s.kind == "leaf-list":
            obj.setdefault(name, []).append(_jval(n))
        elif s.kind == "list":
            obj.setdefault(name, []).append(enc_json_obj(n.children, s.module))
        else:
            obj[name] = enc_json_obj(n.children, s.module)
    return obj


def enc_json(forest):
    return _json.dumps(enc_json_obj(forest), ensure_ascii=False)


def enc_xml(forest, parent_mod=None):
    out = []
    for n in forest:
        s = n.schema
        attrs = ""
        if s.module is not parent_mod:
            attrs += ' xmlns="%s"' % s.module.ns
        if s.kind in ("leaf", "leaf-list"):
            if isinstance(s.type, (TIdentRef, TInstId)):
                attrs += ' xmlns:m1="urn:verif:m1" xmlns:m2="urn:verif:m2"'
            if isinstance(s.type, TEmpty) or n.value == "":
                out.append("<%s%s/>" % (s.name, attrs))
            else:
                out.append("<%s%s>%s</%s>" % (s.name, attrs, xml_text(n.value), s.name))
        else:
            out.append("<%s%s>%s</%s>" % (s.name, attrs, enc_xml(n.children, s.module), s.name))
    return "".join(out)


XML_OK = set(range(0x20, 0xD800)) | {9, 10, 13} | set(range(0xE000, 0xFFFE))


def xml_able(forest):
    return all(n.value is None or all(ord(ch) in XML_OK for ch in n.value) for n, _, _ in walk3(forest))


# ------------------------------------------------------------------------------------------------
# the oracle
# ------------------------------------------------------------------------------------------------
def both_quotes(forest):
    for n, _, _ in walk3(forest):
        s = n.schema
        if n.value is not None and "'" in canon(n) and '"' in canon(n):
            if (s.kind == "leaf" and s.is_key) or (s.kind == "leaf-list" and not is_dup(s)):
                return True
    return False


def count_nodes(forest):
    return sum(1 + count_nodes(n.children) for n in forest)


class distinct_names:
    """yanggen tells the keys of a list by NAME: while instances are generated, nodes of the augmenting module get names no
    node of the first module has"""

    def __init__(self, nodes):
        self.aug = [n for n in swalk(nodes) if getattr(n, "aug", False)]

    def __enter__(self):
        for n in self.aug:
            n.name += "\0aug"

    def __exit__(self, *a):
        for n in self.aug:
            n.name = n.name[:-4]


def make_case(rng, adv_names=True, two_modules=True, max_inst=3, name="pathsops"):
    mods, g = gen_schema(rng, adv_names, two_modules)
    nodes = [n for m in mods for n in m.nodes]
    ig = yanggen.InstGen(rng, meta_prob=0.0, max_inst=max_inst)
    fill_targets(rng, ig, mods[0].nodes, g.targets)
    docs = []
    with distinct_names(nodes):
        data = ig.children_of(nodes)
        ops = op_instances(rng, ig, nodes)
    if data:
        docs.append(("d", data))
    rng.shuffle(ops)
    docs += ops[:6]
    fields = [name] + ["m:" + hexs(m.yang()) for m in mods]
    info = []
    for typ, forest in docs:
        inject_dups(rng, forest)
        keys_first(forest)
        nn = count_nodes(forest)
        if nn == 0 or nn > 150:
            continue
        fmt = "x" if (rng.random() < 0.5 and xml_able(forest)) else "j"
        respell(rng, forest, fmt)
        text = enc_xml(forest) if fmt == "x" else enc_json(forest)
        fields.append("d:%s:%s:%s" % (typ, fmt, hexs(text)))
        info.append({"type": typ, "fmt": fmt, "both": both_quotes(forest),
                     "paths": sorted(exp_path(n, p, s) for n, p, s in walk3(forest))})
    if not info:
        return None, None
    return "\t".join(fields), info


def untext(h):
    return unhex(h).decode("utf-8", "replace") if h and h != "-" else ""


class PathsOps(Oracle):
    """C15 on every node of data, RPC / action request, reply and notification trees (adversarial identifier shapes, two
    modules with equal local names, duplicates where legal, typed keys in non-canonical spelling): lyd_path(LYD_PATH_STD)
    has the form the property names; lyd_find_path (output flag for replies) and lyd_find_xpath return exactly the node;
    the path without its last predicate selects exactly the instances of the node; lyd_new_path2 in an empty tree builds
    the spine, again reports LY_EEXIST, creates one more instance where duplicates are legal; creating all nodes in
    document order rebuilds an equal tree."""
    name = "paths-ops"
    driver = "t_paths"

    def __init__(self):
        self.info = {}
        self.stats = {"cases": 0, "docs": 0, "module-rejected": 0, "parse-failed": 0, "nodes": 0}

    def gen(self, rng, tier, scale=1.0):
        L = []
        for i in range(self.n(tier, 1500, 20000, scale)):
            line, info = make_case(rng, adv_names=(i % 5 != 0), two_modules=(i % 3 != 0), max_inst=3 if i % 2 else 2)
            if line is None:
                continue
            L.append(line)
            self.info[line] = info
        return L

    def judge(self, line, out):
        if crashed(out):
            return (None, "crash: " + out + " " + getattr(self, "last_err", "")[-300:])
        info = self.info.get(line)
        self.stats["cases"] += 1
        if out.startswith("M"):
            self.stats["module-rejected"] += 1
            return (None, "generated module rejected: " + out)
        docs = out.split(" | ")
        if info is None:
            # corpus / replay line: only the driver's own verdict
            known = None
            for k, d in enumerate(docs):
                f = d.split(":")
                if f[0] != "0":
                    return (None, "document %d: document rejected (rc=%s)" % (k, f[0]))
                if f[3] != "ok":
                    return (None, "document %d: %s" % (k, self.explain(f[3])))
                if int(f[2]):
                    known = ("path-both-quotes", "document %d" % k)
                elif len(f) > 5 and int(f[5]):
                    # fixed in /repo b180fe8 (an unprefixed name inherits the module of its parent): a violation now
                    return (None, "document %d: lyd_find_xpath() with an unprefixed last name also selects the node that "
                                  "another module augments in (%s nodes)" % (k, f[5]))
            return known
        if len(docs) != len(info):
            return (None, "driver protocol: %d documents, %d answers" % (len(info), len(docs)))
        known = None
        for k, (d, inf) in enumerate(zip(docs, info)):
            f = d.split(":")
            what = "document %d (%s, %s)" % (k, {"d": "data", "r": "request", "y": "reply", "n": "notification"}[inf["type"]], inf["fmt"])
            self.stats["docs"] += 1
            if f[0] != "0":
                self.stats["parse-failed"] += 1
                return (None, "%s: generated document rejected (rc=%s)" % (what, f[0]))
            self.stats["nodes"] += int(f[1])
            if f[3] != "ok":
                return (None, "%s: %s" % (what, self.explain(f[3])))
            if int(f[2]):
                if not inf["both"]:
                    return (None, "%s: driver skipped %s nodes for both quote characters but no such value was generated" % (what, f[2]))
                known = ("path-both-quotes", "%s: %s nodes whose path needs a value holding both quote characters" % (what, f[2]))
            if len(f) > 5 and int(f[5]):
                # fixed in /repo b180fe8 (an unprefixed name inherits the module of its parent): a violation now
                return (None, "%s: lyd_find_xpath() with an unprefixed last name also selects the node that another "
                              "module augments in (%s nodes)" % (what, f[5]))
            got = sorted(untext(h) for h in f[4].split(",")) if f[4] else []
            if got != inf["paths"]:
                only_got = [p for p in got if p not in inf["paths"]]
                only_exp = [p for p in inf["paths"] if p not in got]
                return (None, "%s: lyd_path() differs from the form the property names: got %r expected %r" % (
                    what, only_got[:3], only_exp[:3]))
        return known

    @staticmethod
    def explain(res):
        # BAD <what> node=<i> rc=<rc> path=<hex>[ x=<hex>]
        w = res.split(" ")
        kv = dict(x.split("=", 1) for x in w[2:] if "=" in x)
        s = "%s (node %s, rc=%s) path %s" % (w[1], kv.get("node"), kv.get("rc"), untext(kv.get("path", ""))[:600])
        if "x" in kv:
            s += " ; " + untext(kv["x"])[:600]
        return s
