"""comps_ht.py - correspondence components of slice ht (HashFn.v, HashTable.v, Dict.v vs
src/hash_table.c, src/dict.c through impl/t_ht.c)."""
import itertools

from props.comps import Comp
from vlib import hexs

U32 = 1 << 32


class HashFn(Comp):
    """lyht_hash / lyht_hash_multi vs HashFn.v"""
    name = "hash"
    driver = "t_ht"
    slice = "ht"

    def gen(self, rng, tier, scale=1.0):
        L = ["hash\t-", "hashm\t0\tNULL", "hashm\t0\t-", "hashm\t4294967295\tNULL", "hashm\t4294967295\t-"]
        for b in range(1, 256):
            L.append("hash\t" + hexs(bytes([b])))
            L.append("hashm\t%d\t%s" % (rng.randrange(U32), hexs(bytes([b]))))
        inits = [0, 1, 0x7FFFFFFF, 0x80000000, 0xFFFFFFFF, 0x003FFFFF, 0x00400000, 0xFFC00000, 0x1FFFFFFF, 0x20000000]
        for i in inits:
            L.append("hashm\t%d\tNULL" % i)
            L.append("hashm\t%d\t-" % i)
            L.append("hashm\t%d\t80" % i)
            L.append("hashm\t%d\t7fff01" % i)
        for _ in range(self.n(tier, 600, 40000, scale)):
            n = rng.choice([1, 1, 2, 3, 4, 7, 8, 15, 16, 33, 64])
            r = rng.random()
            if r < 0.4:
                s = bytes(rng.randrange(1, 256) for _ in range(n))
            elif r < 0.7:
                s = bytes(rng.choice([0x7f, 0x80, 0x81, 0xff, 0xfe, 0x01, 0x61]) for _ in range(n))
            else:
                s = bytes(rng.choice(b"abcdefghijklmnopqrstuvwxyz-_:0123456789") for _ in range(n))
            L.append("hash\t" + hexs(s))
            if rng.random() < 0.5:
                L.append("hashm\t%d\t%s" % (rng.choice(inits + [rng.randrange(U32)]), hexs(s)))
            if rng.random() < 0.1:
                L.append("hashm\t%d\tNULL" % rng.randrange(U32))
        return L


def _line(size, rz, vs, ops):
    return "ht\t%d\t%d\t%d\t%s" % (size, rz, vs, ",".join(ops) if ops else "-")


class HtScript(Comp):
    """operation scripts on one hash table: return codes and the complete internal state
    (size, used, resize, hlists, record chains with arena indices, free list) vs HashTable.v"""
    name = "ht"
    driver = "t_ht"
    slice = "ht"

    # ---- building blocks -------------------------------------------------------------------
    @staticmethod
    def colliding_hashes(rng, k):
        """k hash values, few distinct, many sharing their low bits (same bucket at every size)"""
        base = rng.choice([0, 1, 5, 7, 8, 0x12345678, 0xFFFFFFFF, 0x80000000, rng.randrange(U32)])
        hs = []
        for _ in range(k):
            r = rng.random()
            if r < 0.35:
                hs.append(base)
            elif r < 0.7:
                hs.append((base + (rng.randrange(1, 16) << rng.choice([3, 4, 5, 6, 7, 10, 20, 28]))) % U32)
            elif r < 0.85:
                hs.append((base + rng.randrange(1, 8)) % U32)
            else:
                hs.append(rng.randrange(U32))
        return hs

    def random_script(self, rng, n, nvals, ophist):
        hs = self.colliding_hashes(rng, max(2, nvals // 2))
        uni = [(rng.choice(hs), v) for v in range(nvals)]
        if rng.random() < 0.3:
            # the same value under two hashes and the same hash for many values
            uni += [(rng.choice(hs), v) for v in range(nvals // 2)]
        ops = []
        for _ in range(n):
            h, v = rng.choice(uni)
            o = rng.choice(ophist)
            if o == "d":
                ops.append("d")
            else:
                ops.append("%s%d:%d" % (o, h, v))
        return ops

    def grow_shrink(self, rng, n, stride, order):
        """n distinct values in, all out again: sizes 8 -> 16 -> ... -> 8"""
        base = rng.randrange(U32)
        items = [((base + i * stride) % U32, i % 256) for i in range(n)]
        ops = ["i%d:%d" % hv for hv in items]
        if rng.random() < 0.5:
            ops += ["f%d:%d" % rng.choice(items) for _ in range(3)]
        out = list(items)
        if order == "rev":
            out.reverse()
        elif order == "rnd":
            rng.shuffle(out)
        for k, hv in enumerate(out):
            ops.append("r%d:%d" % hv)
            if rng.random() < 0.08:
                ops.append("f%d:%d" % rng.choice(items))
            if rng.random() < 0.05:
                ops.append("i%d:%d" % hv)
                ops.append("r%d:%d" % hv)
        return ops

    def chain_edit(self, rng):
        """one long chain, then removal of head / middle / tail in all orders, with re-inserts"""
        h = rng.choice([3, 11, 0xFFFFFFF3, rng.randrange(U32)])
        k = rng.randrange(2, 6)
        hs = [(h + (rng.randrange(0, 4) << 8)) % U32 for _ in range(k)]
        ops = ["i%d:%d" % (hs[i], i) for i in range(k)]
        idx = list(range(k))
        rng.shuffle(idx)
        for i in idx:
            ops.append("r%d:%d" % (hs[i], i))
            if rng.random() < 0.4:
                j = rng.randrange(k)
                ops.append("%s%d:%d" % (rng.choice("ifrn"), hs[j], j))
        return ops

    # ---- generator -----------------------------------------------------------------------
    def gen(self, rng, tier, scale=1.0):
        L = []
        # lyht_new argument checks
        for size in (0, 1, 2, 3, 4, 6, 8, 12, 16, 24, 64, 100):
            for rz in (0, 1, 2):
                L.append(_line(size, rz, 4, ["i1:1", "f1:1"]))
        # exhaustive short scripts: 3 values x 2 hashes (same bucket, different full hash)
        uni = ["%s%d:%d" % (o, h, v) for o in "irf" for h in (5, 13) for v in (0, 1, 2)]
        maxlen = 4 if tier == "thorough" else 3
        for n in range(1, maxlen + 1):
            for ops in itertools.product(uni, repeat=n):
                L.append(_line(8, 1, 4, list(ops)))
        # find_next / no_check / dup exhaustively at length 3 over a smaller universe
        uni2 = ["%s%d:%d" % (o, 5, v) for o in "iIrnc" for v in (1, 2, 17)] + ["d"]
        for n in range(1, 4):
            for ops in itertools.product(uni2, repeat=n):
                L.append(_line(8, 1, 1, list(ops)))
        # grow over several thresholds and shrink back
        for n in (5, 6, 7, 11, 12, 13, 23, 24, 25, 47, 48, 49, 96, 97, 200):
            for order in ("fwd", "rev", "rnd"):
                for stride in (1, 8, 0x10001):
                    if n > 100 and (stride != 1 or tier != "thorough") and order != "rnd":
                        continue
                    for size in (1, 8, 32):
                        L.append(_line(size, 1, rng.choice([1, 2, 4, 8]), self.grow_shrink(rng, n, stride, order)))
        # resizing disabled: the table fills up (and the next insert trips the assert)
        for size in (8, 16):
            for n in (size - 1, size, size + 1, size + 3):
                ops = ["i%d:%d" % (rng.randrange(U32), i) for i in range(n)]
                L.append(_line(size, 0, 4, ops + ["f1:1"]))
                ops2 = list(ops)
                ops2.insert(size - 2, "r1:200")
                ops2.insert(size - 3, ops[0].replace("i", "r"))
                L.append(_line(size, 0, 4, ops2))
        nrand = self.n(tier, 2500, 150000, scale)
        for _ in range(nrand):
            r = rng.random()
            size = rng.choice([1, 8, 8, 8, 16, 32])
            rz = 1 if rng.random() < 0.85 else 0
            vs = rng.choice([1, 2, 4, 8])
            if r < 0.15:
                ops = self.chain_edit(rng)
            elif r < 0.55:
                ops = self.random_script(rng, rng.choice([4, 8, 16, 40, 80]), rng.choice([3, 6, 12, 30]), "iiiirrrfn")
            elif r < 0.75:
                # duplicates through insert_no_check, find_next over them, resize with check
                ops = self.random_script(rng, rng.choice([4, 8, 16, 30]), rng.choice([2, 4, 8, 20]), "iIIIrrfnncc")
            elif r < 0.85:
                ops = self.random_script(rng, rng.choice([4, 8, 16, 30]), rng.choice([3, 6, 12]), "iiiirrfnd")
            else:
                n = rng.randrange(3, 60)
                ops = self.grow_shrink(rng, n, rng.choice([1, 8, 16, 64, 0x10001]), rng.choice(["fwd", "rev", "rnd"]))
                if rng.random() < 0.5:
                    ops = ops[:rng.randrange(1, len(ops) + 1)]
            L.append(_line(size, rz, vs, ops))
        return L


DICT_POOL = [b"", b"a", b"b", b"ab", b"abc", b"abcd", b"ba", b"a" * 40, b"\x80", b"\xff\xfe", b"\xc3\xa9", b"name", b"type",
             b"ietf-interfaces", b"x1", b"x2", b"x3", b"~junk~", b"a~junk~", b"ab~junk~"]


class DictScript(Comp):
    """lydict_insert / lydict_remove / lydict_dup scripts on an empty dictionary: results, returned strings
    and the complete table (records with reference counts) vs Dict.v"""
    name = "dict"
    driver = "t_ht"
    slice = "ht"

    def script(self, rng, n, pool, hist):
        ops = []
        live = []
        for _ in range(n):
            o = rng.choice(hist)
            if o == "-" and live and rng.random() < 0.8:
                s = rng.choice(live)
            else:
                s = rng.choice(pool)
            if o == "+":
                live.append(s)
            elif o == "-" and s in live:
                live.remove(s)
            ops.append(o + hexs(s))
        if rng.random() < 0.5:
            # release everything that is still held
            rng.shuffle(live)
            ops += ["-" + hexs(s) for s in live]
        return ops

    def gen(self, rng, tier, scale=1.0):
        L = ["dict\t0\t-", "dict\t8\t-"]
        # exhaustive short scripts over two strings
        uni = [o + hexs(s) for o in "+-*" for s in (b"a", b"\xe9")]
        for n in range(1, 5 if tier == "thorough" else 4):
            for ops in itertools.product(uni, repeat=n):
                L.append("dict\t8\t" + ",".join(ops))
        for _ in range(self.n(tier, 500, 30000, scale)):
            size = rng.choice([0, 8, 8, 8, 16, 64])
            r = rng.random()
            if r < 0.5:
                pool = rng.sample(DICT_POOL, rng.randrange(1, 8))
            elif r < 0.8:
                pool = DICT_POOL + [b"k%d" % i for i in range(rng.randrange(1, 40))]
            else:
                pool = [bytes(rng.randrange(1, 256) for _ in range(rng.randrange(0, 6))) for _ in range(rng.randrange(2, 30))]
            ops = self.script(rng, rng.choice([3, 8, 20, 60, 150]), pool, rng.choice(["+-", "++-", "++-*", "+--*", "+++-"]))
            L.append("dict\t%d\t%s" % (size, ",".join(ops)))
        # many distinct strings: 8 -> ... -> 256 and back, every string inserted twice
        for size, n in ((8, 150), (16, 40), (0, 40)) + (((0, 1700),) if tier == "thorough" else ((0, 800),)):
            ks = [b"s%d" % i for i in range(n)]
            ops = ["+" + hexs(s) for s in ks] + ["+" + hexs(s) for s in ks[::3]]
            out = ks + ks[::3]
            rng.shuffle(out)
            ops += ["-" + hexs(s) for s in out]
            L.append("dict\t%d\t%s" % (size, ",".join(ops)))
            L.append("dict\t%d\t%s" % (size, ",".join(ops + ["-" + hexs(ks[0]), "*" + hexs(ks[1])])))
        return L
