"""comps_ht.py - correspondence components of slice ht (HashFn.v, HashTable.v, Dict.v vs
src/hash_table.c, src/dict.c through impl/t_ht.c)."""
import itertools

from props.comps import Comp
from vlib import hexs

U32 = 1 << 32


class HashFn(Comp):
    """lyht_hash / lyht_hash_multi vs HashFn.v"""
    name = "hash"
    driver = "t_ht"
    slice = "ht"

    def gen(self, rng, tier, scale=1.0):
        L = ["hash\t-", "hashm\t0\tNULL", "hashm\t0\t-", "hashm\t4294967295\tNULL", "hashm\t4294967295\t-"]
        for b in range(1, 256):
            L.append("hash\t" + hexs(bytes([b])))
            L.append("hashm\t%d\t%s" % (rng.randrange(U32), hexs(bytes([b]))))
        inits = [0, 1, 0x7FFFFFFF, 0x80000000, 0xFFFFFFFF, 0x003FFFFF, 0x00400000, 0xFFC00000, 0x1FFFFFFF, 0x20000000]
        for i in inits:
            L.append("hashm\t%d\tNULL" % i)
            L.append("hashm\t%d\t-" % i)
            L.append("hashm\t%d\t80" % i)
            L.append("hashm\t%d\t7fff01" % i)
        for _ in range(self.n(tier, 600, 40000, scale)):
            n = rng.choice([1, 1, 2, 3, 4, 7, 8, 15, 16, 33, 64])
            r = rng.random()
            if r < 0.4:
                s = bytes(rng.randrange(1, 256) for _ in range(n))
            elif r < 0.7:
                s = bytes(rng.choice([0x7f, 0x80, 0x81, 0xff, 0xfe, 0x01, 0x61]) for _ in range(n))
            else:
                s = bytes(rng.choice(b"abcdefghijklmnopqrstuvwxyz-_:0123456789") for _ in range(n))
            L.append("hash\t" + hexs(s))
            if rng.random() < 0.5:
                L.append("hashm\t%d\t%s" % (rng.choice(inits + [rng.randrange(U32)]), hexs(s)))
            if rng.random() < 0.1:
                L.append("hashm\t%d\tNULL" % rng.randrange(U32))
        return L


# ---- property-level judgement of a driver answer (used by witness(): independent of the Coq model) ----
import re as _re

_NOREC = 4294967295


def parse_dump(dump):
    """'S8 U1 R1 F1 | 5[0,0]:0/5/0,... | free:1,2,>8' -> dict or None"""
    m = _re.match(r"S(\d+) U(\d+) R(\d+) F(\d+) \|(.*)\| free:(.*)>(\d+)$", dump.strip())
    if not m:
        return None
    size, used, rz, ff = (int(m.group(i)) for i in range(1, 5))
    buckets = {}
    for bm in _re.finditer(r"(\d+)\[(\d+),(\d+)\]:(\S*)", m.group(5)):
        recs = []
        for r in bm.group(4).split(","):
            if not r:
                continue
            if r.startswith("!"):
                recs.append((int(r[1:]), None, None))
                continue
            idx, h, v = r.split("/", 2)
            recs.append((int(idx), int(h), v))
        buckets[int(bm.group(1))] = (int(bm.group(2)), int(bm.group(3)), recs)
    free = [int(x) for x in m.group(6).split(",") if x]
    return {"size": size, "used": used, "rz": rz, "ff": ff, "buckets": buckets, "free": free, "free_end": int(m.group(7))}


def arena_violation(d):
    """the representation invariant Rep of HashTableP.v checked on a dump; returns a description or None"""
    size = d["size"]
    if size < 8 or size & (size - 1):
        return "size %d is not a power of two >= 8" % size
    seen = {}
    n = 0
    for b, (first, last, recs) in sorted(d["buckets"].items()):
        idxs = [r[0] for r in recs]
        if not recs:
            if first != _NOREC or last != _NOREC:
                return "bucket %d: empty chain but first/last = %d/%d" % (b, first, last)
            continue
        if first != idxs[0]:
            return "bucket %d: first %d is not the chain head %d" % (b, first, idxs[0])
        if last != idxs[-1]:
            return "bucket %d: last %d is not the chain end %d" % (b, last, idxs[-1])
        for idx, h, _v in recs:
            if h is None or idx >= size:
                return "bucket %d: record index %d outside the arena" % (b, idx)
            if h & (size - 1) != b:
                return "bucket %d: record %d has hash %d of bucket %d" % (b, idx, h, h & (size - 1))
            if idx in seen:
                return "record %d is used twice (%s and bucket %d)" % (idx, seen[idx], b)
            seen[idx] = "bucket %d" % b
            n += 1
    for idx in d["free"]:
        if idx in seen:
            return "record %d is used twice (%s and the free list)" % (idx, seen[idx])
        seen[idx] = "free list"
    if d["used"] != n:
        return "used = %d but %d records are chained" % (d["used"], n)
    if len(seen) != size:
        lost = sorted(set(range(size)) - set(seen))
        return "record slots lost (in no chain and not free): %s" % lost[:8]
    if d["free_end"] != size:
        return "free list ends in %d, not in size" % d["free_end"]
    if d["ff"] != (d["free"][0] if d["free"] else size):
        return "first_free_rec %d is not the head of the free list" % d["ff"]
    return None


def ht_reference(ops):
    """return codes of a script of checked operations (i / r / f, d = lyht_dup keeps the content) on a set of
    (hash, value); None when the script holds other operations"""
    s = set()
    out = []
    for o in ops:
        k, hv = o[0], o[1:]
        if k == "d":
            out.append("0")
            continue
        if k not in "irf":
            return None
        h, v = hv.split(":")
        key = (int(h), int(v))
        if k == "i":
            out.append("%d=%s" % (4 if key in s else 0, v))
            s.add(key)
        elif k == "r":
            out.append("0" if key in s else "5")
            s.discard(key)
        else:
            out.append("0=%s" % v if key in s else "5")
    return out, s


def lyht_hash_py(b):
    h = 0
    for c in b:
        h = (h + (c if c < 128 else c + 0xFFFFFF00)) & 0xFFFFFFFF
        h = (h + (h << 10)) & 0xFFFFFFFF
        h ^= h >> 6
    h = (h + (h << 3)) & 0xFFFFFFFF
    h ^= h >> 11
    h = (h + (h << 15)) & 0xFFFFFFFF
    return h


def ht_witness(line, impl_out):
    f = line.split("\t")
    size, rz, ops = int(f[1]), int(f[2]), ([] if f[4] == "-" else f[4].split(","))
    if " || " not in impl_out:
        return None
    outs, dump = impl_out.split(" || ", 1)
    ref = ht_reference(ops)
    lawful = size and not (size & (size - 1)) and rz == 1 and ref is not None
    if dump == "ABORT" or impl_out.startswith("CRASH") or impl_out == "TIMEOUT":
        if lawful:
            return ("ht-assert", "a script of checked inserts/removes/finds with resizing enabled stops at an assertion "
                                 "after %d operations" % (len(outs.split()) if outs else 0))
        return None
    d = parse_dump(dump)
    if d is None:
        return None
    v = arena_violation(d)
    if v:
        return ("ht-arena-invariant", v)
    if lawful:
        exp, s = ref
        got = outs.split()
        if got != exp:
            k = next((i for i, (a, b) in enumerate(zip(got, exp)) if a != b), min(len(got), len(exp)))
            return ("ht-multimap", "operation %d (%s) answers %s, a set of (hash, value) answers %s"
                    % (k, ops[k] if k < len(ops) else "?", got[k] if k < len(got) else "-", exp[k] if k < len(exp) else "-"))
        content = sorted((h, int(v)) for (_f, _l, recs) in d["buckets"].values() for (_i, h, v) in recs)
        if content != sorted(s):
            return ("ht-multimap", "final content %s differs from the set %s" % (content[:6], sorted(s)[:6]))
    return None


def dict_witness(line, impl_out):
    f = line.split("\t")
    ops = [] if f[2] == "-" else f[2].split(",")
    if " || " not in impl_out:
        return None
    outs, dump = impl_out.split(" || ", 1)
    if dump == "ABORT":
        return ("dict-assert", "a dictionary script stops at an assertion of hash_table.c")
    ref = {}
    exp = []
    for o in ops:
        k, s = o[0], o[1:]
        if k in "+=":
            ref[s] = ref.get(s, 0) + 1
            exp.append("0=" + s)
        elif k == "-":
            if ref.get(s, 0):
                ref[s] -= 1
                exp.append("0=-")
            else:
                exp.append("5=-")
        elif k == "*":
            if ref.get(s, 0):
                ref[s] += 1
                exp.append("0=" + s)
            else:
                exp.append("5=-")
    got = outs.split()
    if got != exp:
        k = next((i for i, (a, b) in enumerate(zip(got, exp)) if a != b), min(len(got), len(exp)))
        return ("dict-refcount", "operation %d (%s) answers %s; reference counting answers %s"
                % (k, ops[k] if k < len(ops) else "?", got[k] if k < len(got) else "-", exp[k] if k < len(exp) else "-"))
    d = parse_dump(dump)
    if d is None:
        return None
    v = arena_violation(d)
    if v:
        return ("ht-arena-invariant", v)
    held = {}
    for (_f, _l, recs) in d["buckets"].values():
        for (_i, h, val) in recs:
            s, c = val.rsplit("*", 1)
            if s in held:
                return ("dict-refcount", "string %s is stored twice" % s)
            held[s] = int(c)
            if h != lyht_hash_py(bytes.fromhex(s) if s != "-" else b""):
                return ("dict-refcount", "string %s stored under hash %d" % (s, h))
    want = {s: c for s, c in ref.items() if c}
    if held != want:
        diff = [(s, held.get(s), want.get(s)) for s in sorted(set(held) | set(want)) if held.get(s) != want.get(s)]
        return ("dict-refcount", "stored (string, refcount) differ from #acquired - #released: %s (string, stored, expected)" % diff[:4])
    return None


def _line(size, rz, vs, ops):
    return "ht\t%d\t%d\t%d\t%s" % (size, rz, vs, ",".join(ops) if ops else "-")


class HtScript(Comp):
    """operation scripts on one hash table: return codes and the complete internal state
    (size, used, resize, hlists, record chains with arena indices, free list) vs HashTable.v"""
    name = "ht"
    driver = "t_ht"
    slice = "ht"

    def witness(self, line, model_out, impl_out):
        """the property itself judged on the implementation's answer, independently of the Coq model: arena
        invariant of the dumped table, multimap semantics of checked scripts, no assertion with resizing on"""
        return ht_witness(line, impl_out)

    # ---- building blocks -------------------------------------------------------------------
    @staticmethod
    def colliding_hashes(rng, k):
        """k hash values, few distinct, many sharing their low bits (same bucket at every size)"""
        base = rng.choice([0, 1, 5, 7, 8, 0x12345678, 0xFFFFFFFF, 0x80000000, rng.randrange(U32)])
        hs = []
        for _ in range(k):
            r = rng.random()
            if r < 0.35:
                hs.append(base)
            elif r < 0.7:
                hs.append((base + (rng.randrange(1, 16) << rng.choice([3, 4, 5, 6, 7, 10, 20, 28]))) % U32)
            elif r < 0.85:
                hs.append((base + rng.randrange(1, 8)) % U32)
            else:
                hs.append(rng.randrange(U32))
        return hs

    def random_script(self, rng, n, nvals, ophist):
        hs = self.colliding_hashes(rng, max(2, nvals // 2))
        uni = [(rng.choice(hs), v) for v in range(nvals)]
        if rng.random() < 0.3:
            # the same value under two hashes and the same hash for many values
            uni += [(rng.choice(hs), v) for v in range(nvals // 2)]
        ops = []
        for _ in range(n):
            h, v = rng.choice(uni)
            o = rng.choice(ophist)
            if o == "d":
                ops.append("d")
            else:
                ops.append("%s%d:%d" % (o, h, v))
        return ops

    def grow_shrink(self, rng, n, stride, order):
        """n distinct values in, all out again: sizes 8 -> 16 -> ... -> 8"""
        base = rng.randrange(U32)
        items = [((base + i * stride) % U32, i % 256) for i in range(n)]
        ops = ["i%d:%d" % hv for hv in items]
        if rng.random() < 0.5:
            ops += ["f%d:%d" % rng.choice(items) for _ in range(3)]
        out = list(items)
        if order == "rev":
            out.reverse()
        elif order == "rnd":
            rng.shuffle(out)
        for k, hv in enumerate(out):
            ops.append("r%d:%d" % hv)
            if rng.random() < 0.08:
                ops.append("f%d:%d" % rng.choice(items))
            if rng.random() < 0.05:
                ops.append("i%d:%d" % hv)
                ops.append("r%d:%d" % hv)
        return ops

    def chain_edit(self, rng):
        """one long chain, then removal of head / middle / tail in all orders, with re-inserts"""
        h = rng.choice([3, 11, 0xFFFFFFF3, rng.randrange(U32)])
        k = rng.randrange(2, 6)
        hs = [(h + (rng.randrange(0, 4) << 8)) % U32 for _ in range(k)]
        ops = ["i%d:%d" % (hs[i], i) for i in range(k)]
        idx = list(range(k))
        rng.shuffle(idx)
        for i in idx:
            ops.append("r%d:%d" % (hs[i], i))
            if rng.random() < 0.4:
                j = rng.randrange(k)
                ops.append("%s%d:%d" % (rng.choice("ifrn"), hs[j], j))
        return ops

    # ---- generator -----------------------------------------------------------------------
    def gen(self, rng, tier, scale=1.0):
        L = []
        # lyht_new argument checks
        for size in (0, 1, 2, 3, 4, 6, 8, 12, 16, 24, 64, 100):
            for rz in (0, 1, 2):
                L.append(_line(size, rz, 4, ["i1:1", "f1:1"]))
        # exhaustive short scripts: 3 values x 2 hashes (same bucket, different full hash)
        uni = ["%s%d:%d" % (o, h, v) for o in "irf" for h in (5, 13) for v in (0, 1, 2)]
        maxlen = 4 if tier == "thorough" else 3
        for n in range(1, maxlen + 1):
            for ops in itertools.product(uni, repeat=n):
                L.append(_line(8, 1, 4, list(ops)))
        # find_next / no_check / dup exhaustively at length 3 over a smaller universe
        uni2 = ["%s%d:%d" % (o, 5, v) for o in "iIrnc" for v in (1, 2, 17)] + ["d"]
        for n in range(1, 4):
            for ops in itertools.product(uni2, repeat=n):
                L.append(_line(8, 1, 1, list(ops)))
        # grow over several thresholds and shrink back
        for n in (5, 6, 7, 11, 12, 13, 23, 24, 25, 47, 48, 49, 96, 97, 200):
            for order in ("fwd", "rev", "rnd"):
                for stride in (1, 8, 0x10001):
                    if n > 100 and (stride != 1 or tier != "thorough") and order != "rnd":
                        continue
                    for size in (1, 8, 32):
                        L.append(_line(size, 1, rng.choice([1, 2, 4, 8]), self.grow_shrink(rng, n, stride, order)))
        # resizing disabled: the table fills up (and the next insert trips the assert)
        for size in (8, 16):
            for n in (size - 1, size, size + 1, size + 3):
                ops = ["i%d:%d" % (rng.randrange(U32), i) for i in range(n)]
                L.append(_line(size, 0, 4, ops + ["f1:1"]))
                ops2 = list(ops)
                ops2.insert(size - 2, "r1:200")
                ops2.insert(size - 3, ops[0].replace("i", "r"))
                L.append(_line(size, 0, 4, ops2))
        nrand = self.n(tier, 2500, 150000, scale)
        for _ in range(nrand):
            r = rng.random()
            size = rng.choice([1, 8, 8, 8, 16, 32])
            rz = 1 if rng.random() < 0.85 else 0
            vs = rng.choice([1, 2, 4, 8])
            if r < 0.15:
                ops = self.chain_edit(rng)
            elif r < 0.55:
                ops = self.random_script(rng, rng.choice([4, 8, 16, 40, 80]), rng.choice([3, 6, 12, 30]), "iiiirrrfn")
            elif r < 0.75:
                # duplicates through insert_no_check, find_next over them, resize with check
                ops = self.random_script(rng, rng.choice([4, 8, 16, 30]), rng.choice([2, 4, 8, 20]), "iIIIrrfnncc")
            elif r < 0.85:
                ops = self.random_script(rng, rng.choice([4, 8, 16, 30]), rng.choice([3, 6, 12]), "iiiirrfnd")
            else:
                n = rng.randrange(3, 60)
                ops = self.grow_shrink(rng, n, rng.choice([1, 8, 16, 64, 0x10001]), rng.choice(["fwd", "rev", "rnd"]))
                if rng.random() < 0.5:
                    ops = ops[:rng.randrange(1, len(ops) + 1)]
            L.append(_line(size, rz, vs, ops))
        return L


DICT_POOL = [b"", b"a", b"b", b"ab", b"abc", b"abcd", b"ba", b"a" * 40, b"\x80", b"\xff\xfe", b"\xc3\xa9", b"name", b"type",
             b"ietf-interfaces", b"x1", b"x2", b"x3", b"~junk~", b"a~junk~", b"ab~junk~"]


class DictScript(Comp):
    """lydict_insert / lydict_insert_zc / lydict_remove / lydict_dup scripts on an empty dictionary: results, returned strings
    and the complete table (records with reference counts) vs Dict.v"""
    name = "dict"
    driver = "t_ht"
    slice = "ht"

    def witness(self, line, model_out, impl_out):
        """reference counting judged on the implementation's answer: every return value and the stored
        (string, refcount) pairs against #acquired - #released, plus the arena invariant of the table"""
        return dict_witness(line, impl_out)

    def script(self, rng, n, pool, hist):
        ops = []
        live = []
        for _ in range(n):
            o = rng.choice(hist)
            if o == "-" and live and rng.random() < 0.8:
                s = rng.choice(live)
            else:
                s = rng.choice(pool)
            if o == "+":
                live.append(s)
                if rng.random() < 0.3:
                    o = "="        # lydict_insert_zc
            elif o == "-" and s in live:
                live.remove(s)
            ops.append(o + hexs(s))
        if rng.random() < 0.5:
            # release everything that is still held
            rng.shuffle(live)
            ops += ["-" + hexs(s) for s in live]
        return ops

    def gen(self, rng, tier, scale=1.0):
        L = ["dict\t0\t-", "dict\t8\t-"]
        # exhaustive short scripts over two strings
        uni = [o + hexs(s) for o in "+-*=" for s in (b"a", b"\xe9")]
        for n in range(1, 5 if tier == "thorough" else 4):
            for ops in itertools.product(uni, repeat=n):
                L.append("dict\t8\t" + ",".join(ops))
        for _ in range(self.n(tier, 500, 30000, scale)):
            size = rng.choice([0, 8, 8, 8, 16, 64])
            r = rng.random()
            if r < 0.5:
                pool = rng.sample(DICT_POOL, rng.randrange(1, 8))
            elif r < 0.8:
                pool = DICT_POOL + [b"k%d" % i for i in range(rng.randrange(1, 40))]
            else:
                pool = [bytes(rng.randrange(1, 256) for _ in range(rng.randrange(0, 6))) for _ in range(rng.randrange(2, 30))]
            ops = self.script(rng, rng.choice([3, 8, 20, 60, 150]), pool, rng.choice(["+-", "++-", "++-*", "+--*", "+++-", "+-*", "+*-*", "++--**"]))
            L.append("dict\t%d\t%s" % (size, ",".join(ops)))
        # failing calls (dup / remove of a string that is not held) before, between and after the normal ones; inserts with
        # an explicit length and with strlen alternate in the driver, so both positions are covered by the shifted copy
        for s in DICT_POOL[:12]:
            x = hexs(s)
            fam = ["*" + x, "+" + x, "+" + x, "*" + x, "-" + x, "-" + x, "-" + x, "*" + x, "+" + x, "=" + x, "-" + x, "-" + x]
            for size in (8, 0):
                L.append("dict\t%d\t%s" % (size, ",".join(fam)))
                L.append("dict\t%d\t%s" % (size, ",".join(["-" + hexs(b"zz")] + fam)))
                L.append("dict\t%d\t%s" % (size, ",".join(["*" + hexs(b"other")] + fam + ["+" + hexs(b"other"), "-" + hexs(b"other")])))
        # many distinct strings: 8 -> ... -> 256 and back, every string inserted twice
        for size, n in ((8, 150), (16, 40), (0, 40)) + (((0, 1700),) if tier == "thorough" else ((0, 800),)):
            ks = [b"s%d" % i for i in range(n)]
            ops = ["+" + hexs(s) for s in ks] + ["+" + hexs(s) for s in ks[::3]]
            out = ks + ks[::3]
            rng.shuffle(out)
            ops += ["-" + hexs(s) for s in out]
            L.append("dict\t%d\t%s" % (size, ",".join(ops)))
            L.append("dict\t%d\t%s" % (size, ",".join(ops + ["-" + hexs(ks[0]), "*" + hexs(ks[1])])))
        return L


# ------------------------------------------------------------------------------------------------
# C17 (part): API-level ownership / leak oracle over impl/t_own.c
# ------------------------------------------------------------------------------------------------
import re as _re

_NSA = 'xmlns="urn:a"'
_NSB = 'xmlns="urn:b"'
_NSY = 'xmlns:yang="urn:ietf:params:xml:ns:yang:1"'

# data parser / validation / misc option bits (src/parser_data.h, src/tree_data.h)
_P_ONLY, _P_STRICT, _P_OPAQ, _P_NOSTATE, _P_WHEN_TRUE, _P_NO_NEW = 0x10000, 0x20000, 0x40000, 0x80000, 0x800000, 0x1000000
_V_NOSTATE, _V_PRESENT, _V_MULTI = 1, 2, 4
_NEW_OUTPUT, _NEW_STORE_ONLY, _NEW_PATH_UPDATE, _NEW_PATH_OPAQ, _NEW_ANY_USE = 0x01, 0x02, 0x20, 0x40, 0x100
_DUP_REC, _DUP_NO_META, _DUP_PARENTS, _DUP_FLAGS = 1, 2, 4, 8
_MERGE_DESTRUCT, _MERGE_DEFAULTS, _MERGE_FLAGS = 1, 2, 4


def _own_line(cmds):
    return "own\t" + "\t".join(" ".join(str(a) for a in c) for c in cmds)


def _hx(s):
    return "~" if s is None else hexs(s)


# leaf name -> (valid values, invalid values) for the leaves of container /a:c and the top level
_OWN_LEAVES = {
    "i8": (["3", "7", "-5", "100", "11", "50"], ["200", "x", "", "-6", "1e3"]),
    "s": (["a", "abc", "zzzzzz"], ["", "ABC", "toolongvalue", "a1"]),
    "e": (["one", "two", "three"], ["four", "", "One"]),
    "lr": (["a", "b", "q"], []),
    "u": (["5", "x", "y", "abc"], ["toolong", "", "ab"]),
    "idr": (["a:id1", "a:id2"], ["a:idb2", "id1x", "x:id1", ""]),
    "m": (["1", "49", "50", "200"], ["256", "-1", "m"]),
    "w": (["w", ""], []),
    "sl": (["x", "y", "z", ""], []),
    "ul": (["1", "2", "3", "4", "9"], ["256", "u", ""]),
    "ca1": (["1"], []), "ca2": (["2"], []), "cb1": (["3"], []),
    "top": (["t", "a", "b", ""], []),
    "tul": (["m", "n", "o", "p"], []),
    "sll": (["s1", "s2", "s1"], []),
}
# lyd_value_validate / lyd_value_compare catalogue: schema path -> (valid, invalid when stored, well-formed but not resolvable
# in the data tree = fails only in the validate step when a context node is given)
_OWN_VALS = {
    "/a:c/i8": (["3", "-5", " 7 ", "+5"], ["200", "x", "", "1e3"], []),
    "/a:c/s": (["abc", "a"], ["", "ABC", "toolongvalue"], []),
    "/a:c/e": (["one", "three"], ["four", ""], []),
    "/a:c/u": (["5", "x", "abc"], ["toolong", "ab"], []),
    "/a:c/idr": (["a:id1", "a:id2"], ["a:idb2", "x:id1", "", "a:"], []),
    "/a:c/lr": (["a", "b"], [], ["dangling", "zz"]),
    "/a:c/ul": (["1", "9"], ["256", "u"], []),
    "/a:ty/ii": (["/a:top", "/a:c/a:i8", "/a:tul[.='m']", "/a:l[a:k1='a'][a:k2='1']"], ["/a:nope", "a:top", "/a:c/", "/a:l[k9='1']", "", "/x:top", "/a:tul[.='m'"],
                 ["/a:c/a:w", "/a:tul[.='c17-none']", "/a:l[a:k1='zz'][a:k2='9']/a:v", "/a:ul2[a:k='none']"]),
    "/a:ty/iin": (["/a:top", "/a:tul[.='none']", "/a:l[a:k1='zz'][a:k2='9']"], ["/a:nope", "", "/a:l[k9='1']"], []),
    "/a:ty/lrt": (["t", "a"], [], ["c17-none", ""]),
    "/a:ty/lrn": (["t", "anything"], [], []),
    "/a:ty/ulr": (["5", "t"], ["300x"], ["c17-none", "zzz"]),
    "/a:ty/uii": (["none", "/a:top"], ["/a:nope", "nine", ""], ["/a:tul[.='c17-none']", "/a:c/a:w"]),
    "/a:ty/bn": (["YQ==", "YWJj"], ["YQ=", "!!!!", "YWJjZGVm"], []),
    "/a:ty/dc": (["1.5", "10", "-1.00"], ["11", "1.234", "x", ""], []),
    "/a:ty/bt": (["b0", "b2 b0", ""], ["b9", "b0 b0"], []),
    "/a:ty/bo": (["true", "false"], ["True", "1", ""], []),
    "/a:ty/em": ([""], ["x"], []),
    "/a:ty/idl": (["a:id1"], ["a:idb2", "b:id1"], []),
    "/a:top": (["t", ""], [], []),
    "/a:tp/ip4": (["10.0.0.1%eth0", "10.0.0.1"], ["10.0.0.256", "10.0.0.1%", ""], []),
    "/a:tp/ip6": (["2001:db8::1%eth1", "::"], ["2001:db8::g", "1::2::3"], []),
    "/a:tp/ip": (["10.0.0.2%lo", "2001:db8::2%e2"], ["10.0.0", "x"], []),
    "/a:tp/pf": (["10.2.0.0/24", "2001:db8:2::/64"], ["10.2.0.0/33", "10.2.0.0"], []),
    "/a:tp/host": (["h.example.org", "10.0.0.4%z4"], ["-bad-", ""], []),
    "/a:tp/ubb": (["u1", "YWJj"], ["u9", "YWJ"], []),
    "/a:tp/uip": (["10.9.9.9%z", "2001:db8:9::/48", "/a:top", "a:id2"], ["x y", "a:idb9"], []),
    "/a:tp/xp": (["/a:top | //a:c", "count(a:x)"], ["/a:top[", "x:y"], []),
    "/a:tp/nii": (["/a:c/a:i8", "/"], ["/a:c[", ""], []),
    "/a:tp/dt": (["2023-01-02T03:04:05.678901+01:00", "2023-01-02T03:04:05Z"], ["2023-13-02T03:04:05Z", "2023-01-02"], []),
    "/a:tp/hex": (["01:ab:cd", "FF"], ["1:2", "zz"], []),
    "/a:tp/uuid": (["f81d4fae-7dec-11d0-a765-00a0c91e6bf6"], ["f81d4fae"], []),
    "/a:tp/lr4": (["10.0.0.1%eth0"], ["10.0.0.256"], ["10.0.0.77%none"]),
    "/a:tp/lrip": (["10.0.0.2%lo", "2001:db8::99%free"], ["nope"], []),
    "/a:tp/lrxp": (["/a:tp/a:ip4[. = '1'] | count(//a:top)"], ["/a:top["], ["count(a:zz)"]),
}

_OWN_TP = [
    ("ip4", ["10.0.0.1%eth0", "10.0.0.11%wlan0", "10.0.0.1"]), ("ip6", ["2001:db8::1%eth1", "fe80::1%lo", "2001:db8::1"]),
    ("ip", ["10.0.0.2%lo", "2001:db8::2%e2", "10.0.0.2"]), ("ip4n", ["10.0.0.3", "10.0.0.33"]), ("ip6n", ["2001:db8::3", "::1"]),
    ("pf4", ["10.1.0.0/16", "10.1.2.0/24"]), ("pf6", ["2001:db8::/32", "2001:db8:1::/48"]), ("pf", ["10.2.0.0/24", "2001:db8:2::/64"]),
    ("host", ["h.example.org", "10.0.0.4%z4", "2001:db8::4%z6"]), ("bn", ["YWJjZA==", "YQ=="]), ("bt", ["b0 b9", "b1"]),
    ("ubb", ["u1", "YWJj", "u0 u1"]), ("uip", ["10.9.9.9%z", "2001:db8:9::/48", "/a:tp/a:ipk[a:a='10.0.0.9%k'][a:p='10.3.0.0/16']/a:x", "a:id2"]),
    ("iid", ["/a:tp/a:ipk[a:a='10.0.0.9%k'][a:p='10.3.0.0/16']/a:x", "/a:top", "/a:tul[.='m']"]), ("idr", ["a:id1", "a:id2"]),
    ("xp", ["/a:tp/a:ip4[. = '1'] | count(//a:top)", "a:c/a:i8 + 1"]), ("nii", ["/a:c/a:i8", "/a:l[a:k1='a']/a:v"]),
    ("dt", ["2023-01-02T03:04:05.678901+01:00", "2023-01-02T03:04:05Z", "2023-01-02T03:04:05.5-00:00"]), ("hex", ["01:ab:cd", "ff"]),
    ("mac", ["00:11:22:33:44:55", "aa:bb:cc:dd:ee:ff"]), ("uuid", ["f81d4fae-7dec-11d0-a765-00a0c91e6bf6", "00000000-0000-0000-0000-000000000000"]),
    ("dc", ["1.250", "-0.001"]), ("lr4", ["10.0.0.1%eth0", "10.0.0.11%wlan0"]), ("lrip", ["10.0.0.2%lo", "2001:db8::99%free"]),
    ("lrxp", ["/a:tp/a:ip4[. = '1'] | count(//a:top)", "a:c/a:i8 + 1"]), ("lrid", ["a:id1", "a:id2"]),
]


def _own_tp_doc(pick=0, extra=""):
    """<tp> with a value for every leaf (the pick-th of its list, modulo), a user-ordered leaf-list and a list whose keys own strings"""
    ch = "".join("<%s>%s</%s>" % (n, vs[pick % len(vs)], n) for n, vs in _OWN_TP)
    ch += "<ipl>10.0.0.7%e7</ipl><ipl>2001:db8::7%e8</ipl><ipk><a>10.0.0.9%k</a><p>10.3.0.0/16</p><x>/a:top | /a:c</x></ipk>"
    if pick:
        ch += "<ipk><a>2001:db8::9%k6</a><p>2001:db8:3::/48</p></ipk>"
    return '<tp %s xmlns:a="urn:a">%s</tp><top %s xmlns:a="urn:a" a:ipm="10.0.0.5%%m" a:xpm="/a:top | //a:c" a:iim="/a:tul[.=\'q\']">t</top>%s' % (
        _NSA, ch, _NSA, extra)


# values re-resolved at validation time: targets in /a:tp and the union leaves that may refer to them (see MOD_A in impl/t_own.c)
_OWN_UTGT = {"idr": ["a:id1", "a:id2"], "xp": ["/a:top | //a:c", "count(a:x)"], "iid": ["/a:top", "/a:tul[.='m']"], "bt": ["b0 b9", "b1"],
             "bn": ["YWJjZA==", "YQ=="], "ip": ["10.0.0.2%lo", "2001:db8::2%e2"], "ip4": ["10.0.0.1%eth0", "10.0.0.11%wlan0"],
             "dt": ["2023-01-02T03:04:05.678901+01:00", "2023-01-02T03:04:05Z"], "lrid": ["a:id1", "a:id2"]}
_OWN_UNI = {"ulid": "idr", "ulxp": "xp", "ulii": "iid", "ulbt": "bt", "ulbn": "bn", "ulip": "ip", "uids": "lrid", "ull": "idr"}
_OWN_TP_ORDER = ["ip4", "ip", "bn", "bt", "iid", "idr", "xp", "dt", "lrid", "ulid", "ulxp", "ulii", "ulbt", "ulbn", "ulip", "uiis", "uids", "ull", "ulidl"]


def _own_union_doc(tsel, usel, fmt="x", top=True):
    """/a:tp with the targets (value tsel of each, None: target missing) and the union leaves (value usel of their target's list)"""
    vals = {}
    for t_, vs in _OWN_UTGT.items():
        if tsel is not None:
            vals[t_] = [vs[tsel]]
    if "lrid" in vals and "idr" in vals:
        vals["lrid"] = vals["idr"]
    for u_, t_ in _OWN_UNI.items():
        vals[u_] = [_OWN_UTGT[t_][usel]]
    vals["uiis"] = [["/a:top", "/a:tul[.='nope']"][usel]]
    vals["ulidl"] = [_OWN_UTGT["idr"][usel], _OWN_UTGT["dt"][usel], "plain"]
    if fmt == "x":
        ch = "".join("<%s>%s</%s>" % (n, v, n) for n in _OWN_TP_ORDER for v in vals.get(n, []))
        return '<tp %s xmlns:a="urn:a">%s</tp>%s' % (_NSA, ch, ('<top %s>t</top>' % _NSA) if top else "")
    import json as _json
    body = {}
    for n in _OWN_TP_ORDER:
        if n in vals:
            body[n] = vals[n] if n == "ulidl" else vals[n][0]
    doc = {"a:tp": body}
    if top:
        doc["a:top"] = "t"
    return _json.dumps(doc)


_OWN_C_LEAVES = ["i8", "s", "e", "lr", "u", "idr", "m", "w", "sl", "ul", "ca1", "ca2", "cb1"]
_OWN_TOP_LEAVES = ["top", "tul", "sll"]

_OWN_PATHS_OK = [
    ("/a:c/i8", "5"), ("/a:c/i8", "7"), ("/a:c/s", "abc"), ("/a:c/sl[.='x']", None), ("/a:c/sl", "y"), ("/a:c/ul[.='3']", None),
    ("/a:c/ul", "4"), ("/a:c/ol[k='x']/v", "1"), ("/a:c/ol[k='y']", None), ("/a:l[k1='a'][k2='1']/v", "vv"),
    ("/a:l[k2='2'][k1='b']/in/x", "xx"), ("/a:l[k1='a'][k2='1']", None), ("/a:ul2[k='q']", None), ("/a:ul2[k='q']/v", "1"),
    ("/a:tul[.='v']", None), ("/a:tul", "m"), ("/a:top", "t"), ("/a:top", "a"), ("/a:kl[1]/a", "1"), ("/a:kl/a", "2"), ("/a:sll", "s"),
    ("/a:c/p/man", "m"), ("/a:c/p", None), ("/a:c/ad", "<x/>"), ("/a:c/ad", '{"a:top":"x"}'), ("/a:c/ax", "text"),
    ("/a:c/ax", "<top xmlns=\"urn:a\">1</top>"), ("/b:bc/bl", "b"), ("/b:bc/bll", "1"), ("/a:c/act/ai", "i"), ("/b:r/x", "x"),
    ("/a:c/nn/nl", "n"), ("/a:c/ca1", "1"), ("/a:c/cb1", "3"), ("/a:c/w", "w"), ("/a:c/lr", "a"), ("/a:c/idr", "a:id1"),
    ("/a:c/u", "x"), ("/a:c/e", "two"), ("/a:c/m", "77"), ("/a:c", None),
]
_OWN_PATHS_BAD = [
    ("/a:c/nope", "1"), ("/a:c/i8[", "1"), ("/a:l[k1='a']/v", "v"), ("/a:l[k1='a'][k2='xx']/v", "v"), ("a:c/i8", "1"), ("/x:c", None),
    ("/a:c/sl[.='x'", None), ("/a:l[k9='a'][k2='1']", None), ("//a:c", None), ("/a:c/ol[k='x']/k", "y"), ("/a:c[1]", None), ("/", None),
    ("/a:c/i8", "999"), ("/a:c/s", "UPPER"), ("/a:c/e", "four"), ("/a:c/ul", "300"), ("/a:c/ul[.='300']", None), ("/a:l", None),
    ("/a:c/ol", None), ("/a:tul[.='v']/x", None), ("/a:c/i8/x", "1"), ("/a:c/ad/x", None), ("/a:c/act/ao", "o"), ("/b:r/z", "1"),
    ("/a:c/idr", "a:nope"), ("/a:l[k1='a'][k2='1'][k1='b']", None), ("/a:c/ol[k='x'][v='1']", None), ("/a:kl[0]", None),
    ("/a:c/p/man[.='x']", None), ("/a:c/ol[1]", None), ("/a:c/ul[2]", None), ("i8", "1"), ("/a:c/a:i8/", "1"), ("/b:c", None),
]
_OWN_XPATH_OK = ["/a:c/*", "//*", "count(/a:l) > 1", "/a:l[k1='a']/v", "../a:top", "a:c/a:i8", ".", "/a:c/ul[.='3']", "//a:k[.='a']/..",
                 "/a:c/i8 + 1 > 3", "/a:ul2[2]", "string(/a:top)", "/b:bc | /a:c", "deref(/a:c/lr)", "/a:c/ol[k='x']/v"]
_OWN_XPATH_BAD = ["/a:c[", "/a:c/", "count(", "/x:c", "1 +", "/a:c/i8[.=']", "$v", "unknown-fn()", "", "/a:c//", "((", "/a:c/i8 and", "a:c[1",
                  "count(1,2)", "/a:c/..//.[", "'abc", "current()/..[", "/a:c/i8 = ", "derived-from(/a:c/idr)", "re-match('a')"]

_OWN_MODS_BAD = [
    "module m1 {namespace \"urn:m1\"; prefix m1; leaf x {type string}",                                   # syntax
    "module m1 {namespace \"urn:m1\"; prefix m1; leaf x {type string;}",                                  # unterminated
    "module m1 {namespace \"urn:m1\"; prefix m1; import nonexistent {prefix n;} leaf x {type string;}}",  # import
    "module m1 {namespace \"urn:m1\"; prefix m1; leaf r {type leafref {path \"/m1:none\";}}}",             # leafref target
    "module m1 {namespace \"urn:m1\"; prefix m1; leaf x {type nope;}}",                                    # typedef
    "module m1 {namespace \"urn:m1\"; prefix m1; container c1 {uses g;}}",                                  # grouping
    "module m1 {namespace \"urn:m1\"; prefix m1; identity i1 {base nobase;}}",                              # identity
    "module m1 {namespace \"urn:m1\"; prefix m1; leaf x {type int8; default 999;}}",                       # default value
    "module m1 {namespace \"urn:m1\"; prefix m1; leaf x {type string {pattern \"[a-\";}}}",                # pattern
    "module m1 {yang-version 1.1; namespace \"urn:m1\"; prefix m1; feature f1; leaf x {if-feature \"f1 and\"; type string;}}",
    "module m1 {yang-version 1.1; namespace \"urn:m1\"; prefix m1; feature f1; leaf x {if-feature \"not (not f1)\"; type string;}"
    " leaf y {if-feature \"f2\"; type string;}}",
    "module m1 {namespace \"urn:m1\"; prefix m1; import t {prefix t;} deviation /t:tc/t:zz {deviate not-supported;}}",
    "module m1 {namespace \"urn:m1\"; prefix m1; import t {prefix t;} augment /t:nope {leaf ax {type string;}}}",
    "module m1 {namespace \"urn:m1\"; prefix m1; import t {prefix t;} augment /t:tc {leaf tl {type string;}}}",     # duplicate via augment
    "module m1 {namespace \"urn:m1\"; prefix m1; leaf x {type string;} leaf x {type int8;}}",              # duplicate names
    "module m1 {namespace \"urn:a\"; prefix m1; leaf x {type string;}}",                                     # namespace clash
    "module m1 {namespace \"urn:m1\"; prefix m1; leaf x {type string; must \"count(\";}}",                 # xpath
    "module m1 {namespace \"urn:m1\"; prefix m1; leaf x {type union {type int8; type leafref {path \"../nn\";}}}}",
    "module m1 {namespace \"urn:m1\"; prefix m1; leaf x {type enumeration {enum a; enum a;}}}",
    "module m1 {namespace \"urn:m1\"; prefix m1; list li {key k; leaf v {type string;}}}",                  # key missing
    "module m1 {namespace \"urn:m1\"; prefix m1; leaf x {type int8 {range \"10..1\";}}}",
    "module m1 {namespace \"urn:m1\"; prefix m1; leaf x {type string; mandatory true; default d;}}",
    "module m1 {namespace \"urn:m1\"; prefix m1; typedef t1 {type t2;} typedef t2 {type t1;} leaf x {type t1;}}",
    "module m1 {namespace \"urn:m1\"; prefix m1; grouping g {uses g;} uses g;}",
    "module t {namespace \"urn:t\"; prefix t; revision 2030-01-01; container tc {leaf tl {type nope;}}}",   # broken newer revision of t
    "module a {yang-version 1.1; namespace \"urn:a\"; prefix a; revision 2030-01-01; leaf top {type nope;}}",
    "submodule s1 {belongs-to nope {prefix n;}}",
    "module m1 {namespace \"urn:m1\"; prefix m1; extension e1; m1:e2 x;}",
    "",
    "module",
    "module m1 {namespace \"urn:m1\"; prefix m1; leaf x {type string;}} trailing",
    "module m1 {namespace \"urn:m1\"; prefix m1; import ietf-yang-metadata {prefix md;} md:annotation a1 {type nope;}}",
    "module m1 {namespace \"urn:m1\"; prefix m1; rpc r1 {input {leaf x {type leafref {path \"/m1:zz\";}}}}}",
    "module m1 {namespace \"urn:m1\"; prefix m1; leaf x {type instance-identifier; default \"/m1:y\";}}",
    "module m1 {namespace \"urn:m1\"; prefix m1; leaf x {type identityref {base m1:nope;}}}",
    "module m1 {namespace \"urn:m1\"; prefix m1; leaf x {type bits {bit b1 {position 1;} bit b2 {position 1;}}}}",
    "module m1 {namespace \"urn:m1\"; prefix m1; leaf x {type decimal64;}}",
    "module m1 {namespace \"urn:m1\"; prefix m1; choice ch {default nocase; case c1 {leaf x {type string;}}}}",
    "module m1 {namespace \"urn:m1\"; prefix m1; leaf-list ll {type string; default a; default a;}}",
]
# loads that succeed (stand-alone modules: nothing that the data trees refer to is recompiled)
_OWN_MODS_OK = [
    "module v1 {namespace \"urn:v1\"; prefix v1; leaf vl {type string; default dv;} container vc {leaf x {type int8;}}}",
    "module v2 {namespace \"urn:v2\"; prefix v2; typedef tt {type string {pattern \"[a-z]*\";}} leaf-list vll {type tt;}}",
]
_OWN_MOD_V1_BROKEN_REV = "module v1 {namespace \"urn:v1\"; prefix v1; revision 2031-01-01; leaf vl {type nope;}}"


class _OwnDoc:
    """random instance document of modules a/b as XML text (mostly valid; defects on request)"""

    def __init__(self, rng):
        self.rng = rng

    def leafv(self, name, bad=0.0):
        ok, ko = _OWN_LEAVES[name]
        if ko and self.rng.random() < bad:
            return self.rng.choice(ko)
        return self.rng.choice(ok)

    def cont_c(self, bad, k1s, invalid):
        rng = self.rng
        ch = []
        i8 = None
        if rng.random() < 0.6:
            i8 = self.leafv("i8", bad)
            ch.append("<i8>%s</i8>" % i8)
        for nm in ("s", "e", "u", "idr"):
            if rng.random() < 0.3:
                ch.append("<%s>%s</%s>" % (nm, self.leafv(nm, bad), nm))
        if rng.random() < 0.3:
            # leafref: existing key or (invalid) dangling
            v = rng.choice(k1s) if (k1s and not (invalid and rng.random() < 0.5)) else "dangling"
            ch.append("<lr>%s</lr>" % v)
        if rng.random() < 0.3:
            ch.append("<m>%s</m>" % (rng.choice(["50", "200"]) if (invalid and rng.random() < 0.5) else rng.choice(["1", "49"])))
        if rng.random() < 0.3:
            try:
                wok = i8 is not None and int(i8) > 10
            except ValueError:
                wok = False
            if wok or (invalid and rng.random() < 0.7):
                ch.append("<w>w</w>")
        for v in rng.sample(["x", "y", "z", "zz"], rng.randrange(0, 4)):
            ch.append("<sl>%s</sl>" % v)
        uls = rng.sample(["1", "2", "3", "4", "9"], rng.randrange(0, 5))
        if invalid and uls and rng.random() < 0.3:
            uls.append(uls[0])
        for v in uls:
            ch.append("<ul>%s</ul>" % v)
        if rng.random() < 0.25:
            ch.append(rng.choice(["<ad><x/></ad>", "<ad><top %s>in</top></ad>" % _NSA, "<ad/>", "<ad><c %s><i8>1</i8></c></ad>" % _NSA]))
        if rng.random() < 0.2:
            ch.append(rng.choice(["<ax>text</ax>", "<ax><q><r/></q></ax>", "<ax/>"]))
        r = rng.random()
        if r < 0.2:
            ch.append("<ca1>1</ca1>")
            if rng.random() < 0.5:
                ch.append("<ca2>2</ca2>")
            if invalid and rng.random() < 0.5:
                ch.append("<cb1>3</cb1>")
        elif r < 0.35:
            ch.append("<cb1>3</cb1>")
        if rng.random() < 0.3:
            if invalid and rng.random() < 0.6:
                ch.append("<p><opt>o</opt></p>")        # mandatory leaf missing
            else:
                ch.append("<p><man>m</man>%s</p>" % ("<opt>dd</opt>" if rng.random() < 0.3 else ""))
        for k in rng.sample(["x", "y", "z", "q"], rng.randrange(0, 4)):
            ch.append("<ol><k>%s</k>%s</ol>" % (k, "<v>%d</v>" % rng.randrange(0, 9) if rng.random() < 0.5 else ""))
        rng.shuffle(ch)
        return "<c %s>%s</c>" % (_NSA, "".join(ch))

    def doc(self, invalid=False, bad=0.0, state=True):
        rng = self.rng
        parts = []
        keys = [(k1, k2) for k1 in "abc" for k2 in "123"]
        ls = rng.sample(keys, rng.randrange(0, 4))
        if invalid and ls and rng.random() < 0.3:
            ls.append(ls[0])            # duplicate instance
        k1s = [k[0] for k in ls]
        for k1, k2 in ls:
            v = ""
            if rng.random() < 0.5:
                v = "<v>%s</v>" % rng.choice(["v1", "v2", "v3"] if not invalid else ["v1"])
            inn = "<in><x>x</x></in>" if rng.random() < 0.3 else ""
            if invalid and rng.random() < 0.15:
                parts.append("<l %s><k1>%s</k1>%s</l>" % (_NSA, k1, v))     # key missing
            else:
                parts.append("<l %s><k1>%s</k1><k2>%s</k2>%s%s</l>" % (_NSA, k1, k2, v, inn))
        if rng.random() < 0.75:
            parts.append(self.cont_c(bad, k1s, invalid))
        for k in rng.sample(["a", "b", "c", "d", "e"], rng.randrange(0, 5)):
            parts.append("<ul2 %s><k>%s</k>%s</ul2>" % (_NSA, k, "<v>%s</v>" % k if rng.random() < 0.4 else ""))
        for v in rng.sample(["m", "n", "o", "p"], rng.randrange(0, 4)):
            parts.append("<tul %s>%s</tul>" % (_NSA, v))
        if rng.random() < 0.4:
            parts.append("<top %s>%s</top>" % (_NSA, rng.choice(["t", "a", "b"])))
        if state and rng.random() < 0.25:
            for _ in range(rng.randrange(1, 4)):
                parts.append("<kl %s><a>%s</a></kl>" % (_NSA, rng.choice("12")))
        if state and rng.random() < 0.2:
            for _ in range(rng.randrange(1, 4)):
                parts.append("<sll %s>%s</sll>" % (_NSA, rng.choice(["s1", "s2"])))
        if rng.random() < 0.15:
            ch = "".join("<%s>%s</%s>" % (n, rng.choice(vs), n) for n, vs in _OWN_TP if rng.random() < 0.4)
            for v in rng.sample(["10.0.0.7%e7", "2001:db8::7%e8", "10.0.0.8"], rng.randrange(0, 3)):
                ch += "<ipl>%s</ipl>" % v
            for u_, t_ in _OWN_UNI.items():
                if rng.random() < 0.4:
                    ch += "<%s>%s</%s>" % (u_, rng.choice(_OWN_UTGT[t_] + ["free text"]), u_)
            for v in rng.sample(["a:id1", "a:id2", "2023-01-02T03:04:05Z", "x"], rng.randrange(0, 3)):
                ch += "<ulidl>%s</ulidl>" % v
            parts.append('<tp %s xmlns:a="urn:a">%s</tp>' % (_NSA, ch))
        if rng.random() < 0.3:
            ty = []
            for nm, vals in (("ii", ["/a:top", "/a:tul[.='m']", "/a:c/a:i8"]), ("iin", ["/a:tul[.='none']"]), ("lrt", ["t", "a", "c17-none"]),
                             ("lrn", ["free"]), ("ulr", ["5", "t", "zz"]), ("uii", ["none", "/a:top"]), ("bn", ["YQ=="]), ("dc", ["1.5"]),
                             ("bt", ["b0 b2"]), ("bo", ["true"]), ("em", [""]), ("idl", ["a:id1"])):
                if rng.random() < 0.35:
                    ty.append("<%s%s>%s</%s>" % (nm, ' xmlns:a="urn:a"' if nm in ("ii", "iin", "uii", "idl") else "", rng.choice(vals), nm))
            parts.append("<ty %s>%s</ty>" % (_NSA, "".join(ty)))
        if rng.random() < 0.3:
            parts.append("<bc %s><bl>b</bl>%s</bc>" % (_NSB, "".join("<bll>%d</bll>" % i for i in rng.sample(range(5), rng.randrange(0, 3)))))
        if rng.random() < 0.08:
            parts.append('<top %s xmlns:a="urn:a" a:note="%s">m</top>' % (_NSA, "" if invalid else "nt") if not any("<top" in p for p in parts)
                         else "")
        rng.shuffle(parts)
        return "".join(parts)

    def mutate(self, d):
        """malformed variants of a document"""
        rng = self.rng
        r = rng.random()
        if not d:
            return "<"
        if r < 0.3:
            return d[:rng.randrange(1, len(d))]                                  # truncated
        if r < 0.45:
            i = d.find(">", rng.randrange(len(d)))
            i = len(d) if i < 0 else i + 1
            return d[:i] + rng.choice(["<zz %s/>" % _NSA, "<zz xmlns=\"urn:q\">1</zz>", "<zz/>", "text", "<c %s><zz/></c>" % _NSA]) + d[i:]
        if r < 0.6:
            return _re.sub(r">([a-z0-9]+)<", lambda m: ">" + rng.choice(["", "\x01", "999", "&amp;", "&bogus;"]) + "<", d, count=1)
        if r < 0.7:
            return d.replace("</", "<", 1)
        if r < 0.8:
            return d.replace(_NSA, 'xmlns="urn:zz"', 1)
        if r < 0.9:
            return d.replace(_NSA, _NSA + " " + _NSY + ' yang:operation="%s"' % rng.choice(["bogus", "create", "delete"]), 1)
        return d + d                                                             # everything twice


_OWN_JSON = [
    ('{"a:c":{"i8":3,"s":"abc","sl":["x","y"],"ul":[3,1,2],"ol":[{"k":"x","v":1},{"k":"y"}]},"a:top":"t"}', True),
    ('{"a:l":[{"k1":"a","k2":1,"v":"v1"},{"k1":"b","k2":2}],"a:c":{"lr":"a","p":{"man":"m"}},"a:ul2":[{"k":"a"},{"k":"b"}]}', True),
    ('{"a:tul":["m","n"],"b:bc":{"bl":"b","bll":[1,2]},"a:c":{"ad":{"a:top":"in"},"ax":"t","u":"x","idr":"a:id1"}}', True),
    ('{"a:c":{"i8":3,"@i8":{"a:note":"n1"}},"a:top":"t","@a:top":{"a:num":5}}', True),
    ('{"a:c":{"i8":300}}', False), ('{"a:c":{"i8":3,', False), ('{"a:c":{"nope":1}}', False), ('{"a:c":{"i8":"3"}}', False),
    ('{"a:l":[{"k1":"a","k2":1},{"k1":"a","k2":1}]}', False), ('{"a:l":[{"k1":"a"}]}', False), ('{"a:c":{"ul":[1,1]}}', False),
    ('{"a:c":[1]}', False), ('{"x:c":{}}', False), ('{"a:c":{"p":{}}}', False), ('{"a:c":{"i8":null}}', False), ('[', False), ('', True),
    ('{"a:c":{"i8":3,"@i8":{"a:note":""}}}', False), ('{"a:c":{"@":{"a:note":"x"}}}', True), ('{"a:c":{"lr":"zz"}}', False),
    ('{"a:c":{"ca1":"1","cb1":"3"}}', False), ('{"a:c":{"m":60}}', False), ('{"a:c":{"w":"w"}}', False), ('{"a:top":"t","a:top":"u"}', False),
]

_OWN_OPS_XML = [
    ("r", '<r %s><x>1</x></r>' % _NSB, True), ("r", '<r %s><x>1</x><y>t</y></r>' % _NSB, True), ("r", '<r %s><x>1</x><zz/></r>' % _NSB, False),
    ("r", '<r %s><x>1</x>' % _NSB, False), ("r", '<r %s><z>1</z></r>' % _NSB, False), ("r", '<bc %s/>' % _NSB, False),
    ("r", '<c %s><act><ai>i</ai></act></c>' % _NSA, True), ("r", '<c %s><act><ai>i</ai></act><i8>1</i8></c>' % _NSA, False),
    ("r", '<c %s><act><ao>o</ao></act></c>' % _NSA, False), ("r", '<c %s><i8>1</i8></c>' % _NSA, False),
    ("n", '<n %s><msg>m</msg></n>' % _NSB, True), ("n", '<n %s><msg>m</msg><msg>n</msg></n>' % _NSB, False), ("n", '<n %s><q/></n>' % _NSB, False),
    ("n", '<c %s><nn><nl>x</nl></nn></c>' % _NSA, True), ("n", '<c %s><nn><nl>x</nl></nn><nn/></c>' % _NSA, False), ("n", '<r %s/>' % _NSB, False),
    ("r", '', False), ("n", '<n %s>' % _NSB, False), ("r", '<r %s><x>1</x></r><r %s><x>2</x></r>' % (_NSB, _NSB), False),
]
_OWN_OPS_JSON = [
    ("r", '{"b:r":{"x":"1"}}', True), ("r", '{"b:r":{"x":"1","q":1}}', False), ("n", '{"b:n":{"msg":"m"}}', True), ("n", '{"b:n":{"msg":', False),
    ("r", '{"a:c":{"act":{"ai":"i"}}}', True), ("n", '{"a:c":{"nn":{"nl":"x"}}}', True), ("r", '{"b:bc":{}}', False),
]
_OWN_REPLY_XML = [('<z>1</z>', True), ('<z>999</z>', False), ('<x>1</x>', False), ('<z>1</z><z>2</z>', False), ('<z>1', False), ('', True)]


class Ownership:
    """C17 (part): random sequences of data-tree API calls, failing ones included, over two contexts with the modules
    a, b, t (impl/t_own.c). After every call the driver checks that outputs are NULL on failure, that inputs which are not
    consumed and slots that are not arguments are unchanged and that links are consistent; at the end of every case
    everything the caller holds is freed, the dictionaries must be back at their state after module loading, ly_ctx_destroy
    must not warn about strings that were not freed, no heap block allocated during the case may be left (allocation
    tracker, every build) and LeakSanitizer must not report a new leak (ASan build); double frees / use after free abort
    the case under ASan."""
    name = "ownership"
    driver = "t_own"
    kinds = ["asan"]
    quick_sanitize = True
    leaks = True
    timeout = 600

    def n(self, tier, quick, thorough, scale=1.0):
        return max(1, int((thorough if tier == "thorough" else quick) * scale))

    # ---- command builders (see the header comment of impl/t_own.c) -----------------------------
    @staticmethod
    def parse(ctx, doc, dst, popts=0, vopts=0, fmt="x"):
        return ["parse", ctx, fmt, popts, vopts, _hx(doc), dst]

    @staticmethod
    def node(rng, slots=6):
        return "%d.%d" % (rng.randrange(slots), rng.choice([0, 0, 1, 1, 2, 3, 4, 5, 6, 8, 10, 13, 17, 25]))

    def rand_cmd(self, rng, dg):
        """one random command; slots 0..5"""
        S = 6
        N = lambda: self.node(rng, S)       # noqa: E731
        sl = lambda: rng.randrange(S)       # noqa: E731
        r = rng.random
        k = rng.choice(self.KINDS)
        if k == "parse":
            inv = r() < 0.35
            d = dg.doc(invalid=inv, bad=0.3 if inv else 0.0)
            if r() < 0.25:
                d = dg.mutate(d)
            po = rng.choice([0, 0, _P_ONLY, _P_ONLY, _P_ONLY | _P_STRICT, _P_ONLY | _P_OPAQ, _P_STRICT, _P_OPAQ, _P_ONLY | _P_NO_NEW,
                             _P_WHEN_TRUE, _P_NOSTATE | _P_ONLY, _P_STRICT | _P_OPAQ])
            return self.parse(rng.choice("0001"), d, sl(), po, rng.choice([0, 0, _V_PRESENT, _V_NOSTATE, _V_MULTI]))
        if k == "parsej":
            d, ok = rng.choice(_OWN_JSON)
            return self.parse(rng.choice("0001"), d, sl(), rng.choice([0, _P_ONLY, _P_ONLY | _P_OPAQ, _P_STRICT, 0x4000000]),
                              rng.choice([0, _V_PRESENT, _V_MULTI]), "j")
        if k == "parsep":
            d = rng.choice(["<i8>4</i8>", "<i8>400</i8>", "<sl>n</sl><sl>m</sl>", "<ol><k>n</k></ol>", "<zz/>", "<x>1</x>", "<v>vv</v>",
                            "<k1>zz</k1>", "<man>m</man>", "<i8>4</i8><i8>5</i8>", "<ul>7</ul", "<in><x>y</x></in>", ""])
            d = d.replace(">", " " + _NSA + ">", 1) if (d and r() < 0.9) else d
            return ["parsep", N(), "x", rng.choice([_P_ONLY, _P_ONLY | _P_STRICT, 0, _P_STRICT, _P_ONLY | _P_OPAQ]),
                    rng.choice([0, _V_PRESENT]), _hx(d)]
        if k == "parseop":
            if r() < 0.7:
                ty, d, ok = rng.choice(_OWN_OPS_XML)
                fmt = "x"
            else:
                ty, d, ok = rng.choice(_OWN_OPS_JSON)
                fmt = "j"
            return ["parseop", rng.choice("0001"), fmt, ty, _hx(d), sl()]
        if k == "reply":
            d, ok = rng.choice(_OWN_REPLY_XML)
            d = d.replace(">", " " + _NSB + ">", 1) if d else d
            return ["parseop", rng.choice("0001"), "x", "y", _hx(d), sl(), N()]
        if k == "term":
            top = r() < 0.25
            nm = rng.choice(_OWN_TOP_LEAVES if top else _OWN_C_LEAVES)
            val = dg.leafv(nm, 0.3)
            if r() < 0.12:
                nm = rng.choice(["nope", "c", "l", "", "i8x"])
            mod = rng.choice(["a0", "a0", "~", "a1", "b0"]) if not top else rng.choice(["a0", "a0", "a1", "~", "b0"])
            return ["term", "~" if (top or r() < 0.05) else N(), mod, _hx(nm), _hx(val),
                    rng.choice([0, 0, 0, _NEW_STORE_ONLY, _NEW_OUTPUT]), sl()]
        if k == "inner":
            nm = rng.choice(["c", "p", "in", "act", "nn", "bc", "r", "n", "nope", "l", "i8"])
            return ["inner", rng.choice(["~", "~", N(), N()]), rng.choice(["a0", "a0", "b0", "~", "a1", "b1"]), _hx(nm), rng.choice([0, 0, 1]), sl()]
        if k == "list":
            nm = rng.choice(["l", "l", "ol", "ul2", "kl", "nope", "c"])
            k1 = rng.choice(["a", "b", "c", "x", ""])
            k2 = rng.choice(["1", "2", "3", "300", "x", ""])
            par = "~" if nm in ("l", "ul2", "kl") and r() < 0.9 else N()
            return ["list", par, rng.choice(["a0", "a0", "~", "a1"]), _hx(nm), _hx(k1), _hx(k2), rng.choice([0, 0, _NEW_STORE_ONLY]), sl()]
        if k == "list2":
            nm = rng.choice(["l", "l", "ol", "ul2", "kl", "nope"])
            keys = rng.choice(["[k1='a'][k2='1']", "[k2='2'][k1='b']", "[k1='a']", "[k1='a'][k2='x']", "[k='x']", "[k='y']", "", None,
                               "[k1='a'][k2='1'][k1='b']", "[k1='a'", "[zz='1']", "[k1=\"a\"][k2=\"3\"]", "[.='a']", "[1]"])
            par = "~" if nm in ("l", "ul2", "kl") and r() < 0.9 else N()
            return ["list2", par, rng.choice(["a0", "a0", "~", "a1"]), _hx(nm), _hx(keys), 0, sl()]
        if k == "any":
            nm = rng.choice(["ad", "ad", "ax", "ax", "nope", "i8"])
            vt = rng.choice("sxjt")
            if vt == "t":
                val = sl()
            else:
                val = _hx(rng.choice(["<x/>", "<top %s>v</top>" % _NSA, "<x", "text", '{"a:top":"v"}', '{"a:top":', "", None, "lybx",
                                      "<c %s><i8>999</i8></c>" % _NSA, "<a><b><c/></b></a>", '{"x":1}', "{"]))
            return ["any", N() if r() < 0.9 else "~", rng.choice(["a0", "a0", "~", "~", "a1"]), _hx(nm), vt, val,
                    rng.choice([0, _NEW_ANY_USE, _NEW_ANY_USE, _NEW_OUTPUT]), sl()]
        if k == "opaq":
            c = rng.choice(["opaq", "opaq2"])
            return [c, rng.choice(["~", N(), N()]), rng.choice("00~1"), _hx(rng.choice(["oq", "i8", "zz", ""])), _hx(rng.choice(["v", "", None])),
                    _hx(rng.choice([None, "a", "p", ""])), _hx(rng.choice(["a", "urn:a", "urn:q", "nomod", "", None])), sl()]
        if k == "meta":
            nm = rng.choice(["note", "num", "a:note", "a:num", "nope", "x:note", "yang:operation", "operation", "", ":"])
            val = rng.choice(["n1", "5", "", "toolongnote", "x", "create", "bogus"])
            return ["meta", N(), rng.choice("~~01"), rng.choice(["a0", "a0", "~", "a1", "y0", "b0"]), _hx(nm), _hx(val),
                    rng.choice([0, 0, _NEW_STORE_ONLY, 0x10])]
        if k == "attr":
            return ["attr", N(), _hx(rng.choice([None, "a", "nomod", ""])), _hx(rng.choice(["at", "a:at", "x:at", ":"])), _hx(rng.choice(["v", "", None]))]
        if k == "path":
            p, v = rng.choice(_OWN_PATHS_OK) if r() < 0.6 else rng.choice(_OWN_PATHS_BAD)
            opts = rng.choice([0, 0, 0, _NEW_PATH_UPDATE, _NEW_PATH_UPDATE, _NEW_PATH_OPAQ, _NEW_OUTPUT, _NEW_STORE_ONLY,
                               _NEW_PATH_UPDATE | _NEW_PATH_OPAQ, 0x80 | _NEW_PATH_OPAQ])
            if "act/ao" in p or "r/z" in p:
                opts |= rng.choice([0, _NEW_OUTPUT])
            par = "%d.0" % sl() if (p.startswith("/") and r() < 0.85) else N()
            if r() < 0.12:
                n_, vs = rng.choice(_OWN_TP)
                return ["path", par, "~", _hx("/a:tp/" + n_), _hx(rng.choice(vs)), rng.choice([0, _NEW_PATH_UPDATE, _NEW_PATH_UPDATE])]
            if r() < 0.12:
                # any node: the same few values again and again so that an update with an equal value is frequent
                nm = rng.choice(["ad", "ax"])
                v = rng.choice(['<top %s>v</top>' % _NSA, '{"a:top":"v"}', "text" if nm == "ax" else '<top %s>w</top>' % _NSA])
                w_ = ["path", par, "~", _hx("/a:c/" + nm), _hx(v), rng.choice([0, _NEW_PATH_UPDATE, _NEW_PATH_UPDATE, _NEW_PATH_UPDATE])]
                if r() < 0.3:
                    w_.append("t%d" % sl())
                return w_
            return [rng.choice(["path", "path", "path1"]), par, rng.choice("~~001"), _hx(p), _hx(v), opts]
        if k == "ins":
            return ["ins", rng.choice("ccssba"), N(), N()]
        if k == "unlink":
            return ["unlink", N(), sl()]
        if k == "free":
            return ["free", sl()]
        if k == "freen":
            return ["freen", N()]
        if k == "freesib":
            return ["freesib", N()]
        if k == "chg":
            nm = rng.choice(list(_OWN_LEAVES))
            return ["chg", N(), _hx(dg.leafv(nm, 0.3))]
        if k == "chgmeta":
            return ["chgmeta", N(), rng.randrange(3), _hx(rng.choice(["n2", "7", "", "toolongnote", "x", "replace", "none"]))]
        if k == "vval":
            sp = rng.choice(list(_OWN_VALS))
            ok, ko, unres = _OWN_VALS[sp]
            v = rng.choice(rng.choice([x for x in (ok, ko, unres, unres) if x]))
            return ["vval", rng.choice(["~", N(), N(), N()]), rng.choice("~~001"), _hx(sp), _hx(v), rng.choice([0, 1, 1, 2, 3, 3, 5])]
        if k == "vcmp":
            ok, ko, unres = _OWN_VALS[rng.choice(list(_OWN_VALS))]
            return ["vcmp", N(), _hx(rng.choice(ok + ko + unres))]
        if k == "chgcanon":
            return ["chgcanon", N(), N()]
        if k == "chgbin":
            return ["chgbin", N(), _hx(rng.choice(["abc", "ABC", "", "toolongvalue", "z", "YQ=="]))]
        if k in ("freemeta", "freeattr"):
            return [k, N(), rng.randrange(4), rng.choice("sssa")]
        if k == "dupmeta":
            return ["dupmeta", N(), rng.randrange(3), N()]
        if k == "anystr":
            return ["anystr", N()]
        if k == "lybrt":
            return ["lybrt", sl(), sl(), rng.choice([0, 0, _P_ONLY, _P_ONLY, _P_STRICT]), rng.choice([0, 0, _V_PRESENT, _V_MULTI])]
        if k == "anycopy":
            return ["anycopy", N(), rng.choice(["~", N(), N()])]
        if k == "dup":
            opts = rng.choice([0, _DUP_REC, _DUP_REC, _DUP_REC | _DUP_FLAGS, _DUP_PARENTS, _DUP_PARENTS | _DUP_REC, _DUP_NO_META | _DUP_REC,
                               0x10, 0x20 | _DUP_REC, 0x40 | _DUP_REC, 0x7f, 0x80, 0xffffffff])
            return ["dup", N(), rng.choice(["~", "~", "~", N()]), opts, sl(), rng.choice("sb"), rng.choice("~~~~01")]
        if k == "merge":
            mopts = rng.choice([0, 0, _MERGE_DESTRUCT, _MERGE_DESTRUCT, _MERGE_DEFAULTS, _MERGE_FLAGS, 7, 3, 5])
            if rng.random() < 0.35:
                # lyd_merge_module with a callback that fails at its K-th call (0 = never)
                return ["merge", sl(), sl(), mopts, "m", rng.choice([0, 1, 1, 2, 3, 4, 6, 9, 15]), rng.choice(["~", "~", "a0", "b0", "a1"])]
            return ["merge", sl(), sl(), mopts, rng.choice("ts")]
        if k == "diff":
            return ["diff", sl(), sl(), rng.choice([0, 0, 1]), sl()]
        if k == "apply":
            if rng.random() < 0.3:
                return ["apply", sl(), sl(), rng.choice([0, 1, 1, 2, 3, 5, 8, 13])]     # lyd_diff_apply_module, failing callback
            return ["apply", sl(), sl()]
        if k == "rev":
            return ["rev", sl(), sl()]
        if k == "dmerge":
            if rng.random() < 0.3:
                return ["dmerge", sl(), sl(), rng.choice([0, 1]), rng.choice([0, 1, 1, 2, 3, 5, 8])]   # lyd_diff_merge_module, failing callback
            return ["dmerge", sl(), sl(), rng.choice([0, 1])]
        if k == "val":
            return ["val", sl(), rng.choice("~~~01"), rng.choice([0, 0, _V_PRESENT, _V_PRESENT, _V_NOSTATE, _V_MULTI, 0x10, 0x20, _V_MULTI | _V_PRESENT]),
                    rng.choice([0, 1, 1]), sl()]
        if k == "valmod":
            return ["valmod", sl(), rng.choice(["a0", "a0", "b0", "a1", "t0"]), rng.choice([0, 0, _V_NOSTATE, _V_MULTI, 0x20, _V_PRESENT]),
                    rng.choice([0, 1]), sl()]
        if k == "valop":
            return ["valop", N(), rng.choice(["~", sl()]), rng.choice("rny"), rng.choice([0, 1]), sl()]
        if k == "impl":
            return ["impl", sl(), rng.choice("~~~01"), rng.choice([0, 0, 1, 2, 4, 8, 3]), rng.choice([0, 1]), sl()]
        if k == "xfind":
            return [rng.choice(["xfind", "xeval"]), N(), _hx(rng.choice(_OWN_XPATH_OK) if r() < 0.5 else rng.choice(_OWN_XPATH_BAD))]
        if k == "print":
            return ["print", N(), rng.choice("xxjjb"), rng.choice([0, 1, 2, 0x10, 0x20, 0x40, 0x41, 0x81, 0x09, 0x04])]
        if k == "lys":
            return ["lys", rng.choice("001"), _hx(rng.choice(_OWN_MODS_BAD))]
        raise AssertionError(k)

    KINDS = (["parse"] * 6 + ["parsej"] * 2 + ["parsep"] * 2 + ["parseop"] * 2 + ["reply"] + ["term"] * 4 + ["inner"] * 2 + ["list"] * 2 +
             ["list2"] * 2 + ["any"] * 4 + ["opaq"] * 2 + ["meta"] * 3 + ["attr"] + ["path"] * 6 + ["ins"] * 8 + ["unlink"] * 3 + ["free"] +
             ["freen"] * 3 + ["freesib"] + ["chg"] * 3 + ["chgmeta"] + ["vval"] * 5 + ["vcmp"] * 2 + ["chgcanon", "chgbin"] + ["freemeta"] * 2 +
             ["freeattr"] * 2 + ["dupmeta", "anystr", "anycopy", "anycopy"] + ["lybrt"] * 3 + ["dup"] * 5 + ["merge"] * 5 + ["diff"] * 4 + ["apply"] * 4 + ["rev"] * 2 +
             ["dmerge"] * 2 + ["val"] * 3 + ["valmod"] + ["valop"] + ["impl"] * 2 + ["xfind"] * 2 + ["print"] * 2 + ["lys"] * 2)

    # ---- fixed scripts: the deliberately failing calls, one construct per case ------------------------------------------
    def known(self):
        """one minimal reproducer per confirmed libyang defect: tag -> case line (also the replay lines of
        known_findings.d/ht.json)"""
        P, h = self.parse, _hx
        A, Y = _NSA, _NSY
        two = '<l %s><k1>c</k1><k2>2</k2></l><c %s><i8>1</i8></c>' % (A, A)
        K = [
            ("diff-apply-userord-create-nometa-leak",
             [P("0", '<ul2 %s><k>a</k></ul2>' % A, 0, _P_ONLY), P("0", '<ul2 %s %s yang:operation="create"><k>z</k></ul2>' % (A, Y), 1, _P_ONLY),
              ["apply", 0, 1]]),
            ("merge-destruct-einval-source-not-consumed",
             [P("0", '<top %s>t</top>' % A, 0, _P_ONLY), P("1", '<top %s>u</top>' % A, 1, _P_ONLY), ["merge", 0, 1, _MERGE_DESTRUCT, "s"]]),
            ("parse-multi-error-opaq-child-assert", [P("0", '<l %s><zz/><k1>b</k1><v>v1</v></l>' % A, 0, 393216, _V_MULTI)]),
            ("print-json-fail-open-set-leak",
             [['parse', '0', 'x', '0', '0', '3c756c3220786d6c6e733d2275726e3a61223e3c6b3e613c2f6b3e3c763e613c2f763e3c2f756c323e3c6c20786d6c6e733d2275726e3a61223e3c6b313e613c2f6b313e3c6b323e323c2f6b323e3c2f6c3e3c747920786d6c6e733d2275726e3a61223e3c626e3e59513d3d3c2f626e3e3c62743e62302062323c2f62743e3c656d3e3c2f656d3e3c2f74793e3c6320786d6c6e733d2275726e3a61223e3c736c3e7a3c2f736c3e3c756c3e343c2f756c3e3c69383e3130303c2f69383e3c756c3e323c2f756c3e3c6f6c3e3c6b3e783c2f6b3e3c2f6f6c3e3c6d3e313c2f6d3e3c756c3e333c2f756c3e3c773e773c2f773e3c756c3e313c2f756c3e3c6361313e313c2f6361313e3c6f6c3e3c6b3e7a3c2f6b3e3c763e363c2f763e3c2f6f6c3e3c61642f3e3c2f633e', '0'], ['parse', '0', 'x', '0', '0', '3c6320786d6c6e733d2275726e3a61223e3c6c723e623c2f6c723e3c6f6c3e3c6b3e713c2f6b3e3c763e373c2f763e3c2f6f6c3e3c736c3e783c2f736c3e3c61643e3c782f3e3c2f61643e3c69383e373c2f69383e3c653e6f6e653c2f653e3c756c3e393c2f756c3e3c736c3e7a7a3c2f736c3e3c736c3e7a3c2f736c3e3c756c3e313c2f756c3e3c756c3e333c2f756c3e3c733e613c2f733e3c753e783c2f753e3c2f633e3c736c6c20786d6c6e733d2275726e3a61223e73323c2f736c6c3e3c6c20786d6c6e733d2275726e3a61223e3c6b313e623c2f6b313e3c6b323e333c2f6b323e3c2f6c3e3c746f7020786d6c6e733d2275726e3a612220786d6c6e733a613d2275726e3a612220613a6e6f74653d226e74223e6d3c2f746f703e3c74756c20786d6c6e733d2275726e3a61223e6d3c2f74756c3e3c6b6c20786d6c6e733d2275726e3a61223e3c613e323c2f613e3c2f6b6c3e3c626320786d6c6e733d2275726e3a62223e3c626c3e623c2f626c3e3c626c6c3e343c2f626c6c3e3c626c6c3e323c2f626c6c3e3c2f62633e3c736c6c20786d6c6e733d2275726e3a61223e73313c2f736c6c3e3c736c6c20786d6c6e733d2275726e3a61223e73323c2f736c6c3e3c6b6c20786d6c6e733d2275726e3a61223e3c613e313c2f613e3c2f6b6c3e3c6b6c20786d6c6e733d2275726e3a61223e3c613e323c2f613e3c2f6b6c3e3c74756c20786d6c6e733d2275726e3a61223e703c2f74756c3e3c74756c20786d6c6e733d2275726e3a61223e6e3c2f74756c3e', '1'], ['diff', '0', '1', '0', '4'], ['rev', '4', '5'], ['print', '5.2', 'j', '65']]),
            ("dup-to-ctx-store-fail-double-free",
             [P("0", '<tp %s xmlns:a="urn:a"><uip>/a:tp/a:ipk[a:a=\'10.0.0.9%%k\'][a:p=\'10.3.0.0/16\']/a:x</uip></tp>' % A, 0, _P_ONLY),
              ["dup", "0.0", "~", _DUP_REC, 1, "b", "1"]]),
            ("print-json-single-list-instance-open-array",
             [P("1", '<l %s><k1>a</k1><v>v1</v></l><l %s><k1>b</k1><v>v1</v></l><ul2 %s><k>d</k></ul2><l %s><k1>a</k1><v>v1</v></l>' % (A, A, A, A), 2,
                _P_ONLY | _P_OPAQ), ["print", "2.2", "j", 4]]),
            ("merge-destruct-cb-fail-frees-target",
             [P("0", '<top %s>t</top>' % A, 0, _P_ONLY), P("0", '<tul %s>n</tul><tul %s>m</tul>' % (A, A), 1, _P_ONLY),
              ["merge", 0, 1, _MERGE_DESTRUCT, "m", 1, "~"]]),
            ("parse-multi-error-syntax-leak", [P("0", '<l %s><k1>c<k1><k2>3</k2></l>' % A, 0, _P_ONLY, _V_MULTI)]),
            ("parse-multi-error-bad-meta-assert", [P("0", '<top %s %s yang:operation="bogus">t</top>' % (A, Y), 0, _P_ONLY, _V_MULTI)]),
            ("out-not-null:parsep",
             [P("0", '<c %s><s>a</s></c>' % A, 0, _P_ONLY), ["parsep", "0.0", "x", _P_ONLY, 0, h('<i8 %s>4</i8><i8>5</i8>' % A)]]),
            ("parse-parent-nothing-parsed-implicit-leak",
             [P("0", '<c %s><s>a</s></c>' % A, 0, _P_ONLY), ["parsep", "0.0", "x", 0, 0, h('<top %s>1</top>' % A)]]),
            ("log-location-unbalanced:path",
             [P("0", '<top %s>t</top>' % A, 0, _P_ONLY), ["path", "0.0", "~", h("/a:l[k9='a'][k2='1']"), "~", 0]]),
            ("insert-multi-node-stale-first-src",
             [P("0", two, 0, _P_ONLY), P("0", '<l %s><k1>d</k1><k2>3</k2></l><c %s><i8>1</i8></c>' % (A, A), 1, _P_ONLY), ["ins", "s", "0.0", "1.0"]]),
            ("any-update-keeps-caller-buffer:path",
             [P("0", '<c %s><ax>t</ax></c>' % A, 0, _P_ONLY), ["path", "0.0", "~", h("/a:c/ax"), h("uu"), _NEW_PATH_UPDATE]]),
            ("new-path-nested-parent-toplevel-misplaced",
             [P("0", '<l %s><k1>c</k1><k2>1</k2></l>' % A, 0, _P_ONLY), ["path", "0.1", "~", h("/a:c/p/man"), h("m"), 0]]),
            ("new-path-nonfirst-parent-toplevel-misplaced",
             [P("0", '<tul %s>n</tul><tul %s>m</tul>' % (A, A), 0, _P_ONLY), ["path", "0.1", "~", h("/a:top"), h("t"), 0]]),
            ("insert-sibling-first-of-own-list-assert",
             [P("0", '<c %s><ol><k>y</k></ol><ol><k>z</k></ol></c>' % A, 0, _P_ONLY), ["ins", "s", "0.3", "0.1"]]),
            ("validate-first-node-autodel-uaf", [P("0", '<c %s><zz/></c><c %s><sl>x</sl></c>' % (A, A), 0)]),
            ("xml-anyxml-mixed-content-assert", [P("0", '<c %s><ax>t<b/></ax></c>' % A, 0, _P_ONLY)]),
            ("insert-opaque-anchor-no-schema-check",
             [P("0", '<c %s><i8></i8><sl>x</sl></c>' % A, 0, _P_ONLY | _P_OPAQ), ["term", "~", "a0", h("sll"), h("s2"), 0, 1], ["ins", "b", "0.2", "1.0"]]),
            ("insert-multi-node-lyds-merge-assert",
             [P("0", '<l %s><k1>b</k1><k2>1</k2><v>v1</v></l><ul2 %s><k>b</k></ul2>' % (A, A), 0, _P_ONLY),
              P("0", '<l %s><k1>a</k1><k2>1</k2><v>v3</v></l><l %s><k1>b</k1><k2>3</k2></l>' % (A, A), 1, _P_ONLY), ["ins", "s", "0.0", "1.0"]]),
        ]
        return [(t, _own_line(c)) for t, c in K]

    def fixed(self):
        P = self.parse
        base = ('<l %s><k1>a</k1><k2>1</k2><v>v1</v></l><l %s><k1>b</k1><k2>2</k2></l><c %s><i8>11</i8><s>abc</s><lr>a</lr><w>w</w>'
                '<sl>x</sl><sl>y</sl><ul>1</ul><ul>2</ul><ul>3</ul><ad><x/></ad><ca1>1</ca1><p><man>m</man></p><ol><k>x</k><v>1</v></ol>'
                '<ol><k>y</k></ol></c><ul2 %s><k>a</k></ul2><ul2 %s><k>b</k></ul2><tul %s>m</tul><tul %s>n</tul><top %s>t</top>'
                % ((_NSA,) * 8))
        other = ('<c %s><i8>5</i8><sl>z</sl><ul>3</ul><ul>1</ul><ol><k>y</k></ol><ol><k>x</k></ol><cb1>3</cb1></c><ul2 %s><k>b</k></ul2>'
                 '<ul2 %s><k>c</k></ul2><ul2 %s><k>a</k></ul2><tul %s>n</tul><tul %s>o</tul><bc %s><bl>b</bl></bc>'
                 % ((_NSA,) * 6 + (_NSB,)))
        st = '<kl %s><a>1</a></kl><kl %s><a>2</a></kl><sll %s>s1</sll><sll %s>s1</sll>' % ((_NSA,) * 4)
        B = [P("0", base, 0, _P_ONLY), P("0", other, 1, _P_ONLY), P("1", base, 2, _P_ONLY), P("0", st, 3, _P_ONLY)]
        L = []

        def case(*cmds, setup=B):
            L.append(_own_line(list(setup) + list(cmds)))

        h = _hx
        # creation calls with bad arguments
        case(["term", "0.3", "~", h("i8"), h("999"), 0, 5], ["term", "0.3", "~", h("nope"), h("1"), 0, 5], ["term", "~", "~", h("top"), h("x"), 0, 5],
             ["term", "0.3", "a1", h("s"), h("abc"), 0, 5], ["term", "~", "a0", h("top"), h("x"), 0, 5], ["term", "0.3", "~", h("s"), h("UP"), 0, 5],
             ["term", "0.3", "~", h("e"), h("four"), 0, 5], ["term", "0.3", "~", h("u"), h("toolong"), 0, 5], ["term", "0.3", "~", h("idr"), h("a:zz"), 0, 5])
        case(["inner", "~", "a0", h("nope"), 0, 5], ["inner", "~", "a0", h("l"), 0, 5], ["inner", "0.0", "~", h("c"), 0, 5], ["inner", "~", "~", h("c"), 0, 5],
             ["list", "~", "a0", h("l"), h("a"), h("300"), 0, 5], ["list", "~", "a0", h("c"), h("a"), h("1"), 0, 5],
             ["list2", "~", "a0", h("l"), h("[k1='a']"), 0, 5], ["list2", "~", "a0", h("l"), h("[k1='a'][k2='x']"), 0, 5],
             ["list2", "~", "a0", h("l"), h("[k1='a'"), 0, 5], ["list2", "~", "a0", h("l"), h("[k1='a'][k2='1'][k1='b']"), 0, 5],
             ["list2", "~", "a0", h("l"), h("[k1='a'][k2='1']"), 0, 5])
        # anydata / anyxml: value variants; consumed tree only on success
        case(["any", "0.3", "~", h("ad"), "t", 1, _NEW_ANY_USE, 5], ["any", "0.3", "~", h("nope"), "t", 3, _NEW_ANY_USE, 5],
             ["any", "0.3", "a1", h("ad"), "t", 3, _NEW_ANY_USE, 5], ["any", "0.3", "~", h("ax"), "t", 3, 0, 5],
             ["any", "0.3", "~", h("ad"), "x", h("<x"), _NEW_ANY_USE, 5], ["any", "0.3", "~", h("ad"), "j", h('{"a:top":'), _NEW_ANY_USE, 5],
             ["any", "0.3", "~", h("ad"), "s", h("plain"), _NEW_ANY_USE, 5], ["any", "0.3", "~", h("ax"), "s", h("plain"), _NEW_ANY_USE, 5],
             ["any", "0.3", "~", h("ax"), "x", h("<x"), _NEW_ANY_USE, 5], ["any", "0.3", "~", h("nope"), "s", h("plain"), _NEW_ANY_USE, 5],
             ["any", "~", "a0", h("ad"), "s", h("<x/>"), 0, 5])
        case(["opaq", "~", "~", h("oq"), h("v"), "~", h("a"), 5], ["opaq", "~", "0", h("oq"), h("v"), h("p"), h("a"), 5],
             ["opaq2", "~", "0", h("oq"), h("v"), "~", h("urn:q"), 5], ["attr", "5.0", h("a"), h("a:at"), h("v")], ["attr", "0.0", "~", h("at"), h("v")],
             ["meta", "5.0", "~", "a0", h("note"), h("n"), 0], ["meta", "0.0", "~", "a0", h("note"), h(""), 0], ["meta", "0.0", "~", "a0", h("nope"), h("x"), 0],
             ["meta", "0.0", "~", "~", h("note"), h("x"), 0], ["meta", "0.0", "1", "a0", h("note"), h("x"), 0], ["meta", "0.0", "~", "a0", h("note"), h("ok"), 0],
             ["meta", "0.0", "~", "a0", h("num"), h("x"), 0], ["chgmeta", "0.0", 0, h("")], ["chgmeta", "0.0", 0, h("toolongnote")], ["chgmeta", "0.0", 0, h("ok2")])
        for i in range(0, len(_OWN_PATHS_BAD), 9):
            case(*[["path", "0.0", "~", h(p), h(v), o] for p, v in _OWN_PATHS_BAD[i:i + 9] for o in (0, _NEW_PATH_UPDATE, _NEW_PATH_OPAQ)])
        case(*[["path", "5.0", rng_ctx, h(p), h(v), 0] for p, v in _OWN_PATHS_BAD[:12] for rng_ctx in ("0",)])
        case(["path", "0.0", "1", h("/a:top"), h("x"), 0], ["path", "0.0", "~", h("/a:top"), h("t"), 0], ["path", "0.0", "~", h("/a:top"), h("t"), _NEW_PATH_UPDATE],
             ["path", "0.0", "~", h("/a:top"), h("u"), _NEW_PATH_UPDATE], ["path", "0.0", "~", h("/a:c/i8"), h("999"), _NEW_PATH_UPDATE],
             ["path", "0.0", "~", h("/a:c/i8"), h("999"), _NEW_PATH_OPAQ], ["path", "0.0", "~", h("/a:l"), "~", _NEW_PATH_OPAQ],
             ["path", "0.0", "~", h("/a:l[k1='n'][k2='9']/in/x"), h("deep"), 0], ["path", "0.0", "~", h("/a:l[k1='n'][k2='8']/in/nope"), h("deep"), 0])
        # insertion into wrong places: must fail, must not consume nor unlink
        for how in "csba":
            case(["ins", how, "0.0", "0.9"], ["ins", how, "0.3", "1.0"], ["ins", how, "0.5", "1.1"], ["ins", how, "0.3", "2.3"], ["ins", how, "2.0", "0.3"],
                 ["ins", how, "0.4", "1.2"], ["ins", how, "3.0", "1.2"], ["ins", how, "0.14", "1.3"], ["ins", how, "0.12", "1.3"], ["ins", how, "1.3", "0.12"],
                 ["ins", how, "0.9", "1.2"], ["ins", how, "0.10", "1.2"], ["ins", how, "0.9", "0.12"], ["ins", how, "1.12", "0.30"], ["ins", how, "0.30", "1.14"])
        # frees of subtrees; unlink
        case(["freen", "0.9"], ["freen", "0.3"], ["freesib", "0.9"], ["freen", "0.0"], ["freesib", "1.1"], ["unlink", "1.0", 5], ["freesib", "5.0"],
             ["freesib", "1.0"], ["unlink", "2.9", 5], ["free", 5], ["free", 4])
        case(["chg", "0.8", h("999")], ["chg", "0.8", h("11")], ["chg", "0.8", h("12")], ["chg", "0.9", h("UP")], ["chg", "0.9", h("abc")],
             ["chg", "0.10", h("nope")], ["chg", "0.14", h("300")], ["chg", "0.14", h("2")], ["chg", "0.14", h("9")], ["chg", "0.7", h("x")])
        # dup with bad options / parents
        case(["dup", "0.0", "~", _DUP_PARENTS, 5, "s", "~"], ["dup", "0.9", "~", _DUP_PARENTS | _DUP_REC, 5, "s", "~"], ["dup", "0.9", "1.0", _DUP_REC, 5, "s", "~"],
             ["dup", "0.9", "0.0", _DUP_REC, 5, "s", "~"], ["dup", "0.9", "2.7", _DUP_REC, 5, "s", "~"], ["dup", "0.9", "3.0", _DUP_PARENTS, 5, "s", "~"],
             ["dup", "0.9", "1.0", _DUP_PARENTS, 5, "b", "~"], ["dup", "0.0", "~", 0xffffffff, 5, "b", "~"], ["dup", "0.0", "~", _DUP_REC, 5, "b", "1"],
             ["dup", "0.9", "2.7", _DUP_REC, 5, "s", "1"], ["dup", "0.9", "2.7", _DUP_REC, 5, "s", "0"], ["dup", "3.0", "~", _DUP_REC, 5, "b", "1"],
             ["dup", "0.2", "1.0", 0, 5, "s", "~"], ["dup", "0.9", "0.1", 0, 5, "b", "~"])
        # merge: destruct on success and on failure, other context, nested source/target
        for opts in (0, _MERGE_DESTRUCT):
            for how in "ts":
                case(["merge", 0, 1, opts, how], ["merge", 0, 3, opts, how])
                case(["merge", 0, 2, opts, how])
                case(["merge", 2, 1, opts, how])
                case(["unlink", "1.1", 5], ["merge", 0, 5, opts, how])
                case(["unlink", "0.9", 5], ["merge", 5, 1, opts, how])
                case(["merge", 4, 1, opts, how], ["merge", 4, 0, opts, how])
        # temporaries: lyd_value_validate / lyd_value_compare for every type family - valid, invalid when stored, and well-formed
        # but unresolvable (fails in the validate step only with a context node) - without a context node, with one in a tree that
        # holds the target and with one in a tree that does not; with and without the optional outputs
        tydoc = ('<ty %s xmlns:a="urn:a"><ii>/a:top</ii><lrt>t</lrt><ulr>t</ulr><uii>none</uii><bn>YQ==</bn><dc>1.5</dc><bt>b0</bt><bo>true</bo><em/>'
                 '<idl>a:id1</idl><lrn>x</lrn><iin>/a:tul[.=\'none\']</iin></ty><top %s>t</top><tul %s>m</tul><l %s><k1>a</k1><k2>1</k2></l>'
                 '<c %s><i8>11</i8><lr>a</lr><s>abc</s><e>one</e><u>x</u><idr xmlns:a="urn:a">a:id1</idr><ul>1</ul></c>' % ((_NSA,) * 5))
        VB = [P("0", tydoc, 0, _P_ONLY), P("0", '<c %s><s>abc</s></c>' % _NSA, 1, _P_ONLY), P("1", tydoc, 2, _P_ONLY)]
        for sp, (ok, ko, unres) in _OWN_VALS.items():
            cmds = []
            for v in ok + ko + unres:
                for cn in ("~", "0.0", "1.1", "2.0"):
                    for ctx, fl in (("0", 3), ("~", 0), ("0", 1)):
                        cmds.append(["vval", cn, ctx, h(sp), h(v), fl])
            case(*cmds, setup=VB)
        allv = sorted({v for ok, ko, unres in _OWN_VALS.values() for v in ok + ko + unres})
        for i in range(0, 22, 3):
            case(*[["vcmp", "0.%d" % j, h(v)] for j in (i, i + 1, i + 2) for v in allv], setup=VB)
        case(*[[cmd, "0.%d" % i, x] for i in range(22) for cmd, x in (("chgbin", h("abc")), ("chgbin", h("ABCDEFGH")), ("chgcanon", "0.%d" % i),
                                                                      ("chgcanon", "2.%d" % i), ("chg", h("c17-none")), ("chg", h("/a:tul[.='zz']")))],
             setup=VB)
        # chains: after freeing element k of a chain of n metadata / attributes exactly the other n-1 remain, in order (single),
        # or the first k (with the following ones); k = every position, n = 1..4; the same through unlink / free of siblings
        metas = [("a0", "note", "n1"), ("a0", "num", "2"), ("a0", "note", "n3"), ("y0", "operation", "none")]
        for n in range(1, 5):
            for k in range(n):
                for how in "sa":
                    mk = [["meta", "0.0", "~", mod, h(nm), h(v), 0] for mod, nm, v in metas[:n]]
                    case(*mk, ["freemeta", "0.0", k, how], ["dupmeta", "0.0", 0, "1.0"], ["freemeta", "0.0", 0, "a"],
                         setup=[P("0", '<top %s>t</top>' % _NSA, 0, _P_ONLY), P("0", '<top %s>u</top>' % _NSA, 1, _P_ONLY)])
                    at = [["attr", "0.0", h("a") if i % 2 else "~", h("at%d" % i), h("v%d" % i)] for i in range(n)]
                    case(["opaq2", "~", "0", h("oq"), h("v"), "~", h("urn:q"), 0], *at, ["freeattr", "0.0", k, how], ["freeattr", "0.0", 0, how],
                         ["freeattr", "0.0", 0, "a"], setup=[])
                sib = "".join('<tul %s>%s</tul>' % (_NSA, v) for v in "mnop"[:n])
                case(["freen", "0.%d" % k], ["freen", "0.0"], setup=[P("0", sib, 0, _P_ONLY)])
                case(["unlink", "0.%d" % k, 1], ["free", 1], ["freesib", "0.0"], setup=[P("0", sib, 0, _P_ONLY)])
        case(["dupmeta", "0.0", 0, "2.0"], ["dupmeta", "0.0", 1, "1.0"], ["chgmeta", "0.0", 0, h("toolongnote")], ["chgmeta", "0.0", 1, h("x")],
             ["chgmeta", "0.0", 0, h("ok")], ["freemeta", "0.0", 1, "s"],
             setup=[P("0", '<top %s xmlns:a="urn:a" a:note="n" a:num="3">t</top>' % _NSA, 0, _P_ONLY), P("0", '<top %s>u</top>' % _NSA, 1, _P_ONLY),
                    P("1", '<top %s>w</top>' % _NSA, 2, _P_ONLY)])
        # anydata / anyxml values of every value type: string representation, copy to another node, free only
        anys = [["any", "0.0", "~", h("ad"), "s", h("str"), 0, 4], ["any", "0.0", "~", h("ax"), "x", h("<q><r/></q>"), 0, 4],
                ["any", "0.0", "~", h("ad"), "j", h('{"a:top":"in"}'), 0, 4], ["any", "0.0", "~", h("ad"), "t", 1, 0, 4]]
        for a in anys:
            case(a, ["anystr", "0.1"], ["anystr", "2.1"], ["anycopy", "2.1", "0.1"], ["anystr", "2.1"], ["anycopy", "0.1", "2.1"], ["anycopy", "0.1", "~"],
                 ["anystr", "0.1"], ["anycopy", "2.1", "~"], ["anycopy", "2.1", "0.1"],
                 setup=[P("0", '<c %s/>' % _NSA, 0, _P_ONLY), P("0", '<top %s>in</top>' % _NSA, 1, _P_ONLY),
                        P("0", '<c %s><ad><x/></ad></c>' % _NSA, 2, _P_ONLY)])
        # per-type dup / free balance: every type whose values own something (zones, prefixes, bit arrays, buffers, compiled paths
        # and expressions, identities, fractions) with every optional part present, duplicated through every path that copies
        # values (lyd_dup_single with and without recursion / parents / other context, lyd_dup_meta_single, diff, merge, apply,
        # anydata data trees, lyd_any_copy_value, lyd_change_term_canon to the same value) and freed in both orders
        TP0, TP1 = _own_tp_doc(0), _own_tp_doc(1)
        TB = [P("0", TP0, 0, _P_ONLY), P("0", TP1, 1, _P_ONLY), P("1", TP0, 2, _P_ONLY), P("0", '<c %s/>' % _NSA, 3, _P_ONLY)]
        ntp = len(_OWN_TP) + 9
        for first in (0, 5):
            case(["dup", "0.0", "~", _DUP_REC, 5, "b", "~"], ["free", first], ["print", "%d.0" % (5 - first), "x", 1], ["free", 5 - first],
                 ["dup", "1.0", "~", _DUP_REC, 4, "b", "1"], ["free", 1 if first else 4], ["free", 4 if first else 1], ["dup", "2.0", "~", _DUP_REC, 6, "b", "0"],
                 ["free", 2 if first else 6], ["free", 6 if first else 2], setup=TB)
        for i0 in range(1, ntp, 6):
            cmds = []
            for i in range(i0, min(i0 + 6, ntp)):
                cmds += [["dup", "0.%d" % i, "~", 0, 5, "s", "~"], ["free", 5], ["dup", "0.%d" % i, "~", _DUP_REC | _DUP_PARENTS, 5, "s", "~"], ["chgcanon", "0.%d" % i, "5.1"],
                         ["free", 5], ["dup", "0.%d" % i, "~", _DUP_PARENTS, 5, "s", "1"], ["vcmp", "0.%d" % i, h("x")], ["chgcanon", "0.%d" % i, "0.%d" % i], ["free", 5]]
            case(*cmds, setup=TB)
            case(*cmds, ["free", 0], setup=TB)
        for order in ((0, 1, 4, 5), (5, 4, 1, 0), (4, 0, 5, 1)):
            case(["diff", 0, 1, 0, 4], ["dup", "0.0", "~", _DUP_REC, 5, "b", "~"], ["apply", 5, 4], ["rev", 4, 6], ["apply", 5, 6], ["dmerge", 4, 6, 0],
                 ["merge", 5, 1, 0, "s"], ["merge", 5, 0, 0, "s"], *[["free", k] for k in order], ["free", 6], setup=TB)
            case(["dup", "0.0", "~", _DUP_REC, 5, "b", "~"], ["merge", 0, 5, _MERGE_DESTRUCT, "s"], ["merge", 0, 1, 0, "m", 0, "~"], ["merge", 1, 0, _MERGE_DESTRUCT, "s"],
                 *[["free", k] for k in order], setup=TB)
        for i in range(3):
            case(["dupmeta", "0.%d" % (ntp + 4), i, "3.0"], ["dupmeta", "0.%d" % (ntp + 4), i, "1.1"], ["freemeta", "3.0", 0, "s"], ["chgmeta", "0.%d" % (ntp + 4), i, h("10.0.0.5%m")],
                 ["chgmeta", "0.%d" % (ntp + 4), i, h("/a:top | //a:c")], ["free", 0], ["freemeta", "1.1", 0, "a"], setup=TB)
        case(["any", "3.0", "~", h("ad"), "t", 0, 0, 4], ["anycopy", "3.1", "3.1"], ["dup", "3.0", "~", _DUP_REC, 5, "b", "~"], ["anycopy", "5.1", "3.1"], ["anycopy", "3.1", "5.1"],
             ["path", "3.0", "~", h("/a:c/ad"), "-", _NEW_PATH_UPDATE, "t0"], ["path", "3.0", "~", h("/a:c/ad"), "-", _NEW_PATH_UPDATE, "t1"], ["free", 0],
             ["path", "3.0", "~", h("/a:c/ad"), "-", _NEW_PATH_UPDATE, "t1"], ["anystr", "3.1"], ["free", 3], ["free", 5], setup=TB)
        # update-style calls with the SAME value, another value and on missing nodes: lyd_new_path2 with LYD_NEW_PATH_UPDATE on leaf,
        # leaf-list, list, anydata / anyxml (string, XML, JSON, data tree), every /a:tp leaf; lyd_change_term / lyd_change_meta to the
        # same value; merge of identical trees; lyd_any_copy_value of an equal value
        U = _NEW_PATH_UPDATE
        upd = [("/a:c/i8", "11", "12"), ("/a:c/s", "abc", "zz"), ("/a:c/sl[.='x']", None, None), ("/a:c/sl", "x", "q"), ("/a:c/ul", "1", "7"),
               ("/a:l[k1='a'][k2='1']", None, None), ("/a:l[k1='a'][k2='1']/v", "v1", "v2"), ("/a:c/ol[k='x']/v", "1", "2"), ("/a:top", "t", "u"),
               ("/a:c/ax", "text", "other"), ("/a:c/ax", "<q><r/></q>", "<q/>"), ("/a:c/ax", '{"a:top":"v"}', '{"a:top":"w"}'),
               ("/a:c/ad", '<top %s>v</top>' % _NSA, '<top %s>w</top>' % _NSA), ("/a:c/ad", '{"a:top":"v"}', '{"a:top":"w"}'),
               ("/a:c/ad", "<x><y>1</y><y>2</y></x>", "<x><y>1</y></x>")]
        upd += [("/a:tp/" + n_, vs[0], vs[1]) for n_, vs in _OWN_TP]
        for path_, same, other in upd:
            for opts in (U, 0):
                case(["path", "5.0", "0", h(path_), h(same) if same is not None else "~", opts], ["path", "5.0", "~", h(path_), h(same) if same is not None else "~", opts],
                     ["path", "5.0", "~", h(path_), h(same) if same is not None else "~", opts], ["path", "5.0", "~", h(path_), h(other) if other is not None else "~", opts],
                     ["path", "5.0", "~", h(path_), h(other) if other is not None else "~", opts], ["path", "5.0", "~", h(path_), h(same) if same is not None else "~", opts],
                     ["path", "0.0", "~", h(path_), h(same) if same is not None else "~", opts], ["path", "0.0", "~", h(path_), h(same) if same is not None else "~", opts],
                     ["path", "1.0", "~", h(path_), h(other) if other is not None else "~", opts], setup=TB[:2] + [B[0]])
        for tslot in (0, 1):
            case(["path", "3.0", "~", h("/a:c/ad"), "-", U, "t%d" % tslot], ["path", "3.0", "~", h("/a:c/ad"), "-", U, "t%d" % tslot],
                 ["path", "3.0", "~", h("/a:c/ad"), "-", U, "t%d" % (1 - tslot)], ["path", "3.0", "~", h("/a:c/ad"), "-", U, "t%d" % (1 - tslot)],
                 ["path", "3.0", "~", h("/a:c/ad"), "-", 0, "t0"], ["path", "3.0", "~", h("/a:c/ax"), "-", U, "t0"], ["path", "3.0", "~", h("/a:c/ax"), "-", U, "t0"], setup=TB)
        for i in range(1, ntp + 8, 5):
            case(*[[cmd, "0.%d" % j, x] for j in range(i, i + 5) for cmd, x in (("chgcanon", "0.%d" % j), ("chgcanon", "2.%d" % j), ("chgcanon", "1.%d" % j),
                                                                               ("chgcanon", "0.%d" % j))], setup=TB)
        case(["dup", "0.0", "~", _DUP_REC, 5, "b", "~"], ["merge", 0, 5, 0, "s"], ["merge", 0, 5, _MERGE_DEFAULTS | _MERGE_FLAGS, "t"], ["merge", 5, 0, _MERGE_DESTRUCT, "s"],
             ["dup", "5.0", "~", _DUP_REC, 6, "b", "~"], ["merge", 6, 5, _MERGE_DESTRUCT, "m", 0, "a0"], setup=TB)
        case(["dup", "0.0", "~", _DUP_REC, 5, "b", "~"], ["merge", 0, 5, 0, "s"], ["merge", 5, 0, _MERGE_DESTRUCT, "t"], setup=[B[0]])
        # values re-resolved at validation time: unions with leafref (to identityref, xpath, instance-identifier, bits, binary, ip-address,
        # another leafref), instance-identifier and identityref members, stored with LYD_PARSE_ONLY from XML / JSON / LYB and validated with
        # the targets present, absent and changed between store and validation (the member type changes), plus LYB round trips
        for fmt in "xj":
            for tsel, usel in ((0, 0), (0, 1), (1, 0), (None, 0), (None, 1)):
                doc = _own_union_doc(tsel, usel, fmt)
                chg_t = [["path", "0.0", "~", h("/a:tp/" + t_), h(vs[1 if tsel == 0 else 0]), U] for t_, vs in _OWN_UTGT.items()]
                chg_u = [["path", "0.0", "~", h("/a:tp/" + u_), h(_OWN_UTGT[t_][1 - usel]), U] for u_, t_ in _OWN_UNI.items()]
                for vo in (0, _V_MULTI):
                    case(["lybrt", 0, 1, _P_ONLY, 0], ["lybrt", 0, 2, 0, vo], ["val", 1, "~", vo, 0, 5], ["lybrt", 1, 3, 0, vo], ["lybrt", 1, 4, _P_ONLY, 0],
                         ["val", 0, "~", vo, 1, 5], ["lybrt", 0, 2, 0, vo], *chg_t, ["val", 0, "~", vo, 0, 5], ["lybrt", 0, 3, 0, vo], ["val", 4, "~", vo, 1, 5],
                         *chg_u, ["val", 0, "~", vo, 0, 5], ["lybrt", 0, 2, _P_ONLY, 0], ["val", 2, "~", vo, 0, 5], ["dup", "0.0", "~", _DUP_REC, 6, "b", "~"],
                         ["merge", 6, 1, 0, "s"], ["val", 6, "~", vo, 0, 5], ["free", 0], ["lybrt", 6, 0, 0, vo],
                         setup=[P("0", doc, 0, _P_ONLY, 0, fmt)])
                case(["lybrt", 0, 1, 0, 0], ["lybrt", 1, 2, _P_ONLY, 0], ["diff", 0, 1, 0, 4], ["val", 2, "~", 0, 0, 5], ["lybrt", 2, 3, 0, _V_PRESENT],
                     setup=[P("0", doc, 0, 0, 0, fmt)])
        # callbacks that fail at every position: lyd_merge_module (with and without DESTRUCT: the source is spent on failure
        # too, or untouched), lyd_diff_apply_module, lyd_diff_merge_module
        for opts in (0, _MERGE_DESTRUCT, _MERGE_DESTRUCT | _MERGE_DEFAULTS):
            for kfail in range(0, 14):
                case(["merge", 0, 1, opts, "m", kfail, "~"])
                case(["merge", 1, 0, opts, "m", kfail, "a0"])
            for kfail in (1, 2, 3):
                case(["merge", 5, 0, opts, "m", kfail, "~"], ["merge", 5, 1, opts, "m", kfail, "b0"])
        for kfail in range(0, 12):
            case(["diff", 0, 1, 0, 4], ["apply", 0, 4, kfail], ["apply", 0, 4, 0])
            case(["diff", 0, 1, 1, 4], ["diff", 1, 3, 0, 5], ["dmerge", 4, 5, 0, kfail], ["dmerge", 4, 5, 0, 0], ["apply", 0, 4, kfail])
        # data parser: malformed documents
        bads = [base[:40], base[:-5], base.replace("<k2>1</k2>", "<k2>x</k2>"), base.replace("<k2>1</k2>", ""), base + '<zz %s/>' % _NSA,
                base + base, base.replace("<s>abc</s>", "<s>ABC</s>"), base.replace("<lr>a</lr>", "<lr>zz</lr>"), base.replace("<man>m</man>", ""),
                base.replace("<ca1>1</ca1>", "<ca1>1</ca1><cb1>3</cb1>"), base.replace("<i8>11</i8>", "<i8>1</i8>"),
                base.replace("<i8>11</i8>", "<i8>1</i8><m>60</m>"), base.replace("<ul>2</ul>", "<ul>1</ul>"), "<c %s><zz/></c>" % _NSA, "<zz/>", "&", "<c %s>" % _NSA]
        for po in (0, _P_STRICT, _P_OPAQ, _P_ONLY, _P_ONLY | _P_STRICT, _P_ONLY | _P_OPAQ):
            case(*[P("0", d, 5, po) for d in bads], setup=[])
        case(*[P("0", d, 5, po, 0, "j") for d, ok in _OWN_JSON for po in (0, _P_ONLY | _P_OPAQ, _P_STRICT)], setup=[])
        case(*[["parsep", "0.3", "x", po, 0, h(d)] for d in ("<i8 %s>400</i8>" % _NSA, "<zz %s/>" % _NSA, "<sl %s>q</sl><i8 %s>x</i8>" % (_NSA, _NSA),
                                                               "<ol %s><k>n</k></ol><ol %s><v>1</v></ol>" % (_NSA, _NSA), "<ul %s>7</ul" % _NSA)
               for po in (_P_ONLY, _P_ONLY | _P_STRICT, 0)])
        case(*[["parseop", "0", "x", ty, h(d), 5] for ty, d, ok in _OWN_OPS_XML], setup=[])
        case(*[["parseop", "0", "j", ty, h(d), 5] for ty, d, ok in _OWN_OPS_JSON], setup=[])
        case(["parseop", "0", "x", "r", h('<r %s><x>1</x></r>' % _NSB), 4],
             *[["parseop", "0", "x", "y", h(d.replace(">", " " + _NSB + ">", 1) if d else d), 5, "4.0"] for d, ok in _OWN_REPLY_XML])
        # diff: apply on a target that does not match; user-ordered create with a missing / unmatched anchor
        case(["diff", 0, 1, 0, 4], ["apply", 1, 4], ["apply", 3, 4], ["apply", 5, 4], ["rev", 4, 5], ["apply", 0, 5], ["dmerge", 4, 5, 0], ["dmerge", 5, 4, 0],
             ["apply", 0, 4], ["apply", 0, 4])
        case(["diff", 1, 0, 1, 4], ["free", 1], ["apply", 1, 4], ["diff", 0, 2, 0, 5])
        ops = [('<ul2 %s %s yang:operation="create"><k>z</k></ul2>', "nometa-list"), ('<ul2 %s %s yang:operation="create" yang:key="[k=\'nope\']"><k>z</k></ul2>', "anchor-list"),
               ('<tul %s %s yang:operation="create">z</tul>', "nometa-leaflist"), ('<tul %s %s yang:operation="create" yang:value="nope">z</tul>', "anchor-leaflist"),
               ('<c %s %s yang:operation="none"><ol yang:operation="create"><k>q</k></ol></c>', "nometa-nested"),
               ('<c %s %s yang:operation="none"><ol yang:operation="create" yang:key="[k=\'nope\']"><k>q</k></ol></c>', "anchor-nested"),
               ('<c %s %s yang:operation="none"><ul yang:operation="create">8</ul></c>', "nometa-nested-ll"),
               ('<c %s %s yang:operation="none"><ul yang:operation="create" yang:value="77">8</ul></c>', "anchor-nested-ll"),
               ('<kl %s %s yang:operation="create"><a>q</a></kl>', "nometa-keyless"), ('<kl %s %s yang:operation="create" yang:position="7"><a>q</a></kl>', "anchor-keyless"),
               ('<sll %s %s yang:operation="create">q</sll>', "nometa-state-ll"), ('<sll %s %s yang:operation="create" yang:position="x">q</sll>', "anchor-state-ll"),
               ('<ul2 %s %s yang:operation="replace"><k>a</k></ul2>', "nometa-move"), ('<ul2 %s %s yang:operation="replace" yang:key="[k=\'nope\']"><k>a</k></ul2>', "anchor-move"),
               ('<ul2 %s %s yang:operation="create" yang:key=""><k>z</k><v yang:operation="bogus">1</v></ul2>', "bad-op-child"),
               ('<ul2 %s %s><k>z</k></ul2>', "no-op"), ('<top %s %s yang:operation="replace" yang:orig-value="zz" yang:orig-default="false">new</top>', "replace"),
               ('<top %s %s yang:operation="delete">zz</top><l %s yang:operation="delete"><k1>q</k1><k2>9</k2></l>', "delete-missing")]
        for d, nm in ops:
            d = d % ((_NSA, _NSY) + ((_NSA + " " + _NSY,) if d.count("%s") == 3 else ()))
            case(P("0", d, 4, _P_ONLY), ["apply", 0, 4], ["apply", 3, 4], ["apply", 5, 4], ["rev", 4, 5], ["dmerge", 4, 5, 0], ["diff", 0, 1, 0, 6], ["dmerge", 6, 4, 0],
                 ["dmerge", 4, 6, 1])
        # the same anchors taken from a generated diff applied to a tree that lost the anchor instance
        case(["diff", 0, 1, 0, 4], ["freen", "0.28"], ["freen", "0.27"], ["freen", "0.20"], ["apply", 0, 4])
        # validation failures with and without the diff output
        inval = [base.replace("<man>m</man>", ""), base.replace("<i8>11</i8>", "<i8>1</i8>"), base.replace("<lr>a</lr>", "<lr>zz</lr>"),
                 base.replace("<ca1>1</ca1>", "<ca1>1</ca1><cb1>3</cb1>"), base.replace("<w>w</w>", "<w>w</w><m>60</m>"), base + '<l %s><k1>c</k1><k2>3</k2><v>v1</v></l>' % _NSA,
                 base.replace("<ul>2</ul>", "<ul>1</ul>"), base + st]
        for d in inval:
            case(P("0", d, 0, _P_ONLY | _P_WHEN_TRUE), ["val", 0, "~", 0, 1, 4], ["val", 0, "~", _V_MULTI, 0, 4], ["val", 0, "1", 0, 1, 4], ["valmod", 0, "a0", _V_NOSTATE, 1, 4],
                 ["valmod", 0, "a1", 0, 1, 4], ["valmod", 0, "b0", 0, 1, 4], ["val", 0, "~", _V_PRESENT | _V_NOSTATE, 1, 4], ["impl", 0, "~", 0, 1, 4], ["impl", 0, "1", 0, 1, 4],
                 ["val", 5, "~", 0, 1, 4], ["val", 5, "0", 0, 1, 4], ["impl", 5, "0", 0, 1, 4], setup=[])
        case(["parseop", "0", "x", "r", h('<r %s><y>zz</y></r>' % _NSB), 4], ["valop", "4.0", "~", "r", 1, 5], ["valop", "4.0", 0, "r", 1, 5], ["valop", "4.0", 0, "y", 1, 5],
             ["valop", "4.0", 0, "n", 1, 5], ["valop", "0.0", "~", "r", 1, 5], ["valop", "4.0", 2, "r", 1, 5])
        case(*[[c, "0.%d" % i, h(e)] for e in _OWN_XPATH_BAD for c, i in (("xfind", 0), ("xeval", 3))])
        case(*[["print", "0.%d" % i, f, o] for f in "xjb" for o in (0, 1, 0x41, 0x81) for i in (0, 3)], ["print", "5.0", "x", 0])
        # failing module loads into the live contexts while data exist
        for i in range(0, len(_OWN_MODS_BAD), 8):
            case(*[["lys", c, h(m)] for m in _OWN_MODS_BAD[i:i + 8] for c in "01"], ["val", 0, "~", _V_PRESENT, 0, 5], ["dup", "0.0", "~", _DUP_REC, 5, "b", "~"])
        case(["lys", "0", h(_OWN_MODS_OK[0])], ["lys", "0", h(_OWN_MOD_V1_BROKEN_REV)], ["lys", "0", h(_OWN_MODS_OK[0])], ["lys", "1", h(_OWN_MODS_OK[1])],
             ["lys", "0", h(_OWN_MODS_BAD[3])], ["val", 0, "~", 0, 0, 5], ["path", "0.0", "~", h("/v1:vc/x"), h("1"), 0], ["path", "0.0", "~", h("/v1:vc/x"), h("999"), _NEW_PATH_UPDATE])
        return L

    def gen(self, rng, tier, scale=1.0):
        L = [l for _, l in self.known()] + self.fixed()
        dg = _OwnDoc(rng)
        for _ in range(self.n(tier, 700, 28000, scale)):
            cmds = []
            nslots = rng.choice([2, 3, 3, 4])
            for s in range(nslots):
                inv = rng.random() < 0.15
                ctx = "1" if rng.random() < 0.12 else "0"
                cmds.append(self.parse(ctx, dg.doc(invalid=inv, bad=0.2 if inv else 0.0), s, rng.choice([_P_ONLY, _P_ONLY, 0, _P_ONLY | _P_OPAQ]),
                                       rng.choice([0, 0, _V_PRESENT])))
            if rng.random() < 0.5:
                cmds.append(["diff", 0, 1, rng.choice([0, 1]), 4])
            for _ in range(rng.choice([6, 10, 14, 20, 30])):
                cmds.append(self.rand_cmd(rng, dg))
            L.append(_own_line(cmds))
        return L

    # ---- verdict ----------------------------------------------------------------------------------------------------
    END = _re.compile(r"end:d(-?\d+),(-?\d+)/(-?\d+),(-?\d+):w(\d+):k(\d+)(?:@(-?\d+):([a-z0-9]+)(?:~([a-z0-9-]*))?)?:l(\d+)(?::n(\d+))?$")
    FLAG = _re.compile(r"(OUT|CHG|UNREL|LINK|TFREED|FREED|NC|REST|DICT|CTX|NOTFIRST|LOGLOC|ANYPTR)!")
    FLAGTAG = {"OUT": "out-not-null", "CHG": "input-changed", "UNREL": "unrelated-changed", "LINK": "link-broken", "FREED": "input-freed",
               "NC": "not-consumed", "REST": "free-changed-rest", "DICT": "dict-changed-by-failed-load", "CTX": "context-broken-by-load",
               "NOTFIRST": "not-first-sibling", "LOGLOC": "log-location-unbalanced", "ANYPTR": "any-update-keeps-caller-buffer",
               "TFREED": "merge-destruct-cb-fail-frees-target"}

    # crash signatures (stderr of the crashed case) -> tag; the first that matches
    CRASHES = [
        (r"heap-use-after-free(?s:.*?)lyplg_type_free_union(?s:.*?)lyd_dup_r", "dup", "dup-to-ctx-store-fail-double-free"),
        (r"json_print_data.*Assertion `!pctx.open.count'", "print", "print-json-single-list-instance-open-array"),
        (r"lydxml_subtree_r.*Assertion `xmlctx->status == LYXML_ELEM_CONTENT'", "parse", "parse-multi-error-bad-meta-assert"),
        (r"heap-use-after-free(?s:.*?)in lyd_mod_next_module", None, "validate-first-node-autodel-uaf"),
        (r"lyd_insert_after_node.*Assertion `!node->next && \(node->prev == node\) && \(sibling != node\)'", "ins",
         "insert-sibling-first-of-own-list-assert"),
        (r"lydxml_subtree_r.*Assertion `xmlctx->status == LYXML_ELEM_CLOSE'", "parse", "xml-anyxml-mixed-content-assert"),
        (r"(rb_sort_clb.*Assertion `val1->realtype == val2->realtype'|rb_compare_lists.*Assertion `n2->schema->nodetype & LYS_LIST')",
         "ins", "insert-multi-node-lyds-merge-assert"),
    ]

    @staticmethod
    def cmd_of(line, idx):
        """words of command idx of a case line"""
        f = line.split("\t")[1:]
        return f[idx].split(" ") if 0 <= idx < len(f) else []

    def judge(self, line, out):
        if out.startswith("CRASH(") or out == "TIMEOUT":
            err = getattr(self, "last_err", "") or ""
            m = _re.search(r"OWNCMD (-?\d+) (\S+)", err)
            cmd = m.group(2) if m else None
            for rx, c, tag in self.CRASHES:
                if (c is None or c == cmd or (cmd or "").startswith(c)) and _re.search(rx, err):
                    w_ = self.cmd_of(line, int(m.group(1))) if m else []
                    if tag == "xml-anyxml-mixed-content-assert" and len(w_) > 4 and w_[3].isdigit() and w_[4].isdigit() and \
                            (int(w_[3]) & 0x40000) and (int(w_[4]) & _V_MULTI):
                        # same assertion, other cause: an opaque node with an invalid child in multi-error mode
                        tag = "parse-multi-error-opaq-child-assert"
                    return (tag, "%s in command %s (%s)" % (out, m.group(1) if m else "?", cmd))
            kind = "hang" if out in ("CRASH(-14)", "TIMEOUT") else "crash"
            return ("%s:%s" % (kind, cmd) if cmd else kind, "%s %s" % (out, ("in command %s (%s)" % (m.group(1), cmd)) if m else ""))
        parts = out.split(" | ")
        if out.startswith("SETUP-FAILED"):
            return (None, out)
        m = self.END.search(parts[-1])
        if not m:
            return (None, "malformed driver answer: " + out[-200:])
        for i, p in enumerate(parts[:-1]):
            f = self.FLAG.search(p)
            if f:
                cmd, _, rest = p.partition(":")
                rcs = _re.match(r"-?\d+|-|\?", rest)
                tag = "%s:%s" % (self.FLAGTAG[f.group(1)], cmd.rstrip("1"))
                if f.group(1) == "TFREED":
                    tag = "merge-destruct-cb-fail-frees-target"
                elif f.group(1) == "NC" and rcs and rcs.group(0) == "3":
                    tag = "merge-destruct-einval-source-not-consumed"
                elif f.group(1) == "LINK" and "schema parent" in p and cmd.startswith("path"):
                    tag = "new-path-nested-parent-toplevel-misplaced"
                elif f.group(1) == "LINK" and "not contiguous" in p and cmd.startswith("path"):
                    tag = "new-path-nonfirst-parent-toplevel-misplaced"
                elif f.group(1) == "LINK" and cmd == "ins" and "schema parent" in p:
                    tag = "insert-opaque-anchor-no-schema-check"
                elif f.group(1) == "LINK" and cmd == "ins":
                    tag = "insert-multi-node-stale-first-src"
                return (tag, "command %d %s" % (i, p))
            if p.endswith(":?"):
                return (None, "generator produced a malformed command %d: %s" % (i, p))
        du0, dr0, du1, dr1, w, k, kidx, kcmd, kerr, lsan, nfound = m.groups()
        if nfound and nfound != "0":
            return ("dict-not-found", "%s 'Value ... was not found in the dictionary' error(s): a reference was released that nobody "
                                      "held or that belonged to another holder; %s" % (nfound, parts[-1]))
        if int(k):
            tag = "leak:%s" % kcmd + ("~" + kerr if kerr else "")
            w_ = self.cmd_of(line, int(kidx))
            if kcmd == "apply" and kerr == "failed-to-find-metadata-for-node":
                tag = "diff-apply-userord-create-nometa-leak"
            elif kcmd in ("parse", "parsep") and kerr and len(w_) > 4 and w_[4].isdigit() and int(w_[4]) & _V_MULTI:
                tag = "parse-multi-error-syntax-leak"
            elif kcmd == "parsep" and not kerr:
                tag = "parse-parent-nothing-parsed-implicit-leak"
            elif kcmd == "print" and kerr and kerr.startswith("internal-error") and "printer-json" in kerr:
                tag = "print-json-fail-open-set-leak"
            return (tag, "%s block(s) allocated from command %s (%s) on are never freed; %s" % (k, kidx, kcmd, parts[-1]))
        if (du0, dr0, du1, dr1) != ("0", "0", "0", "0"):
            return ("dict-delta", "dictionary strings/references left after everything was freed: " + parts[-1])
        if w != "0":
            return ("not-freed-warning", parts[-1])
        if lsan == "1":
            return ("lsan-leak", parts[-1])
        return None


class OwnDelta(Comp):
    """the dictionary accounting of the ownership catalogue scripts (impl/t_own.c) vs the prediction of the ownership model Own.v:
    every script is projected onto the model's store / dup / temporary operations (ocaml/run_ht.ml), the model predicts the
    dictionary delta and the number of released-but-not-held references after everything the caller holds is freed (0 and 0,
    theorem C17_own_script_delta_zero); the driver reports what the library left (dictionary strings and references of both
    contexts, not-freed warnings, not-found errors)"""
    name = "own-delta"
    driver = "t_own"
    slice = "ht"
    sanitize = False

    def gen(self, rng, tier, scale=1.0):
        o = Ownership()
        return [l for _, l in o.known()] + o.fixed()

    def norm(self, line, out):
        m = Ownership.END.search(out)
        if not m:
            return out
        du0, dr0, du1, dr1, w, k, kidx, kcmd, kerr, lsan, nfound = m.groups()
        return "d%d:e%d" % (sum(abs(int(x)) for x in (du0, dr0, du1, dr1)), int(w) + int(nfound or 0))

    def witness(self, line, model_out, impl_out):
        j = Ownership().judge(line, impl_out)
        if j:
            return j
        return ("own-delta", "the library left %s in the dictionary accounting, the ownership model predicts %s" % (self.norm(line, impl_out), model_out))
