"""C06 - apply(diff(A,B), A) = B"""
from props import comps_difftree, comps_uord, oracles

PID = "C06"
LEVEL = "proof"


def components():
    return [comps_uord.UDiff(), comps_uord.KDiff(), comps_uord.UApply(), comps_difftree.DiffTree("C06")]


def oracles_():
    return [comps_difftree.KeepStream(), comps_uord.UordForwardOracle(), oracles.DiffFwd(), oracles.DiffUordFwd(), comps_difftree.DiffTreeLaws("C06"), comps_difftree.FixedRegress("C06"), comps_difftree.DiffKinds("C06")]


MANIFEST = {
    "text": "LIST level (Properties_C06_uord.v; model DiffUserOrd of ONE user-ordered leaf-list): for all duplicate-free instance "
            "lists l1, l2 the operation list of libyang's two-pass diff, applied with the anchor-based insertion, yields l2 in "
            "content and order (C06_userord_moves_correct) with *data at the first sibling (C06_userord_first_sibling); every "
            "generated move has second_pos <= first_pos, so the uint32_t memmove length does not wrap (C06_userord_memmove_safe), "
            "all array indices are in range (C06_userord_trace_safe); diff(l,l) is empty for any list "
            "(C06_userord_diff_self_empty); Example C06_userord_example. Tie (T2, driver t_uord): extracted model vs "
            "lyd_diff_siblings / lyd_diff_apply_all on the same lists - leaf-list (udiff, exhaustive for small lists), keyed list "
            "(kdiff), hand-built diffs with any operation order or missing anchors (uapply). TREE level, everything that is not "
            "user-ordered (Properties_C06_difftree.v, closed under the global context). Hypothesis wfb (executable, evaluated on "
            "every generated case): only the modelled kinds - no anydata, no user-ordered or duplicate-instance node, no metadata "
            "-, inner nodes without value, a non-presence container carries the default flag iff all its children do, keys present "
            "and leading, children under their schema parent, siblings in canonical order with unique identities. "
            "C06_diff_self_empty (for every wfb A diff(A,A) = [] with and without LYD_DIFF_DEFAULTS); C06_apply_diff_exact (for "
            "every schema and wfb A, B - leaves, containers, choices / cases, system-ordered lists and leaf-lists, any depth - diff "
            "with LYD_DIFF_DEFAULTS succeeds and apply(diff(A,B),A) = B exactly: values, order, default flags incl. those of "
            "non-presence containers); C06_apply_canon (the result is wfb / canonical again); C06_apply_any_order (every diff whose "
            "nodes describe the change identity by identity, DiffTreeP.LevelSp / Sp, yields B whatever its sibling order); "
            "C06_apply_diff_nodflt_partial (WITHOUT LYD_DIFF_DEFAULTS, under the extra hypothesis that A and B hold no default "
            "node: exact; with default nodes the law - the explicit nodes of the result are those of B - has no proof and is "
            "evaluated by the model on every generated case); Example C06_example. Tie (T2 dtree-C06, driver lyx): the extracted "
            "model of lyd_diff_siblings / lyd_diff_apply_all gets the dumps of generated triples (leaves with own and with typedef "
            "defaults) and must print the same diff trees (operation explicit or inherited, orig-value, orig-default, default flag, "
            "sibling order) and the same patched trees as libyang, with and without the option. ORACLE level only (implementation "
            "alone): diff / diff-uord (generated trees incl. user-ordered, state and key-less lists: diff(A,A) empty, apply = B "
            "exactly with the option and after re-validation without it, inputs untouched, *data first sibling, LYB print / parse "
            "of the diff), uord-forward, difftree-laws-C06 (dump equality on the T2 triples), difftree-kinds-C06 (driver t_c14x: "
            "anydata / anyxml values of every representation changing in every combination, metadata on created / deleted / "
            "replaced / unchanged nodes, opaque nodes; diff(A,A) empty, apply(diff(A,B),A) = B also after printing and parsing the "
            "diff as XML, JSON, LYB; what libyang does not carry is computed exactly per case), difftree-regress-C06 (regression "
            "cases of fixed findings). Known findings these oracles attribute (status known): diff-ignores-metadata, "
            "diff-ignores-opaque, uord-dflt-anchor-nodefaults, uord-empty-anchor, uord-key-both-quotes, dupinst-position, "
            "dupinst-dflt-flag, dflt-orphan-after-delete. Fixed in libyang, a recurrence is a violation: diff-apply-npcont-dflt "
            "e962a64, diff-apply-replace-npcont-dflt 2926251, diff-apply-move-dflt f83bc0b, diff-apply-move-already-first a481aab, "
            "uord-move-nested-dupinst and uord-move-state-subtree 99529e5, uord-diff-first-moved 7390bdf, json-leaflist-meta-order "
            "85059b4.",
    "note": "Modelled, not verified: the Coq models are hand transcriptions of the C code, tied to it only by T2 on generated "
            "inputs. List level: lyd_diff_userord_attrs, the user-ordered part of lyd_diff_siblings_r / lyd_diff_add, "
            "lyd_diff_insert, lyd_diff_apply_r for one list (values stand for instances; keyed lists and hand-built diffs are T2 "
            "only). Tree level (slice difftree): lyd_diff_siblings_r, lyd_diff_attrs, lyd_diff_find_match, lyd_diff_add (operation "
            "placement, sibling order incl. the lyds tree of duplicated parents), lyd_diff_apply_r with the lyd_np_cont_dflt_set / "
            "_del walks, lyd_change_term, lyd_insert_node, on dumps (node, value bytes, default flag, order). Outside the tree "
            "model, oracle only: user-ordered and duplicate-instance lists inside trees, anydata / anyxml, metadata, opaque nodes, "
            "printing / parsing of diffs, re-validation after a diff without the defaults option, several modules. Outside "
            "everything: diff callbacks, lyd_diff_tree / _module entry points other than the _siblings / _all ones, extension data.",
    "technique": "Coq proof (list-level diff/apply invariant) + differential correspondence + API metamorphic oracle",
}
