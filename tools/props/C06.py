"""C06 - apply(diff(A,B), A) = B"""
from props import comps_uord, oracles

PID = "C06"
LEVEL = "proof"


def components():
    return [comps_uord.UDiff(), comps_uord.KDiff(), comps_uord.UApply()]


def oracles_():
    return [comps_uord.UordForwardOracle(), oracles.DiffFwd(), oracles.DiffUordFwd()]


MANIFEST = {
    "text": "Coq theorems (Properties_C06_uord.v): for every pair of duplicate-free user-ordered leaf-lists the operation list "
            "libyang's two-pass diff produces, applied with libyang's anchor-based insertion, yields the second list "
            "(userord_moves_correct), *data stays the first sibling, every generated move satisfies first_pos >= second_pos (the "
            "memmove precondition) and diff(l,l) is empty. Tie: extracted model vs lyd_diff_siblings/lyd_diff_apply_all on the same "
            "lists (T2, exhaustive for small lists). Tree-level laws (any depth, defaults, case switches, purity, print/parse of "
            "the diff) are checked by the API oracle on generated tree pairs (search).",
    "note": "Modelled C: lyd_diff_userord_attrs, the user-ordered part of lyd_diff_siblings_r/lyd_diff_add, lyd_diff_insert, "
            "lyd_diff_apply_r for one list. The general tree diff is not modelled in Coq yet; it is covered by the oracle only.",
    "technique": "Coq proof (list-level diff/apply invariant) + differential correspondence + API metamorphic oracle",
}
