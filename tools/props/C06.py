"""C06 - apply(diff(A,B), A) = B"""
from props import comps_difftree, comps_uord, oracles

PID = "C06"
LEVEL = "proof"


def components():
    return [comps_uord.UDiff(), comps_uord.KDiff(), comps_uord.UApply(), comps_difftree.DiffTree("C06")]


def oracles_():
    return [comps_difftree.KeepStream(), comps_uord.UordForwardOracle(), oracles.DiffFwd(), oracles.DiffUordFwd(), comps_difftree.DiffTreeLaws("C06"), comps_difftree.FixedRegress("C06"), comps_difftree.DiffKinds("C06")]


MANIFEST = {
    "text": "Coq theorems (Properties_C06_uord.v): for every pair of duplicate-free user-ordered leaf-lists the operation list "
            "libyang's two-pass diff produces, applied with libyang's anchor-based insertion, yields the second list "
            "(userord_moves_correct), *data stays the first sibling, every generated move satisfies first_pos >= second_pos (the "
            "memmove precondition) and diff(l,l) is empty. Tie: extracted model vs lyd_diff_siblings/lyd_diff_apply_all on the same "
            "lists (T2, exhaustive for small lists). Tree-level laws (any depth, defaults, case switches, purity, print/parse of "
            "the diff) are checked by the API oracle on generated tree pairs (search). "
            "TREE level, everything that is not user-ordered (Properties_C06_difftree.v, closed): C06_diff_self_empty (diff(A,A) empty, "
            "both options), C06_apply_diff_exact (for all well-formed A,B - leaves, containers, choices/cases, system-ordered lists and "
            "leaf-lists at any depth - apply(diff(A,B),A) with LYD_DIFF_DEFAULTS succeeds and equals B exactly, default flags of "
            "non-presence containers included), C06_apply_canon, C06_apply_any_order (the meaning of a diff does not depend on the order "
            "of its siblings), C06_apply_diff_nodflt_partial (without the defaults option: exact on trees without default nodes). Tie: the extracted model of lyd_diff_siblings/lyd_diff_apply_all gets the dumps of generated triples "
            "A,B,C and must print the same diff trees (operation explicit or inherited, orig-value, orig-default, default flag, sibling "
            "order) and the same patched trees as libyang, with and without the defaults option (T2 dtree-C06); the well-formedness "
            "hypothesis wfb and the law without defaults (explicit nodes of apply(diff(A,B),A) equal those of B) are evaluated on every "
            "generated case. Node kinds outside the model (oracle difftree-kinds-C06, driver t_c14x, judged on dumps that show the value type and content of anydata / anyxml values, metadata and opaque nodes): trees with anydata / anyxml values of every representation (data tree, XML / JSON / plain string, empty string, no value) changing between A and B in every combination at any depth and inside list instances, metadata on created / deleted / replaced / unchanged nodes, opaque nodes in A and / or B: diff(A,A) empty, apply(diff(A,B),A) = B, the same after printing and parsing the diff (XML, JSON, LYB); what libyang does not carry (metadata, opaque nodes) is computed exactly per case and reported as known findings, everything else must be exact.",
    "note": "Modelled C: lyd_diff_userord_attrs, the user-ordered part of lyd_diff_siblings_r/lyd_diff_add, lyd_diff_insert, "
            "lyd_diff_apply_r for one list. Tree level (slice difftree): lyd_diff_siblings_r, lyd_diff_attrs, lyd_diff_find_match, "
            "lyd_diff_add (operation placement, sibling order incl. the lyds red-black tree of duplicated parents), lyd_diff_apply_r "
            "with the lyd_np_cont_dflt_set/_del walks, lyd_change_term, lyd_insert_node; user-ordered / duplicate-instance lists, "
            "anydata, metadata and opaque nodes are outside the tree model (oracle only). Without the defaults option the law is the "
            "executable check per case (no general proof); re-validation is covered by the API oracle.",
    "technique": "Coq proof (list-level diff/apply invariant) + differential correspondence + API metamorphic oracle",
}
