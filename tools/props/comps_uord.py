"""comps_uord.py - correspondence components of slice uord (coq/DiffUserOrd.v vs src/diff.c through
impl/t_uord.c): diff / apply / reverse of one user-ordered leaf-list (udiff), of a keyed user-ordered
list (kdiff) and application of hand-built diffs (uapply).

Result line of udiff/kdiff:  <ops> | <applied> | <reversed ops> | <reverse-applied>
(see impl/t_uord.c for the item syntax)."""
import itertools

from props.comps import Comp


def csv(l):
    return ",".join(str(x) for x in l) if l else "-"


def dupfree_lists(n):
    """all duplicate-free lists over 1..n (all orders of all subsets)"""
    out = []
    for k in range(n + 1):
        out += [list(p) for p in itertools.permutations(range(1, n + 1), k)]
    return out


def edit(rng, a, universe):
    """B = random edit of the duplicate-free list a: deletions, insertions of fresh values, moves"""
    b = list(a)
    kind = rng.random()
    # deletions
    if kind < 0.5 and b:
        for _ in range(rng.choice([0, 0, 1, 1, 2, 3, len(b)])):
            if b:
                b.pop(rng.randrange(len(b)))
    # moves
    m = rng.choice([0, 1, 1, 2, 3, 5])
    for _ in range(m):
        if len(b) > 1:
            i = rng.randrange(len(b))
            x = b.pop(i)
            j = rng.choice([0, len(b), rng.randrange(len(b) + 1), max(0, i - 1), min(len(b), i + 1)])
            b.insert(j, x)
    r = rng.random()
    if r < 0.08:
        b.reverse()
    elif r < 0.16 and b:
        k = rng.randrange(len(b))
        b = b[k:] + b[:k]
    elif r < 0.2:
        rng.shuffle(b)
    # insertions
    if kind >= 0.3:
        fresh = [v for v in universe if v not in a and v not in b]
        rng.shuffle(fresh)
        for v in fresh[:rng.choice([0, 1, 1, 2, 3, 6])]:
            b.insert(rng.choice([0, len(b), rng.randrange(len(b) + 1)]), v)
    return b


def rand_pair(rng, maxlen=30):
    n = rng.choice([0, 1, 2, 3, 4, 5, 6, 8, 12, 20, maxlen])
    universe = list(range(1, n + 12))
    if rng.random() < 0.1:
        universe = [v * 429496729 % 4294967296 for v in universe]      # large uint32 values
        universe = list(dict.fromkeys(universe))
    a = rng.sample(universe, min(n, len(universe)))
    r = rng.random()
    if r < 0.8:
        b = edit(rng, a, universe)
    elif r < 0.9:
        # creates only: a is a subsequence of b
        b = list(a)
        for v in [v for v in universe if v not in a][:rng.randrange(0, 6)]:
            b.insert(rng.randrange(len(b) + 1), v)
    else:
        # independent list
        b = rng.sample(universe, rng.randrange(0, min(len(universe), maxlen) + 1))
    if rng.random() < 0.3:
        a, b = b, a
    return a, b


def pair_cases(comp, name, rng, tier, scale, small, big, nbig, nrand):
    L = []
    ls = dupfree_lists(small)
    for a in ls:
        for b in ls:
            L.append("%s\t%s\t%s" % (name, csv(a), csv(b)))
    if nbig:
        lb = dupfree_lists(big)
        for _ in range(int(nbig * scale)):
            L.append("%s\t%s\t%s" % (name, csv(rng.choice(lb)), csv(rng.choice(lb))))
    for _ in range(int(nrand * scale)):
        a, b = rand_pair(rng)
        L.append("%s\t%s\t%s" % (name, csv(a), csv(b)))
    return L


class UDiff(Comp):
    """lyd_diff_siblings + lyd_diff_apply_all + lyd_diff_reverse_all on a user-ordered leaf-list vs
    DiffUserOrd.userord_diff / apply_ops_full / reverse_ops"""
    name = "udiff"
    driver = "t_uord"
    slice = "uord"

    def gen(self, rng, tier, scale=1.0):
        if tier == "thorough":
            return pair_cases(self, self.name, rng, tier, scale, 5, 6, 60000, 60000)
        return pair_cases(self, self.name, rng, tier, scale, 4, 6, 600, 1200)

    def witness(self, line, model_out, impl_out):
        f = line.split("\t")
        a, b = f[1], f[2]
        io = impl_out.split(" | ")
        mo = model_out.split(" | ")
        if len(io) != 4:
            return (None, "no result from the implementation (%s) for A=%s B=%s" % (impl_out[:60], a, b))
        if io[1] != b:
            return (None, "apply(diff(A,B),A) = %s, expected B; A=%s B=%s diff=%s" % (io[1], a, b, io[0]))
        if io[3] != a:
            same = len(mo) == 4 and mo[3] == io[3]
            return ("uord-reverse" if same else None,
                    "apply(reverse(diff(A,B)),B) = %s, expected A; A=%s B=%s reversed diff=%s" % (io[3], a, b, io[2]))
        return None


class KDiff(UDiff):
    """the same for the keyed user-ordered list u:k (anchors are key predicates)"""
    name = "kdiff"

    def gen(self, rng, tier, scale=1.0):
        if tier == "thorough":
            return pair_cases(self, self.name, rng, tier, scale, 4, 6, 20000, 20000)
        return pair_cases(self, self.name, rng, tier, scale, 3, 5, 300, 500)


class UApply(Comp):
    """lyd_diff_apply_all of hand-built diffs (any operation order, missing anchors, absent metadata,
    moved first instance followed by deletes) vs DiffUserOrd.apply_ops_full"""
    name = "uapply"
    driver = "t_uord"
    slice = "uord"

    def gen(self, rng, tier, scale=1.0):
        L = []

        def meta(cands):
            r = rng.random()
            if r < 0.03:
                return "~"
            if r < 0.2:
                return "-"
            return str(rng.choice(cands))

        for _ in range(self.n(tier, 2500, 150000, scale)):
            n = rng.choice([0, 1, 2, 3, 3, 4, 5, 7])
            l = rng.sample(range(1, 10), n)
            cur = list(l)           # rough idea of the content, only used to pick plausible values
            ops = []
            for _ in range(rng.choice([1, 1, 2, 3, 4, 6])):
                k = rng.choice("cdrr")
                absent = [v for v in range(1, 20) if v not in cur]
                if k == "c":
                    # a value that is not present (creating a present value makes a duplicate instance:
                    # outside the model's domain)
                    x = rng.choice(absent)
                    ops.append("c:%d:%s:%s" % (x, meta(cur or [1]), meta(cur or [1])))
                    cur.append(x)
                else:
                    x = rng.choice(cur) if cur and rng.random() < 0.96 else rng.choice(absent)
                    others = [v for v in cur if v != x or rng.random() < 0.05] or [1]
                    ops.append("%s:%d:%s:%s" % (k, x, meta(others + (absent[:1] if rng.random() < 0.05 else [])),
                                                meta(cur or [1])))
                    if k == "d" and x in cur:
                        cur.remove(x)
            L.append("uapply\t%s\t%s" % (csv(l), " ".join(ops)))
        return L


def _ops_kinds(ops):
    return [o.split(":")[0] for o in ops.split(" ")] if ops != "-" else []


class UordForwardOracle:
    """C06 on the implementation alone: lyd_diff_apply_all(copy of A, lyd_diff_siblings(A,B)) gives B with
    *data at the first sibling, inputs untouched, and diff(A,A) is empty"""
    name = "uord-forward"
    driver = "t_uord"
    comp = "udiff"

    def gen(self, rng, tier, scale=1.0):
        L = pair_cases(self, self.comp, rng, tier, scale, 3, 6, 400 if tier != "thorough" else 40000,
                       800 if tier != "thorough" else 40000)
        return L

    def judge(self, line, out):
        f = line.split("\t")
        a, b = f[1], f[2]
        o = out.split(" | ")
        if len(o) != 4:
            return (None, "no result (%s) for A=%s B=%s" % (out[:60], a, b))
        if o[1] != b:
            return (None, "apply(diff(A,B),A) = %s, expected B; A=%s B=%s diff=%s" % (o[1], a, b, o[0]))
        if a == b and o[0] != "-":
            return (None, "diff(A,A) = %s is not empty; A=%s" % (o[0], a))
        if "!" in o[3]:
            return (None, "an input tree was modified: %s; A=%s B=%s" % (o[3], a, b))
        return None


class UordReverseOracle(UordForwardOracle):
    """C13 on the implementation alone: apply(reverse(diff(A,B)), B) = A. Failures outside the proved fragment
    (C13_reverse_apply_userord_partial: no delete, at most one move) and a stale *data are the known finding
    uord-reverse; a wrong list inside the fragment is a new violation."""
    name = "uord-reverse"

    def judge(self, line, out):
        f = line.split("\t")
        a, b = f[1], f[2]
        o = out.split(" | ")
        if len(o) != 4:
            return (None, "no result (%s) for A=%s B=%s" % (out[:60], a, b))
        got = o[3].split(" ")[0]
        if got == a:
            return None
        kinds = _ops_kinds(o[0])
        detail = "apply(reverse(diff(A,B)),B) = %s, expected A; A=%s B=%s diff=%s reversed=%s" % (got, a, b, o[0], o[2])
        in_fragment = "d" not in kinds and kinds.count("r") <= 1
        if in_fragment and got.split("^")[0] != a:
            return (None, detail)
        return ("uord-reverse", detail)
