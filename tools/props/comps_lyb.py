"""comps_lyb.py - correspondence components of the lyb slice (LybChunk.v, LybHash.v vs impl/t_lyb.c).

Scripts: ops separated by ',' - S (start siblings), E (stop siblings), W<hex> / W- / Wn<count> (lyb_write; Wn = count
bytes of the fixed pattern shared by the driver and the model), for the reader R<count>."""
from props.comps import Comp
import os

from vlib import hexs

MAX = 65535          # LYB_SIZE_MAX of the unchanged tree; only used to aim the generators
META = 4


def pattern(n):
    return bytes(((i * 7 + i // 251 + 1) & 0xff) for i in range(n))


# ------------------------------------------------------------------------------------------------
# script generation
# ------------------------------------------------------------------------------------------------
def boundary_len(rng, big=True):
    """payload length aimed at the chunk boundaries"""
    r = rng.random()
    if r < 0.30:
        return rng.choice([0, 1, 2, 3, 4, 5, 7, 8, 16, 255, 256])
    if r < 0.45:
        return rng.randrange(0, 300)
    k = rng.choice([1, 1, 1, 2, 2, 3, 4]) if big else 1
    return max(0, k * MAX + rng.choice([-6, -5, -4, -3, -2, -1, 0, 0, 1, 2, 3, 4, 5, 6]))


def wop(rng, n):
    if n <= 24 and rng.random() < 0.5:
        b = bytes(rng.randrange(256) for _ in range(n))
        return "W" + (hexs(b) if n else "-")
    return "Wn%d" % n


def random_script(rng, max_depth=6, budget=4 * MAX + 64, max_ops=24, balanced=True):
    """random well-bracketed script; the total payload stays below budget"""
    ops = []
    depth = 0
    left = budget
    nops = rng.randrange(1, max_ops)
    for _ in range(nops):
        r = rng.random()
        if r < 0.30 and depth < max_depth:
            ops.append("S")
            depth += 1
        elif r < 0.50 and depth > 0:
            ops.append("E")
            depth -= 1
        else:
            n = boundary_len(rng)
            if n > left:
                n = rng.randrange(0, 9)
            left -= n
            ops.append(wop(rng, n))
    if balanced:
        ops += ["E"] * depth
    return ops


def boundary_scripts(tier="quick"):
    """hand-picked shapes around the places where the code splits cases"""
    L = []
    lens = [0, 1, MAX - 1, MAX, MAX + 1, 2 * MAX, 2 * MAX + 1]
    if tier == "thorough":
        lens += [MAX - 2, MAX + 2, 2 * MAX - 1, 3 * MAX, 4 * MAX, 4 * MAX + 3]
    for n in lens:
        L.append(["S", "Wn%d" % n, "E"])
        L.append(["S", "S", "Wn%d" % n, "E", "E"])
        L.append(["S", "W01", "S", "Wn%d" % n, "E", "W02", "E"])
        L.append(["Wn%d" % n])
    L.append(["S", "W01", "S", "Wn%d" % (4 * MAX + 3), "E", "W02", "E"])
    # a chunk filled exactly by two writes, by a write and then an empty write, follow-up chunk left empty
    for a in (1, 2, 5, 100):
        L.append(["S", "Wn%d" % (MAX - a), "Wn%d" % a, "E"])
        L.append(["S", "Wn%d" % (MAX - a), "Wn%d" % a, "W-", "E"])
        L.append(["S", "Wn%d" % (MAX - a), "Wn%d" % (a - 1), "W00", "W01", "E"])
        L.append(["S", "Wn%d" % (MAX - a), "Wn%d" % (a + 1), "E"])
    # nested start right before / at / after the boundary of the parent
    for a in (MAX - 5, MAX - 4, MAX - 3, MAX - 1, MAX, MAX + 1, MAX + 4):
        for b in ((0, 1, 3, 4, 5, 6, MAX - 1, MAX, MAX + 1) if tier == "thorough" else (0, 1, 4, 5, MAX)):
            L.append(["S", "Wn%d" % a, "S", "Wn%d" % b, "E", "W07", "E"])
            L.append(["S", "Wn%d" % a, "S", "Wn%d" % b, "S", "E", "E", "E"])
    # parent and child full at the same byte, child full first, parent full first
    L.append(["S", "S", "Wn%d" % MAX, "E", "E"])
    L.append(["S", "S", "S", "S", "S", "S", "Wn%d" % MAX, "E", "E", "E", "E", "E", "E"])
    L.append(["S", "W01", "S", "Wn%d" % (MAX - 1), "W02", "E", "E"])
    L.append(["S", "W01", "S", "W02", "S", "Wn%d" % (MAX - 2), "W03", "W04", "W05", "E", "E", "E"])
    L.append(["S", "Wn%d" % (MAX - 1), "S", "Wn%d" % MAX, "Wn%d" % MAX, "E", "E"])
    # empty siblings
    L.append(["S", "E"])
    L.append(["S", "S", "E", "E"])
    L.append(["S", "S", "E", "S", "E", "S", "S", "E", "E", "E"])
    L.append(["S"] * 6 + ["E"] * 6)
    L.append(["S"] * 6 + ["W2a"] + ["E"] * 6)
    # not well bracketed
    L.append(["S"])
    L.append(["S", "Wn%d" % (MAX + 1)])
    L.append(["S", "S", "Wn%d" % (MAX + 1), "E"])
    L.append(["E"])
    L.append(["S", "E", "E"])
    L.append([])
    return L


# ------------------------------------------------------------------------------------------------
# the writer once more (to make input for the reader component)
# ------------------------------------------------------------------------------------------------
def py_payload(op):
    if op.startswith("Wn"):
        return pattern(int(op[2:]))
    if op == "W-" or op == "W":
        return b""
    return bytes.fromhex(op[1:])


def py_write(ops):
    sibs = []       # outermost first: [written, position, inner]
    out = bytearray()

    def meta(s):
        out[s[1]:s[1] + 2] = (s[0] & 0xffff).to_bytes(2, "little")
        out[s[1] + 2:s[1] + 4] = (s[2] & 0xffff).to_bytes(2, "little")

    for op in ops:
        if op == "S":
            for s in sibs:
                s[2] += 1
            sibs.append([0, len(out), 0])
            out.extend(b"\0" * META)
        elif op == "E":
            if not sibs:
                return None
            meta(sibs[-1])
            sibs.pop()
        else:
            buf = py_payload(op)
            count = len(buf)
            off = 0
            while True:
                to_write = count
                full = None
                for s in sibs:
                    if s[0] + to_write >= MAX:
                        to_write = MAX - s[0]
                        full = s
                if full is None and not count:
                    break
                if to_write:
                    out.extend(buf[off:off + to_write])
                    for s in sibs:
                        s[0] += to_write
                    count -= to_write
                    off += to_write
                if full is not None:
                    meta(full)
                    full[0] = 0
                    full[2] = 0
                    full[1] = len(out)
                    out.extend(b"\0" * META)
                    for s in sibs:
                        if s is full:
                            break
                        s[2] += 1
    return bytes(out)


def shape_of(ops):
    r = []
    for op in ops:
        if op in ("S", "E"):
            r.append(op)
        else:
            r.append("R%d" % len(py_payload(op)))
    return r


# ------------------------------------------------------------------------------------------------
class LybWrite(Comp):
    """lyb_write / lyb_write_start_siblings / lyb_write_stop_siblings vs LybChunk.lyb_run_write (byte-identical output)"""
    name = "lybw"
    driver = "t_lyb"
    slice = "lyb"

    def gen(self, rng, tier, scale=1.0):
        L = ["lybw\t" + ",".join(s) for s in boundary_scripts(tier)]
        for _ in range(self.n(tier, 150, 12000, scale)):
            L.append("lybw\t" + ",".join(random_script(rng, budget=2 * MAX + 64)))
        for _ in range(self.n(tier, 10, 2000, scale)):
            L.append("lybw\t" + ",".join(random_script(rng, budget=4 * MAX + 64, balanced=rng.random() < 0.7)))
        # small payloads only: many ops, deep
        for _ in range(self.n(tier, 300, 20000, scale)):
            ops = random_script(rng, max_depth=8, budget=400, max_ops=40, balanced=rng.random() < 0.8)
            if rng.random() < 0.1:
                ops.insert(rng.randrange(len(ops) + 1), "E")
            L.append("lybw\t" + ",".join(ops))
        rng.shuffle(L)      # spread the long cases over the shards
        return L


class LybRoundTrip(Comp):
    """write, then read the produced bytes back (implementation and model each on their own output);
    witness = the implementation does not get its payloads back"""
    name = "lybrt"
    driver = "t_lyb"
    slice = "lyb"

    def gen(self, rng, tier, scale=1.0):
        L = ["lybrt\t" + ",".join(s) for s in boundary_scripts(tier)]
        for _ in range(self.n(tier, 150, 12000, scale)):
            L.append("lybrt\t" + ",".join(random_script(rng, budget=2 * MAX + 64)))
        for _ in range(self.n(tier, 10, 2000, scale)):
            L.append("lybrt\t" + ",".join(random_script(rng, budget=4 * MAX + 64)))
        for _ in range(self.n(tier, 300, 20000, scale)):
            L.append("lybrt\t" + ",".join(random_script(rng, max_depth=8, budget=400, max_ops=40)))
        rng.shuffle(L)
        return L

    def witness(self, line, model_out, impl_out):
        f = line.split("\t")
        ops = f[1].split(",") if len(f) > 1 and f[1] else []
        depth = 0
        for op in ops:
            if op == "S":
                depth += 1
            elif op == "E":
                depth -= 1
                if depth < 0:
                    return None
        if depth != 0:
            return None
        # well-bracketed script: the property demands that the read-back returns the payloads
        if impl_out.startswith("OK ") or impl_out.startswith("W-E1"):
            return None
        return ("lyb-chunk-roundtrip", "reading back the printer's own chunks: %s" % impl_out[:200])


class LybRead(Comp):
    """lyb_read / lyb_read_start_siblings / lyb_read_stop_siblings vs LybChunk.lyb_run_read on well-formed and
    on damaged chunk streams"""
    name = "lybr"
    driver = "t_lyb"
    slice = "lyb"

    def gen(self, rng, tier, scale=1.0):
        L = []
        scripts = [s for s in boundary_scripts(tier) if sum(len(py_payload(o)) for o in s if o and o[0] == "W") <= 2 * MAX + 8]
        if tier != "thorough":
            scripts = scripts[::2]
        for _ in range(self.n(tier, 60, 6000, scale)):
            scripts.append(random_script(rng, budget=MAX + 600, balanced=rng.random() < 0.9))
        for _ in range(self.n(tier, 400, 20000, scale)):
            scripts.append(random_script(rng, max_depth=6, budget=300, max_ops=30, balanced=rng.random() < 0.9))
        for ops in scripts:
            data = py_write(ops)
            if data is None:
                continue
            sh = shape_of(ops)
            L.append("lybr\t%s\t%s" % (",".join(sh), hexs(data)))
            if len(data) > 3000 and rng.random() < 0.7:
                continue
            for _ in range(3):
                d = bytearray(data)
                s2 = list(sh)
                r = rng.random()
                if r < 0.35 and d:
                    # damage a meta field or a data byte
                    k = rng.randrange(len(d))
                    d[k] = rng.choice([0, 1, 0xff, d[k] ^ 1, d[k] ^ 0x80, rng.randrange(256)])
                elif r < 0.55 and d:
                    d = d[:rng.randrange(len(d))]
                elif r < 0.65:
                    d += bytes(rng.randrange(256) for _ in range(rng.randrange(1, 9)))
                elif r < 0.85 and s2:
                    # the reader asks for other lengths / another nesting than was written
                    k = rng.randrange(len(s2))
                    if s2[k].startswith("R"):
                        s2[k] = "R%d" % max(0, int(s2[k][1:]) + rng.choice([-2, -1, 1, 2, 5, 300]))
                    else:
                        s2[k] = rng.choice(["S", "E", "R1", "R0"])
                else:
                    s2.insert(rng.randrange(len(s2) + 1), rng.choice(["S", "E", "R0", "R1", "R4"]))
                L.append("lybr\t%s\t%s" % (",".join(s2), hexs(bytes(d))))
        rng.shuffle(L)
        return L


# ------------------------------------------------------------------------------------------------
# hashes
# ------------------------------------------------------------------------------------------------
IDCH = "abcdefghijklmnopqrstuvwxyzABCDEFGHIJKLMNOPQRSTUVWXYZ0123456789_-."


def ident(rng, maxlen=10):
    """YANG identifier (not starting with xml)"""
    while True:
        n = rng.randrange(1, maxlen)
        s = rng.choice(IDCH[:52] + "_") + "".join(rng.choice(IDCH) for _ in range(n - 1))
        if not s.lower().startswith("xml"):
            return s


def _mix(h, b):
    if b >= 128:
        b -= 256
    h = (h + b) & 0xffffffff
    h = (h + (h << 10)) & 0xffffffff
    return h ^ (h >> 6)


def _final(h):
    h = (h + (h << 3)) & 0xffffffff
    h ^= h >> 11
    return (h + (h << 15)) & 0xffffffff


def py_hash(mod, name, col):
    """lyb_generate_hash once more, to search for colliding names"""
    h = 0
    for b in mod:
        h = _mix(h, b)
    for b in name:
        h = _mix(h, b)
    if col:
        for b in mod[:min(col, len(mod))]:
            h = _mix(h, b)
    h = _final(h)
    return ((h & (0x7f >> col)) | (0x80 >> col)) & 0xff


def colliding_names(rng, mod, want_ids, tries=4000):
    """names of module mod grouped so that some groups collide on the collision ids 0..want_ids-1"""
    groups = {}
    for i in range(tries):
        nm = "n%d" % i if rng.random() < 0.5 else ident(rng, 6)
        key = tuple(py_hash(mod.encode(), nm.encode(), c) for c in range(want_ids))
        groups.setdefault(key, [])
        if nm not in groups[key]:
            groups[key].append(nm)
    return [g for g in groups.values() if len(g) > 1]


class LybHashGen(Comp):
    """lyb_generate_hash vs LybHash.gen_hash"""
    name = "lybhash"
    driver = "t_lyb"
    slice = "lyb"

    def gen(self, rng, tier, scale=1.0):
        L = []
        for m, nm in ((b"m", b"n29"), (b"m", b"n88"), (b"ietf-interfaces", b"interfaces"), (b"a", b"b")):
            for c in range(0, 12):
                L.append("lybhash\t%s\t%s\t%d" % (hexs(m), hexs(nm), c))
        # every name of the collision corpus on every collision id: the corpus (found with the Python model of the hash) is
        # verified against the library's own lyb_generate_hash and the extracted model in every run
        for mod, depth, names in load_collision_families():
            for nm in names:
                for c in range(8):
                    L.append("lybhash\t%s\t%s\t%d" % (hexs(mod.encode()), hexs(nm.encode()), c))
        for _ in range(self.n(tier, 1500, 60000, scale)):
            if rng.random() < 0.7:
                m = ident(rng, 12).encode()
                nm = ident(rng, 12).encode()
            else:
                # any non-zero bytes, high bytes included (signed char)
                m = bytes(rng.randrange(1, 256) for _ in range(rng.randrange(1, 6)))
                nm = bytes(rng.randrange(1, 256) for _ in range(rng.randrange(1, 6)))
            L.append("lybhash\t%s\t%s\t%d" % (hexs(m), hexs(nm), rng.choice([0, 0, 1, 2, 3, 4, 5, 6, 7, 8, 9, 20, 31])))
        return L


class LybSiblings(Comp):
    """lyb_hash_siblings + lyb_print_schema_hash + lyb_parse_schema_hash on generated sibling sets vs LybHash.sib_roundtrip;
    witness = hashing succeeded and the parser finds another sibling than the one printed"""
    name = "lybsib"
    driver = "t_lyb"
    slice = "lyb"

    def gen(self, rng, tier, scale=1.0):
        L = ["lybsib\tm\tn29,n88", "lybsib\tm\tn88,n29", "lybsib\tm\ta,n29,b,n88,c", "lybsib\tm\ta", "lybsib\tmod\ta,b,c,d,e,f,g,h,i,j"]
        # the corpus of colliding names (depths 1 - 6: the second sibling is printed with depth + 1 hashes; 8: hashing fails):
        # both orders, alone, among other siblings
        for mod, depth, names in load_collision_families():
            L.append("lybsib\t%s\t%s" % (mod, ",".join(names)))
            L.append("lybsib\t%s\t%s" % (mod, ",".join(names[::-1])))
            L.append("lybsib\t%s\t%s" % (mod, ",".join(["a", names[-1], "b", "c", names[0], "d"])))
        # random names: many siblings make collision id 0 collide often (128 values)
        for _ in range(self.n(tier, 60, 3000, scale)):
            mod = ident(rng, 8)
            k = rng.choice([1, 2, 5, 20, 60, 120, 200])
            names = []
            while len(names) < k:
                nm = ident(rng, 8)
                if nm not in names and nm != mod:
                    names.append(nm)
            L.append("lybsib\t%s\t%s" % (mod, ",".join(names)))
        # forced collisions on the first ids
        for _ in range(self.n(tier, 25, 1500, scale)):
            mod = rng.choice(["m", "a", "mm", "abc", ident(rng, 8)])
            want = rng.choice([1, 2, 2, 3, 3, 4])
            groups = colliding_names(rng, mod, want, tries=self.n(tier, 1500, 6000))
            if not groups:
                continue
            rng.shuffle(groups)
            names = []
            for g in groups[:rng.randrange(1, 5)]:
                names += g[:rng.randrange(2, 5)]
            for _ in range(rng.randrange(0, 6)):
                names.append(ident(rng, 6))
            names = [n for i, n in enumerate(names) if n not in names[:i]]
            rng.shuffle(names)
            L.append("lybsib\t%s\t%s" % (mod, ",".join(names)))
        return L

    def witness(self, line, model_out, impl_out):
        if impl_out in ("E", "SCHEMA", "-") or impl_out.startswith("CRASH"):
            return None
        for k, item in enumerate(impl_out.split(" ")):
            if ":" not in item or item.split(":")[1] != str(k):
                return ("lyb-hash-identifies", "sibling %d printed as %s" % (k, item))
        return None


# ------------------------------------------------------------------------------------------------
# sibling names that collide on the first collision ids: corpus/lyb_collisions.txt
# ------------------------------------------------------------------------------------------------
LYB_COLLISIONS = os.path.join(os.path.dirname(os.path.dirname(os.path.dirname(os.path.abspath(__file__)))), "corpus", "lyb_collisions.txt")
COLLISION_MODULES = ["hashcol", "verif-lyb-collision-families", "modab", "m1"]


def collision_depth(mod, a, b):
    """the number of leading collision ids 0, 1, ... on which the hashes of a and b (nodes of module mod) are equal;
    8 = on all of them (LYB_HASH_BITS): the printer cannot tell them apart (finding lyb-hash-collision)"""
    d = 0
    while d < 8 and py_hash(mod.encode(), a.encode(), d) == py_hash(mod.encode(), b.encode(), d):
        d += 1
    return d


def find_collision_families(mod, count=40000, stem="n"):
    """birthday search: names <stem><i> of module mod grouped by their hash sequences; for every depth d = 1..8 a few
    families (2 - 4 names) whose members collide pairwise on exactly the collision ids 0..d-1 (8: on all ids)"""
    m = mod.encode()
    seqs = {}
    for i in range(count):
        nm = "%s%d" % (stem, i)
        seqs[nm] = tuple(py_hash(m, nm.encode(), c) for c in range(8))
    out = {}
    for d in range(8, 0, -1):
        groups = {}
        for nm, sq in seqs.items():
            groups.setdefault(sq[:d], []).append(nm)
        fams = []
        for g in groups.values():
            if len(g) < 2:
                continue
            # members that collide pairwise to exactly depth d
            fam = [g[0]]
            for nm in g[1:]:
                if all(collision_depth(mod, nm, x) == d for x in fam):
                    fam.append(nm)
                if len(fam) == 4:
                    break
            if len(fam) > 1:
                fams.append(fam)
            if len(fams) >= 6:
                break
        if fams:
            out[d] = sorted(fams, key=lambda f: -len(f))[:6]
    return out


def load_collision_families():
    """[(module, depth, [names])] of corpus/lyb_collisions.txt, each family RE-CHECKED against the Python model of the hash
    (the model is tied to lyb_generate_hash by LybHashGen, which also runs every name of the corpus on every collision id:
    a change of the hash function in the library shows as mismatches there and as an error here, not as a silent loss)"""
    fams = []
    for ln in open(LYB_COLLISIONS):
        ln = ln.strip()
        if not ln or ln.startswith("#"):
            continue
        mod, depth, names = ln.split("\t")
        names = names.split(",")
        for i, a in enumerate(names):
            for b in names[i + 1:]:
                if collision_depth(mod, a, b) != int(depth):
                    raise RuntimeError("corpus/lyb_collisions.txt: %s and %s of module %s do not collide to depth %s any more "
                                       "(regenerate: python3 tools/props/comps_lyb.py)" % (a, b, mod, depth))
        fams.append((mod, int(depth), names))
    return fams


def write_collision_corpus():
    with open(LYB_COLLISIONS, "w") as f:
        f.write("# sibling-name families whose LYB schema hashes (lyb_generate_hash: module name, node name, collision id) collide\n"
                "# pairwise on exactly the collision ids 0..depth-1; depth 8 = on every id (the printer fails: lyb-hash-collision).\n"
                "# A module name shorter than the depth adds no new input (lyb.c), so short names reach depth 8 at once.\n"
                "# Found by birthday search over n<i> (tools/props/comps_lyb.py find_collision_families); checked at load time\n"
                "# against the Python model and at run time against the library (LybHashGen, LybSiblings, comps_doc.LybCollisionRT).\n"
                "# module<TAB>depth<TAB>names\n")
        for mod in COLLISION_MODULES:
            for d, fams in sorted(find_collision_families(mod).items()):
                for fam in fams:
                    f.write("%s\t%d\t%s\n" % (mod, d, ",".join(fam)))


if __name__ == "__main__":
    write_collision_corpus()
    print(len(load_collision_families()), "families")
