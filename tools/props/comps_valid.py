"""comps_valid.py - T2 component and oracle of slice `valid` (property C02, coq/RfcValid.v + coq/ValidateImpl.v).

Inputs: generated module (yanggen.SchemaGen, decorated with richer unique statements - several statements, several leafs,
paths through containers and choice/case - and mandatory leafs inside cases) + an instance that is valid by
construction (yanggen.InstGen, confirmed by validenc.py_violations, an independent Python reading of the RFC rules) +
single-rule mutations (one per rule class) whose error class is known by construction.

ValidModel (T2, driver impl/t_valid.c vs extracted model): the tree libyang builds with LYD_PARSE_ONLY is dumped WITH the
    LYD_NEW / LYD_DEFAULT flags and given to the model; lyd_validate_module() on that tree must answer what
    ValidateImpl.impl_validate answers (verdict + error class + RFC 7950 section 15 app-tag), RfcValid.rfc_valid must
    agree with the verdict, its violated rules must be the classes Python expects, and RfcValid.placed must hold. Valid
    instances are then edited through the API (new path, free, change value, move a node to another list entry,
    duplicate + insert) and validated again: the tree now carries old / new / default nodes (auto-deletion, duplicates
    only for new nodes); verdict and class must again be the model's, and rfc_valid of the explicit nodes must agree
    with the verdict (this is what caught the former findings moved-node-dup-unchecked and stale-nested-default-case).
ValidMut (oracle): valid instance and one mutation per rule class (also must / when / leafref, which the Coq models leave
    out) through: XML, JSON, shuffled siblings, parse with validation, parse-only + lyd_validate_module, and
    lyd_new_path construction + validation: every route must give the verdict and class expected by construction."""
import os
import re

import treeenc
import validenc
import vlib
import yanggen
from lyxlib import PARSE_ONLY, PARSE_STRICT, PARSE_NO_STATE, VAL_NO_STATE, VAL_MULTI, NEWPATH_UPDATE
PARSE_NO_NEW = 0x1000000
from props.comps import Comp
from props.oracles import Oracle, crashed, creation_items, gen_case, node_path, quote_pred, walk_paths
from vlib import hexs

APPTAG = {"nomandchoice": "missing-choice", "nomin": "too-few-elements", "nomax": "too-many-elements",
          "nouniq": "data-not-unique", "nomust": "must-violation", "noinst": "instance-required"}
RULE_CLASS = {"t": "type", "k": "nokey", "s": "dup", "u": "dup", "l": "dup", "c": "dupcase", "m": "nomand",
              "h": "nomandchoice", "n": "nomin", "x": "nomax", "q": "nouniq"}
CTX_NO_YANGLIBRARY = 4


def vline(fields, cmds):
    return "valid\t" + "\t".join(list(fields) + [" ".join(str(w) for w in c) for c in cmds])


def vclass(res):
    """class of a t_valid VERDICT ('0' or rc/vecode/apptag/class): '0', the class, or class!<what is wrong>"""
    res = res.split("!")[0] if res.startswith("0") else res
    if res == "0":
        return "0"
    p = res.split("/")
    if len(p) < 4:
        return "bad:" + res
    rc_, vecode, tag, cls = p[0], p[1], p[2], p[3].split("!")[0]
    if "!" in res:
        return cls + "!" + res.split("!", 1)[1]
    if cls == "unknown" and rc_ == "7" and vecode == "4":
        return cls              # a node the schema does not have (e.g. disabled by if-feature): LYVE_REFERENCE
    if rc_ != "7" or vecode != "9":
        return "%s!rc=%s/vecode=%s" % (cls, rc_, vecode)
    if tag != APPTAG.get(cls, "-") and cls not in ("nomust",):
        return "%s!apptag=%s" % (cls, tag)
    return cls


# ------------------------------------------------------------------------------------------------
# modules and valid instances
# ------------------------------------------------------------------------------------------------
def _uniq_candidates(lst):
    """(path text, leaf) of leaves a unique statement of lst may name: direct leaves, leaves in child containers, leaves
    in cases of child choices"""
    out = []
    for c in lst.children:
        if c.kind == "leaf" and c.name not in lst.keys and not isinstance(c.type, yanggen.TEmpty):
            out.append((c.name, c))
        elif c.kind == "container" and c.config:
            for x in c.children:
                if x.kind == "leaf" and not isinstance(x.type, yanggen.TEmpty):
                    out.append(("%s/%s" % (c.name, x.name), x))
        elif c.kind == "choice":
            for cn, cns in c.cases:
                for x in cns:
                    if x.kind == "leaf" and not isinstance(x.type, yanggen.TEmpty):
                        out.append(("%s/%s/%s" % (c.name, cn, x.name), x))
    return out


def decorate(rng, m):
    """richer unique statements and mandatory leaves inside cases (both keep InstGen's instances valid or are repaired
    by valid_instance)"""
    for n in m.all_nodes():
        if n.kind == "list" and n.keys and validenc._cfg(n) and rng.random() < 0.5:
            cands = _uniq_candidates(n)
            if cands:
                us = []
                if len(cands) >= 2 and rng.random() < 0.6:
                    # several statements over different leaves (an entry can be incomplete for one and complete for another)
                    pool = [p for p, _ in cands]
                    rng.shuffle(pool)
                    while pool and len(us) < 3:
                        k = min(len(pool), rng.choice([1, 1, 2]))
                        us.append(pool[:k])
                        pool = pool[k:]
                else:
                    for _ in range(rng.choice([1, 1, 2])):
                        k = min(len(cands), rng.choice([1, 1, 2]))
                        us.append([p for p, _ in rng.sample(cands, k)])
                n.__class__ = validenc.SListU
                n.uniques = us
                n.unique = None
        if n.kind == "choice" and not n.default and rng.random() < 0.4:
            cn, cns = rng.choice(n.cases)
            leaves = [x for x in cns if x.kind == "leaf" and x.default is None and len(cns) > 1]
            if leaves:
                rng.choice(leaves).mandatory = True


def valid_case(rng, **kw):
    kw.setdefault("key_filter", treeenc.key_type_ok)
    kw.setdefault("meta_prob", 0.0)
    for _ in range(60):
        m, ig = gen_case(rng, **kw)
        decorate(rng, m)
        if validenc.supported(m):
            return m, ig
    raise RuntimeError("no supported module generated")


def unique_family(rng):
    """(module, instance) aimed at lyd_validate_unique: ONE list with 2-4 unique statements over few leaves with small
    value domains (paths also through a container, presence or not, and with defaults), 2-6 entries in which every leaf
    is present with probability 0.6 - incomplete earlier / later sets, agreement through defaults, the two-instance and
    the hash-table path. The instance is random: valid or not, the expectation comes from validenc.py_violations."""
    Y = yanggen
    dom = {"a": ["u", "v"], "b": ["1", "2"], "c": ["s", "t"], "d": ["0", "7"], "x": ["g", "h"], "y": ["m", "n"]}
    mk = lambda nm: Y.SLeaf(nm, Y.TInt("int8") if nm in ("b", "d") else Y.TString(),      # noqa: E731
                            default=(dom[nm][0] if rng.random() < 0.3 else None))
    leaves = [mk(nm) for nm in ("a", "b", "c", "d")]
    cont = Y.SContainer("p", [mk("x"), mk("y")], presence=rng.random() < 0.5)
    lst = validenc.SListU("l", ["k"], [Y.SLeaf("k", Y.TString(length=(1, 5)))] + leaves + [cont], userord=rng.random() < 0.3)
    pool = ["a", "b", "c", "d", "p/x", "p/y"]
    rng.shuffle(pool)
    us = []
    while pool and len(us) < rng.choice([2, 2, 3, 4]):
        k = min(len(pool), rng.choice([1, 1, 2]))
        us.append(pool[:k])
        pool = pool[k:]
    lst.uniques = us
    lst.unique = None
    m = Y.Module("m1", [Y.SContainer("top", [lst, Y.SLeaf("z", Y.TString())])])
    ents = []
    for i in range(rng.choice([2, 3, 3, 4, 5, 6])):
        ch = [Y.DNode(lst.children[0], "k%d" % i)]
        for lf in leaves:
            if rng.random() < 0.6:
                ch.append(Y.DNode(lf, rng.choice(dom[lf.name])))
        if rng.random() < 0.6:
            pc = [Y.DNode(x, rng.choice(dom[x.name])) for x in cont.children if rng.random() < 0.6]
            if pc or cont.presence:
                ch.append(Y.DNode(cont, children=pc))
        ents.append(Y.DNode(lst, children=ch))
    return m, [Y.DNode(m.nodes[0], children=ents + [Y.DNode(m.nodes[0].children[1], "z")])]


def add_when_leaves(rng, m):
    """(oracle only) a trailing leaf with a when that is always true at the end of some sibling levels: nodes with a when
    go through the unres set of validation; they come AFTER the nodes that may be invalid"""
    k = [0]

    def leaf():
        k[0] += 1
        return yanggen.SLeaf("wz%d" % k[0], yanggen.TString(), when=("true()", None))
    for n in m.all_nodes():
        if n.kind in ("container", "list") and validenc._cfg(n) and rng.random() < 0.5:
            x = leaf()
            x.parent = n
            x.module = m
            n.children.append(x)
    x = leaf()
    x.module = m
    m.nodes.append(x)


def lexical_variant(rng, t, v):
    """another lexical form of the same value (RFC 7950 9.2.1 / 9.3.1), or v"""
    if isinstance(t, yanggen.TInt) and v.lstrip("-").isdigit():
        if v.startswith("-"):
            return "-0" + v[1:]
        return rng.choice(["+" + v, "0" + v, "+0" + v])
    if isinstance(t, yanggen.TDec64) and "." in v:
        return v + "0" if not v.startswith("-") else v + "00"
    return v


def history_case(rng, m, ig, f):
    """a validated valid tree to which ONE node is added through lyd_new_term / lyd_new_list2 (no look for an existing
    instance): a second instance of a leaf, an equal leaf-list value (also in another lexical form), a list entry with
    the keys of an existing one - or a fresh value / entry as control; then lyd_validate_all and lyd_validate_module. The
    verdict must be the one of the final content parsed in one step (expectation: the Python reading of the RFC)."""
    sites = []
    for n, parents in walk_paths(f):
        s = n.schema
        if any(p.schema.kind == "list" and not p.schema.keys for p in parents + [n]):
            continue
        if s.kind == "leaf-list" or (s.kind == "leaf" and not s.is_key) or (s.kind == "list" and s.keys):
            sites.append((n, parents))
    if not sites:
        return None
    n, parents = rng.choice(sites)
    s = n.schema
    try:
        ppath = node_path(parents[-1], parents[:-1]) if parents else None
    except Exception:
        return None
    if ppath and "'" in ppath and '"' in ppath:
        return None
    sibs = parents[-1].children if parents else f
    fresh = rng.random() < 0.25
    g = clone_forest(f)
    # the same position in the clone
    gs = g
    for p in parents:
        gs = gs[[id(x) for x in (sibs_of(f, parents, p))].index(id(p))].children
    if s.kind == "list":
        keys = [c for c in n.children if c.schema.name in s.keys]
        vals = [(c.schema, c.value) for c in keys]
        if fresh:
            new = _fresh_instances(rng, ig, s, [d for d in sibs if d.schema is s], 1)
            if not new:
                return None
            vals = [(c.schema, c.value) for c in new[0].children if c.schema.name in s.keys]
        if any("'" in v and '"' in v for _, v in vals):
            return None
        pred = "".join("[%s=%s]" % (ks.name, quote_pred(lexical_variant(rng, ks.type, v))) for ks, v in vals)
        cmd = ("newlist", None, ppath, s.name, pred)
        added = yanggen.DNode(s, children=[yanggen.DNode(ks, v) for ks, v in vals])
    else:
        v = n.value
        if fresh or (s.kind == "leaf" and rng.random() < 0.5):
            v = s.type.valid(rng)
        if isinstance(s.type, yanggen.TEmpty):
            v = ""
        cmd = ("newterm", None, ppath, s.name, lexical_variant(rng, s.type, v))
        added = yanggen.DNode(s, v)
    gs.append(added)
    exp = validenc.py_violations(m, g)
    if not exp <= {"dup"} and not exp <= {"nomax"} and exp:
        return None
    if exp == {"dup", "nomax"}:
        return None
    cls = "0" if not exp else sorted(exp)[0]
    if cls == "0" and s.kind == "list":
        return None                 # a fresh entry may lack mandatory content: not a control
    x = yanggen.to_xml(f)
    cmds = [("mod", hexs(m.yang()), CTX_NO_YANGLIBRARY)]
    routes = []
    for slot, how in (("t6", ()), ("t7", ("m",))):
        cmds.append(("parse", slot, "x", PARSE_STRICT, 0, hexs(x)))
        cmds.append((cmd[0], slot, hexs(cmd[2]) if cmd[2] else "-", cmd[3], hexs(cmd[4])))
        cmds.append(("val", slot, rng.choice([0, VAL_MULTI])) + how)
        routes.append("H3")
    return vline(["#x " + cls, "#r " + ",".join(routes)], cmds)


def sibs_of(f, parents, p):
    """the sibling list (of the ORIGINAL forest) in which parent chain element p lives"""
    i = [id(x) for x in parents].index(id(p))
    return parents[i - 1].children if i else f


class TLeafref(yanggen.Type):
    json_kind = "number"

    def __init__(self, path):
        self.path = path

    def yang(self):
        return 'type leafref { path "%s"; }' % self.path

    def valid(self, rng):
        return "7"


def nested_family(rng, xpath=True):
    """(module, instance, expected classes) for implicit nodes under NESTED choices: choice o -> case a -> choice i ->
    case x -> choice j -> case p, with a default leaf, a non-presence container (with a mandatory leaf and a must) and
    further nodes at every level. Which cases exist is decided by the explicit data - often ONLY by nodes of the
    innermost choice - and the verdicts of must / leafref / when / mandatory depend on the defaults and containers that
    RFC 7950 7.6.1 / 7.5.1 put into the outer cases then. xpath=False: the same without must / when / leafref (for the
    Coq model). The expectation is computed here from the explicit data (independent of libyang)."""
    Y = yanggen
    S, I = Y.TString(), Y.TInt("int8")
    mu = (lambda x: (x, None, None)) if xpath else (lambda x: None)
    ad, am, adf = Y.SLeaf("ad", I, default="5"), Y.SLeaf("am", S, mandatory=True), Y.SLeaf("adf", I, default="3")
    anp = Y.SContainer("anp", [am, adf], must=mu("../sel = 'ok'"))
    xe, xd, xm = Y.SLeaf("xe", S), Y.SLeaf("xd", I, default="7"), Y.SLeaf("xm", S, mandatory=True)
    xnp = Y.SContainer("xnp", [xm], must=mu("../sel != 'no-x'"))
    pe, pd, qe, ye = Y.SLeaf("pe", S), Y.SLeaf("pd", I, default="9"), Y.SLeaf("qe", S), Y.SLeaf("ye", S)
    pl = Y.SLeafList("pl", S, minel=1)
    pnp = Y.SContainer("pnp", [pl])
    be, bd = Y.SLeaf("be", S), Y.SLeaf("bd", I, default="2")
    j = Y.SChoice("j", [("p", [pe, pd, pnp]), ("q", [qe])])
    i = Y.SChoice("i", [("x", [xe, xd, xnp, j]), ("y", [ye])])
    o = Y.SChoice("o", [("a", [ad, anp, i]), ("b", [be, bd])])
    sel = Y.SLeaf("sel", S)
    top_nodes = [sel, o]
    if xpath:
        chk = Y.SLeaf("chk", S, must=("../ad = 5 and (not(../xe) or ../xd = 7)", None, None))
        lr = Y.SLeaf("lr", TLeafref("../xd"))
        lr2 = Y.SLeaf("lr2", TLeafref("../anp/adf"))
        wh = Y.SLeaf("wh", S, when=("../pd = 9 or ../ad = 1", None))
        top_nodes += [chk, lr, lr2, wh]
    top = Y.SContainer("top", top_nodes, presence=True)
    m = Y.Module("m1", [top])

    # explicit data: a path through the cases, optional direct nodes at every level
    D = lambda sn, v=None, ch=None: Y.DNode(sn, v, ch)          # noqa: E731
    ch = []
    selv = rng.choice(["ok", "ok", "ok", "bad", "no-x"])
    if rng.random() < 0.9:
        ch.append(D(sel, selv))
    else:
        selv = None
    have = {}
    r = rng.random()
    bare_a, bare_x = rng.random() < 0.35, rng.random() < 0.35     # the only explicit data of the case sit in the nested choice
    if r < 0.8:                                   # case a
        if not bare_a and rng.random() < 0.3:
            have["ad"] = rng.choice(["5", "1", "4"])
            ch.append(D(ad, have["ad"]))
        anp_ch = []
        if not bare_a and rng.random() < 0.75:
            have["am"] = "m"
            anp_ch.append(D(am, "m"))
        if not bare_a and rng.random() < 0.2:
            have["adf"] = rng.choice(["3", "8"])
            anp_ch.append(D(adf, have["adf"]))
        if anp_ch:
            ch.append(D(anp, None, anp_ch))
        r2 = rng.random()
        if r2 < 0.7:                              # case x
            if not bare_x and rng.random() < 0.4:
                have["xe"] = "e"
                ch.append(D(xe, "e"))
            if not bare_x and rng.random() < 0.25:
                have["xd"] = rng.choice(["7", "6"])
                ch.append(D(xd, have["xd"]))
            if not bare_x and rng.random() < 0.75:
                have["xm"] = "m"
                ch.append(D(xnp, None, [D(xm, "m")]))
            r3 = rng.random()
            if r3 < 0.6:                          # case p
                if rng.random() < 0.6:
                    have["pe"] = "p"
                    ch.append(D(pe, "p"))
                if rng.random() < 0.25:
                    have["pd"] = rng.choice(["9", "0"])
                    ch.append(D(pd, have["pd"]))
                if rng.random() < 0.75:
                    have["pl"] = "l"
                    ch.append(D(pnp, None, [D(pl, "l")]))
            elif r3 < 0.8:
                have["qe"] = "q"
                ch.append(D(qe, "q"))
        elif r2 < 0.85:
            have["ye"] = "y"
            ch.append(D(ye, "y"))
    elif r < 0.9:
        have["be"] = "b"
        ch.append(D(be, "b"))
    in_p = any(k in have for k in ("pe", "pd", "pl"))
    in_x = in_p or any(k in have for k in ("xe", "xd", "xm", "qe"))
    in_a = in_x or any(k in have for k in ("ad", "am", "adf", "ye"))
    val = {"ad": have.get("ad", "5" if in_a else None), "xd": have.get("xd", "7" if in_x else None),
           "pd": have.get("pd", "9" if in_p else None), "adf": have.get("adf", "3" if in_a else None)}
    exp = set()
    if in_a and "am" not in have:
        exp.add("nomand")
    if in_x and "xm" not in have:
        exp.add("nomand")
    if in_p and "pl" not in have:
        exp.add("nomin")
    if xpath:
        if in_a and selv != "ok":
            exp.add("nomust")
        if in_x and selv == "no-x":
            exp.add("nomust")
        if rng.random() < 0.6:
            ch.append(D(chk, "c"))
            if not (val["ad"] == "5" and ("xe" not in have or val["xd"] == "7")):
                exp.add("nomust")
        if rng.random() < 0.5:
            v = rng.choice(["7", "7", "6"])
            ch.append(D(lr, v))
            if val["xd"] != v:
                exp.add("noinst")
        if rng.random() < 0.4:
            v = rng.choice(["3", "3", "8"])
            ch.append(D(lr2, v))
            if val["adf"] != v:
                exp.add("noinst")
        if rng.random() < 0.5:
            ch.append(D(wh, "w"))
            if not (val["pd"] == "9" or val["ad"] == "1"):
                exp.add("nowhen")
    return m, [D(top, None, ch)], exp


def lead_default_family(rng):
    """(module, instance) for lyd_validate_siblings_schema_r's search of the existing case: the selected case STARTS (in
    schema order) with default leaves and a non-presence container that are usually left implicit and is selected only
    by a LATER sibling; inside the case every constraint kind, randomly violated or satisfied: mandatory leaf, mandatory
    nested choice, list with min/max-elements and unique, leaf-list with min-elements; a second choice with a default
    case that starts with defaults too (nested default case, list with max-elements / unique). XPath-free: the
    expectation is validenc.py_violations, the Coq model takes the same cases."""
    Y = yanggen
    S, I = Y.TString(), Y.TInt("int8")
    d1, dnx = Y.SLeaf("d1", I, default="1"), Y.SLeaf("dnx", S, default="n")
    dnp = Y.SContainer("dnp", [dnx])
    e, mleaf = Y.SLeaf("e", S), Y.SLeaf("mleaf", S, mandatory=True)
    n1l, n2l = Y.SLeaf("n1l", S), Y.SLeaf("n2l", S)
    nch = Y.SChoice("nch", [("n1", [n1l]), ("n2", [n2l])], mandatory=True)
    lk, lu, lv = Y.SLeaf("lk", Y.TString(length=(1, 5))), Y.SLeaf("lu", S), Y.SLeaf("lv", S, default="v")
    lst = validenc.SListU("lst", ["lk"], [lk, lu, lv], minel=1, maxel=2)
    lst.uniques, lst.unique = [["lu"], ["lv"]], None
    ll = Y.SLeafList("ll", S, minel=1, maxel=3)
    be, bd = Y.SLeaf("be", S), Y.SLeaf("bd", I, default="2")
    ch = Y.SChoice("ch", [("a", [d1, dnp, e, mleaf, nch, lst, ll]), ("b", [bd, be])])
    # default case with defaults first, a nested default case, then constrained lists
    f1, f2, fe = Y.SLeaf("f1", I, default="4"), Y.SLeaf("f2", S, default="w"), Y.SLeaf("fe", S)
    gk, gu = Y.SLeaf("gk", Y.TString(length=(1, 5))), Y.SLeaf("gu", S)
    gl = validenc.SListU("gl", ["gk"], [gk, gu], maxel=2)
    gl.uniques, gl.unique = [["gu"]], None
    inner = Y.SChoice("inner", [("i1", [f2, fe]), ("i2", [Y.SLeaf("i2l", S)])], default="i1")
    ch2 = Y.SChoice("ch2", [("dc", [f1, inner, gl]), ("oc", [Y.SLeaf("ol", S)])], default="dc")
    top = Y.SContainer("top", [ch, ch2, Y.SLeaf("z", S)], presence=True)
    m = Y.Module("m1", [top])
    D = lambda sn, v=None, c=None: Y.DNode(sn, v, c)           # noqa: E731
    out = []
    r = rng.random()
    if r < 0.75:                                               # case a, selected by a later sibling
        if rng.random() < 0.15:
            out.append(D(d1, "3"))
        if rng.random() < 0.15:
            out.append(D(dnp, None, [D(dnx, "x")]))
        sel = [x for x in ("e", "mleaf", "nch", "lst", "ll") if rng.random() < 0.6] or [rng.choice(["e", "lst", "ll", "nch"])]
        if "e" in sel:
            out.append(D(e, "e"))
        if "mleaf" in sel:
            out.append(D(mleaf, "m"))
        if "nch" in sel:
            out.append(D(n1l, "1") if rng.random() < 0.5 else D(n2l, "2"))
        if "lst" in sel:
            for i in range(rng.choice([1, 2, 2, 3])):
                c = [D(lk, "k%d" % i)]
                if rng.random() < 0.7:
                    c.append(D(lu, rng.choice(["p", "q", "r"])))
                if rng.random() < 0.4:
                    c.append(D(lv, rng.choice(["v", "w"])))
                out.append(D(lst, None, c))
        if "ll" in sel:
            for i in range(rng.choice([1, 2, 3, 4])):
                out.append(D(ll, "l%d" % i))
    elif r < 0.9:
        out.append(D(be, "b"))
    r = rng.random()
    if r < 0.6:                                                # default case dc, explicit data after the defaults
        if rng.random() < 0.4:
            out.append(D(fe, "f"))
        for i in range(rng.choice([0, 1, 2, 3])):
            c = [D(gk, "g%d" % i)]
            if rng.random() < 0.7:
                c.append(D(gu, rng.choice(["p", "q"])))
            out.append(D(gl, None, c))
    elif r < 0.75:
        out.append(D(top.children[1].cases[1][1][0], "o"))
    out.append(D(top.children[2], "z"))
    return m, [D(top, None, out)]


# ---- type restrictions (RFC 7950 section 9): every built-in type, expectation from the predicates written here
TYPE_MI = """module mi { yang-version 1.1; namespace "urn:verif:mi"; prefix mi;
  identity A; identity B; identity X;
  identity C { base A; }
  identity D { base A; base B; }
  identity E { base D; }
  identity F { base B; }
  identity AX { base A; base X; }
}"""
ID_BASES = {"mi:A": [], "mi:B": [], "mi:X": [], "mi:C": ["mi:A"], "mi:D": ["mi:A", "mi:B"], "mi:E": ["mi:D"], "mi:F": ["mi:B"],
            "mi:AX": ["mi:A", "mi:X"], "m1:G": ["mi:C", "mi:F"], "m1:H": ["mi:E"], "m1:K": ["m1:G", "mi:X"], "m1:L": []}


def id_ancestors(x):
    out = set()
    todo = list(ID_BASES.get(x, []))
    while todo:
        b = todo.pop()
        if b not in out:
            out.add(b)
            todo += ID_BASES.get(b, [])
    return out


def idref_ok(bases):
    """9.10.2: the value is an identity DERIVED (transitively, not the base itself) from ALL the bases"""
    return lambda v: v in ID_BASES and all(b in id_ancestors(v) for b in bases)


def _int_ok(lo, hi, ranges=None):
    def ok(v):
        import re as _re
        if not _re.fullmatch(r"[+-]?[0-9]+", v):
            return False
        n = int(v)
        return lo <= n <= hi and (ranges is None or any(a <= n <= b for a, b in ranges))
    return ok


def _str_ok(lo=0, hi=10 ** 9, pattern=None):
    import re as _re
    return lambda v: lo <= len(v) <= hi and (pattern is None or _re.fullmatch(pattern, v) is not None)


def _b64_len(v):
    import base64
    try:
        return len(base64.b64decode(v, validate=True)) if len(v) % 4 == 0 else None
    except Exception:
        return None


IDS = ["mi:A", "mi:C", "mi:D", "mi:E", "mi:F", "mi:AX", "m1:G", "m1:H", "m1:K", "m1:L", "mi:nope"]
# (leaf name, type text, predicate, candidate values, JSON kind)
TYPE_LEAVES = [
    ("i8", "type int8 { range \"-5..5 | 20\"; }", _int_ok(-128, 127, [(-5, 5), (20, 20)]), ["-5", "5", "6", "20", "21", "-6", "+3", "128", "x", "1.0", ""], "n"),
    ("u16", "type uint16;", _int_ok(0, 65535), ["0", "65535", "65536", "-1", "12"], "n"),
    ("i64", "type int64 { range \"min..0\"; }", _int_ok(-2 ** 63, 0), ["-9223372036854775808", "-9223372036854775809", "0", "1"], "s"),
    ("u64", "type uint64;", _int_ok(0, 2 ** 64 - 1), ["18446744073709551615", "18446744073709551616", "0"], "s"),
    ("d2", "type decimal64 { fraction-digits 2; range \"-1.5..1.5\"; }",
     lambda v: __import__("re").fullmatch(r"[+-]?[0-9]+(\.[0-9]{1,2})?", v) is not None and -1.5 <= float(v) <= 1.5,
     ["1.5", "1.51", "-1.5", "0", "1.234", "abc", "-1.50"], "s"),
    ("s", "type string { length \"2..4\"; pattern '[a-c]*'; }", _str_ok(2, 4, "[a-c]*"), ["ab", "abca", "abcab", "a", "abd", "cc"], "s"),
    ("bo", "type boolean;", lambda v: v in ("true", "false"), ["true", "false", "True", "1"], "b"),
    ("bi", "type binary { length \"1..3\"; }", lambda v: _b64_len(v) is not None and 1 <= _b64_len(v) <= 3, ["YQ==", "YWJj", "YWJjZA==", "", "Y"], "s"),
    ("en", "type enumeration { enum one; enum two { if-feature fx; } enum three; }", lambda v: v in ("one", "three"), ["one", "two", "three", "four"], "s"),
    ("bt", "type bits { bit b0; bit b1 { if-feature fx; } bit b2; }",
     lambda v: all(x in ("b0", "b2") for x in v.split()) and len(set(v.split())) == len(v.split()), ["b0", "b0 b2", "b1", "b0 b1", "b9", "b2 b0"], "s"),
    ("un", "type union { type int8 { range \"0..10\"; } type enumeration { enum up; enum down; } type string { pattern 'x[0-9]+'; } }",
     lambda v: _int_ok(-128, 127, [(0, 10)])(v) or v in ("up", "down") or __import__("re").fullmatch("x[0-9]+", v) is not None,
     ["7", "11", "up", "x12", "y1", "-1", "down"], "s"),
    ("ir1", "type identityref { base mi:A; }", idref_ok(["mi:A"]), IDS, "s"),
    ("ir2", "type identityref { base mi:A; base mi:B; }", idref_ok(["mi:A", "mi:B"]), IDS, "s"),
    ("ir3", "type identityref { base mi:A; base mi:B; base mi:X; }", idref_ok(["mi:A", "mi:B", "mi:X"]), IDS, "s"),
    ("irg", "type identityref { base G; base mi:X; }", idref_ok(["m1:G", "mi:X"]), IDS, "s"),
]
TYPE_M1 = """module m1 { yang-version 1.1; namespace "urn:verif:m1"; prefix m1; import mi { prefix mi; }
  feature fx;
  identity G { base mi:C; base mi:F; }
  identity H { base mi:E; }
  identity K { base G; base mi:X; }
  identity L;
  container tt {
%s
    leaf-list tg { type string; }
    leaf lrt { type leafref { path "../tg"; } }
    leaf lrf { type leafref { path "../tg"; require-instance false; } }
    leaf iit { type instance-identifier; }
    leaf iif { type instance-identifier { require-instance false; } }
  }
}""" % "\n".join("    leaf %s { %s }" % (nm, ty) for nm, ty, _, _, _ in TYPE_LEAVES)


def type_family_cases():
    """one document per (leaf, candidate value): accepted exactly when the value is in the value space of the type"""
    import json
    L = []

    def doc(name, v, kind, cls, extra_x="", extra_j=None):
        ns = ' xmlns:mi="urn:verif:mi" xmlns:m1="urn:verif:m1"' if name.startswith(("ir", "ii")) else ""
        x = '<tt xmlns="urn:verif:m1">%s<%s%s>%s</%s></tt>' % (extra_x, name, ns, yanggen.xml_text(v), name)
        jv, json_ok = v, True
        if kind == "n" or name == "un":
            if re.fullmatch(r"-?[0-9]+", v):
                jv = int(v)
            elif kind == "n":
                json_ok = False         # RFC 7951 6.1: a number; other lexical forms are an XML matter
        elif kind == "b":
            if v in ("true", "false"):
                jv = (v == "true")
            else:
                json_ok = False
        if name.startswith("ii"):
            json_ok = False             # RFC 7951 6.11 has its own instance-identifier syntax
        o = dict(extra_j or {})
        o[name] = jv
        j = json.dumps({"m1:tt": o})
        cmds = [("mod", hexs(TYPE_MI), CTX_NO_YANGLIBRARY), ("mod", hexs(TYPE_M1)),
                ("parse", "t0", "x", PARSE_STRICT, 0, hexs(x)),
                ("parse", "t3", "x", PARSE_ONLY | PARSE_STRICT, 0, hexs(x)), ("val", "t3", 0, "m"),
                ("parse", "t5", "x", PARSE_ONLY | PARSE_STRICT, 0, hexs(x)), ("val", "t5", VAL_MULTI)]
        routes = ["S1", "v", "pv", "Apv"]
        if json_ok:
            cmds += [("parse", "t1", "j", PARSE_STRICT, 0, hexs(j)),
                     ("parse", "t4", "j", PARSE_ONLY | PARSE_STRICT, 0, hexs(j)), ("val", "t4", VAL_MULTI, "m")]
            routes += ["v", "Apv"]
        return "valid\t#x %s\t#r %s\t%s" % (cls, ",".join(routes), "\t".join(" ".join(str(w) for w in c) for c in cmds))
    for name, _, ok, cands, kind in TYPE_LEAVES:
        for v in cands:
            L.append(doc(name, v, kind, "0" if ok(v) else "type"))
    tg_x, tg_j = "<tg>t1</tg><tg>t2</tg>", {"tg": ["t1", "t2"]}
    for name, v, cls in (("lrt", "t2", "0"), ("lrt", "t3", "noinst"), ("lrf", "t3", "0"), ("lrf", "t1", "0"),
                         ("iit", "/m1:tt/m1:tg[.='t1']", "0"), ("iit", "/m1:tt/m1:tg[.='t9']", "noinst"),
                         ("iif", "/m1:tt/m1:tg[.='t9']", "0"), ("iif", "/m1:tt/m1:nosuch", "type")):
        L.append(doc(name, v, "s", cls, tg_x, tg_j))
    return L


def valid_instance(rng, m, ig):
    for _ in range(12):
        f = ig.forest(m)
        if not validenc.py_violations(m, f):
            return f
    return None


# ------------------------------------------------------------------------------------------------
# single-rule mutations (on a clone); each returns the intended class or None when it does not apply
# ------------------------------------------------------------------------------------------------
def contexts(m, forest):
    """(schema children, sibling data list, parent data node) of every sibling level"""
    yield m.nodes, forest, None
    for n, _, _ in yanggen.walk(forest):
        if n.schema.kind in ("container", "list"):
            yield n.schema.children, n.children, n


def flat(schema_children):
    return validenc._case_nodes(schema_children)


def mut_drop_mand(rng, m, ig, f):
    sites = [(sib, i) for n, sib, i in yanggen.walk(f) if n.schema.kind == "leaf" and n.schema.mandatory]
    if not sites:
        return None
    sib, i = rng.choice(sites)
    del sib[i]
    return "nomand"


def _choices(schema_children):
    out = []
    for n in schema_children:
        if n.kind == "choice":
            out.append(n)
            for _, cns in n.cases:
                out += _choices(cns)
    return out


def mut_drop_choice(rng, m, ig, f):
    sites = []
    for sc, data, par in contexts(m, f):
        for ch in _choices(sc):
            if ch.mandatory:
                ids = {id(x) for x in flat([ch])}
                if any(id(d.schema) in ids for d in data):
                    sites.append((data, ids))
    if not sites:
        return None
    data, ids = rng.choice(sites)
    data[:] = [d for d in data if id(d.schema) not in ids]
    return "nomandchoice"


def _fresh_instances(rng, ig, n, have, want):
    """instances of (leaf-)list n that do not repeat a key tuple / value already present"""
    out = []
    keyof = lambda d: (tuple(c.value for c in d.children if c.schema.name in n.keys) if n.kind == "list" else d.value)  # noqa: E731
    seen = {keyof(d) for d in have}
    for _ in range(40):
        if len(out) >= want:
            break
        for d in ig.instances(n, 2, True):
            k = keyof(d)
            if (n.kind == "list" and not n.keys) or (n.kind == "leaf-list" and not validenc._cfg(n)) or k not in seen:
                seen.add(k)
                out.append(d)
                if len(out) >= want:
                    break
    return out if len(out) >= want else None


def mut_max(rng, m, ig, f):
    sites = []
    for sc, data, par in contexts(m, f):
        for n in flat(sc):
            if n.kind in ("list", "leaf-list") and n.maxel is not None:
                inst = [d for d in data if d.schema is n]
                if inst:
                    sites.append((data, n, inst))
    if not sites:
        return None
    data, n, inst = rng.choice(sites)
    new = _fresh_instances(rng, ig, n, inst, n.maxel + 1 - len(inst))
    if not new:
        return None
    pos = max(i for i, d in enumerate(data) if d.schema is n) + 1
    data[pos:pos] = new
    return "nomax"


def mut_min(rng, m, ig, f):
    sites = []
    for sc, data, par in contexts(m, f):
        for n in flat(sc):
            if n.kind in ("list", "leaf-list") and n.minel:
                inst = [d for d in data if d.schema is n]
                if len(inst) >= n.minel:
                    sites.append((data, n, inst))
    if not sites:
        return None
    data, n, inst = rng.choice(sites)
    drop = set(id(d) for d in rng.sample(inst, len(inst) - n.minel + 1))
    data[:] = [d for d in data if id(d) not in drop]
    return "nomin"


def mut_dup_key(rng, m, ig, f):
    sites = [(sib, i) for n, sib, i in yanggen.walk(f) if n.schema.kind == "list" and n.schema.keys]
    if not sites:
        return None
    sib, i = rng.choice(sites)
    c = sib[i].clone()
    if rng.random() < 0.5:
        # same keys, other content
        s = c.schema
        for d in ig.instances(s, 2, True)[:1]:
            c.children = [x for x in c.children if x.schema.name in s.keys] + [x for x in d.children if x.schema.name not in s.keys]
    j = max(k for k, d in enumerate(sib) if d.schema is sib[i].schema) + 1
    sib.insert(rng.choice([i + 1, j]), c)
    return "dup"


def mut_unique(rng, m, ig, f):
    sites = []
    for sc, data, par in contexts(m, f):
        for n in flat(sc):
            if n.kind == "list" and validenc.list_uniques(n):
                inst = [d for d in data if d.schema is n]
                if len(inst) >= 2:
                    sites.append((n, inst))
    if not sites:
        return None
    n, inst = rng.choice(sites)
    a, b = rng.sample(inst, 2)
    b.children = [x for x in b.children if x.schema.name in n.keys] + [x.clone() for x in a.children if x.schema.name not in n.keys]
    return "nouniq"


def mut_unique_partial(rng, m, ig, f):
    """a list with several unique statements and at least three entries: two entries agree on a LATER statement while one
    of them has an incomplete EARLIER statement (a leaf without default missing); the third entry keeps the hash-table
    path of lyd_validate_unique in play"""
    sites = []
    for sc, data, par in contexts(m, f):
        for n in flat(sc):
            us = validenc.list_uniques(n) if n.kind == "list" else []
            if len(us) >= 2:
                inst = [d for d in data if d.schema is n]
                if len(inst) >= 2:
                    sites.append((data, n, inst, us))
    rng.shuffle(sites)
    for data, n, inst, us in sites:
        if len(inst) < 3:
            new = _fresh_instances(rng, ig, n, inst, 3 - len(inst))
            if not new or (n.maxel is not None and len(inst) + len(new) > n.maxel):
                continue
            pos = max(i for i, d in enumerate(data) if d.schema is n) + 1
            data[pos:pos] = new
            inst = inst + new
        j = rng.randrange(1, len(us))
        later = {x for x in us[j]}
        early = [p for u in us[:j] for p in u if p not in later and "/" not in p]
        early = [p for p in early if validenc.resolve(n.children, p)[0].default is None and
                 not validenc.resolve(n.children, p)[0].mandatory]
        if not early:
            continue
        a, b = rng.sample(inst, 2)
        b.children = [x for x in b.children if x.schema.name in n.keys] + [x.clone() for x in a.children if x.schema.name not in n.keys]
        drop = rng.choice(early)
        which = rng.choice([a, b, None])
        for e in ([a, b] if which is None else [which]):
            e.children = [x for x in e.children if x.schema.name != drop]
        # entries: put the pair at random positions among the instances (the incomplete one first or last)
        return "nouniq"
    return None


def mut_unique_dflt(rng, m, ig, f):
    """two entries agree through the default value: one has the leaf explicitly with the default value, the other has
    no instance"""
    sites = []
    for sc, data, par in contexts(m, f):
        for n in flat(sc):
            if n.kind == "list":
                for u in validenc.list_uniques(n):
                    if len(u) == 1 and "/" not in u[0]:
                        leaf = validenc.resolve(n.children, u[0])[0]
                        inst = [d for d in data if d.schema is n]
                        if leaf.default is not None and len(inst) >= 2:
                            sites.append((leaf, inst))
    if not sites:
        return None
    leaf, inst = rng.choice(sites)
    a, b = rng.sample(inst, 2)
    a.children = [x for x in a.children if x.schema is not leaf]
    b.children = [x for x in b.children if x.schema is not leaf] + [yanggen.DNode(leaf, leaf.default)]
    return "nouniq"


def mut_dup_llval(rng, m, ig, f):
    sites = [(sib, i) for n, sib, i in yanggen.walk(f) if n.schema.kind == "leaf-list" and validenc._cfg(n.schema)]
    if not sites:
        return None
    sib, i = rng.choice(sites)
    sib.insert(i + 1, sib[i].clone())
    return "dup"


def mut_dup_leaf(rng, m, ig, f):
    sites = [(sib, i) for n, sib, i in yanggen.walk(f) if n.schema.kind == "leaf" and not n.schema.is_key]
    if not sites:
        return None
    sib, i = rng.choice(sites)
    c = sib[i].clone()
    if rng.random() < 0.5:
        c.value = c.schema.type.valid(rng)
    sib.insert(i + 1, c)
    return "dup"


def mut_second_case(rng, m, ig, f):
    sites = []
    for sc, data, par in contexts(m, f):
        for ch in _choices(sc):
            sel = [cn for cn, cns in ch.cases if any(id(d.schema) in {id(x) for x in flat(cns)} for d in data)]
            if len(sel) == 1 and len(ch.cases) > 1:
                sites.append((data, ch, sel[0]))
    if not sites:
        return None
    data, ch, sel = rng.choice(sites)
    cn, cns = rng.choice([c for c in ch.cases if c[0] != sel])
    for _ in range(10):
        new = ig.children_of(cns, depth=2)
        if new:
            data.extend(new)
            return "dupcase"
    return None


def mut_bad_value(rng, m, ig, f):
    sites = []
    for n, sib, i in yanggen.walk(f):
        if n.schema.kind in ("leaf", "leaf-list") and not getattr(n.schema, "is_key", False):
            v = n.schema.type.invalid(rng)
            if v is not None:
                sites.append((n, v))
    if not sites:
        return None
    n, v = rng.choice(sites)
    n.value = v
    return "type"


def mut_drop_key(rng, m, ig, f):
    sites = [(n, c) for n, sib, i in yanggen.walk(f) if n.schema.kind == "list" for c in n.children if c.schema.name in n.schema.keys]
    if not sites:
        return None
    n, c = rng.choice(sites)
    n.children = [x for x in n.children if x is not c]
    return "nokey"


MODEL_MUTS = [mut_drop_mand, mut_drop_choice, mut_max, mut_min, mut_dup_key, mut_unique, mut_unique_partial, mut_unique_dflt, mut_dup_llval,
              mut_dup_leaf, mut_second_case]
PARSER_MUTS = [mut_bad_value, mut_drop_key]


def clone_forest(f):
    return [n.clone() for n in f]


def shuffled(rng, forest, keep_keys=True):
    """siblings in random order at every level; list keys stay in front in their order (XML, RFC 7950 7.8.5)"""
    out = []
    for n in forest:
        c = yanggen.DNode(n.schema, n.value, None, list(n.meta))
        ch = shuffled(rng, n.children, keep_keys)
        if n.schema.kind == "list" and keep_keys:
            keys = [x for x in ch if x.schema.name in n.schema.keys]
            keys.sort(key=lambda x: [k.name for k in n.schema.children].index(x.schema.name))
            rest = [x for x in ch if x.schema.name not in n.schema.keys]
            ch = keys + rest
        c.children = ch
        out.append(c)
    rng.shuffle(out)
    return out


def removed_paths(f, g):
    """paths of the top-most nodes of f that are missing in g (g = f with nodes removed), None when a node has no path"""
    try:
        pf = [(node_path(n, par), n) for n, par in walk_paths(f)]
        pg = [node_path(n, par) for n, par in walk_paths(g)]
    except Exception:
        return None
    for n, par in walk_paths(f):
        s = n.schema
        if (s.kind == "list" and not s.keys) or (s.kind == "leaf-list" and not validenc._cfg(s)):
            return None
        if n.value is not None and "'" in n.value and '"' in n.value:
            return None
    have = {}
    for x in pg:
        have[x] = have.get(x, 0) + 1
    rem = []
    for x, n in pf:
        if have.get(x, 0) > 0:
            have[x] -= 1
        else:
            rem.append(x)
    top = [x for x in rem if not any(x != y and x.startswith(y + "/") for y in rem)]
    return top


# ------------------------------------------------------------------------------------------------
# T2
# ------------------------------------------------------------------------------------------------
def stage1(lines):
    exe = vlib.build_driver("t_valid", "rel")
    outs, _ = vlib.run_sharded(exe, lines, timeout=600, env=dict(os.environ))
    return outs


class ValidModel(Comp):
    """lyd_validate_module on parse-only and on edited trees vs ValidateImpl.impl_validate / RfcValid.rfc_valid"""
    name = "validmodel"
    driver = "t_valid"
    slice = "valid"

    def edits(self, rng, m, ig, f):
        """API edits of a validated tree: list of t_valid commands"""
        g = valid_instance(rng, m, ig) or []
        items_f = creation_items(f) or []
        items_g = creation_items(g) or []
        cmds = []
        for _ in range(rng.choice([1, 1, 2, 3])):
            r = rng.random()
            if r < 0.25 and items_g:
                p, v = rng.choice(items_g)
                cmds.append(("newpath", "t0", NEWPATH_UPDATE, hexs(p), hexs(v) if v is not None else "~"))
            elif r < 0.45 and items_f:
                p, v = rng.choice(items_f)
                cmds.append(("freepath", "t0", hexs(p)))
            elif r < 0.6:
                terms = [x for x in walk_paths(f) if x[0].value is not None and not isinstance(x[0].schema.type, yanggen.TEmpty)]
                if terms:
                    n, parents = rng.choice(terms)
                    try:
                        cmds.append(("chgpath", "t0", hexs(node_path(n, parents)), hexs(n.schema.type.valid(rng))))
                    except Exception:
                        pass
            else:
                # move / duplicate a node of one list entry into another entry of the same list
                pairs = []
                for n, parents in walk_paths(f):
                    if parents and parents[-1].schema.kind == "list" and parents[-1].schema.keys and not getattr(n.schema, "is_key", False):
                        ent = parents[-1]
                        sibs = (parents[-2].children if len(parents) > 1 else f)
                        others = [e for e in sibs if e.schema is ent.schema and e is not ent]
                        if others:
                            pairs.append((n, parents, rng.choice(others)))
                if pairs:
                    n, parents, other = rng.choice(pairs)
                    key = [c for c in other.children if c.schema.name in other.schema.keys][0]
                    try:
                        src = node_path(n, parents)
                        dst = node_path(key, parents[:-1] + [other])
                    except Exception:
                        continue
                    if '"' in src and "'" in src:
                        continue
                    cmds.append((rng.choice(["move", "move", "dupins"]), "t0", hexs(src), hexs(dst), "s"))
        return cmds

    def additions(self, rng, m, ig, f):
        """commands that add nodes to the tree of f: duplicates and fresh nodes by lyd_new_term / lyd_new_list2, nodes of
        another instance by lyd_new_path, duplicate + insert, a changed value"""
        cmds = []
        for _ in range(rng.choice([1, 1, 2, 3])):
            r = rng.random()
            if r < 0.6:
                h = history_case(rng, m, ig, f)
                if h:
                    c = h.split("\t")[5].split(" ")      # the edit command of the first copy
                    cmds.append(tuple([c[0], "t0"] + c[2:]))
            else:
                cmds += [c for c in self.edits(rng, m, ig, f) if c[0] in ("newpath", "dupins", "chgpath")][:1]
        return cmds

    def gen(self, rng, tier, scale=1.0):
        pre = []
        for i in range(self.n(tier, 2500, 40000, scale)):
            if i % 12 in (1, 5, 9):
                # a history: the valid instance parsed WITHOUT the new flags (LYD_PARSE_NO_NEW: an already validated tree
                # without implicit nodes), nodes added through the API (flagged new), then validation
                m, ig = valid_case(rng, userord=(i % 3 == 0), state=(i % 4 != 1))
                f = valid_instance(rng, m, ig)
                if f is None:
                    continue
                cmds = [("mod", hexs(m.yang())), ("parse", "t0", "x", PARSE_ONLY | PARSE_STRICT | PARSE_NO_NEW, 0, hexs(yanggen.to_xml(f)))]
                cmds += self.additions(rng, m, ig, f)
                cmds += [("dump", "t0", 1), ("val", "t0", rng.choice([0, 0, VAL_MULTI]), "m")]
                pre.append((m, cmds, {"*"}))
                continue
            if i % 12 == 10:
                m, g = lead_default_family(rng)
                ig = yanggen.InstGen(rng, meta_prob=0.0)
                f = g
            elif i % 12 == 3:
                m, g, _ = nested_family(rng, xpath=False)
                ig = yanggen.InstGen(rng, meta_prob=0.0)
                f = g
            elif i % 12 == 7:
                m, g = unique_family(rng)
                ig = yanggen.InstGen(rng, meta_prob=0.0)
                f = g
            else:
                m, ig = valid_case(rng, userord=(i % 3 == 0), state=(i % 4 != 1))
                ig.max_inst = 6 if i % 5 == 0 else 4
                if i % 11 == 0:
                    ig.max_inst = 9        # parents with a children hash table (LYD_HT_MIN_ITEMS = 4 is reached anyway)
                f = valid_instance(rng, m, ig)
                if f is None:
                    continue
                k = rng.choice([0, 0, 1, 1, 1, 2, 3])
                g = clone_forest(f)
                for _ in range(k):
                    rng.choice(MODEL_MUTS)(rng, m, ig, g)
            exp = validenc.py_violations(m, g)
            if rng.random() < 0.5:
                g = shuffled(rng, g)
            fmt = "j" if i % 3 == 1 else "x"
            data = json_text(g) if fmt == "j" else yanggen.to_xml(g)
            if data is None:
                fmt, data = "x", yanggen.to_xml(g)
            cmds = [("mod", hexs(m.yang())), ("parse", "t0", fmt, PARSE_ONLY | PARSE_STRICT, 0, hexs(data)), ("dump", "t0", 1),
                    ("val", "t0", 0, "m"),
                    # the same tree with LYD_VALIDATE_MULTI_ERROR: the last logged error is the last one of impl_validate_multi
                    ("parse", "t1", fmt, PARSE_ONLY | PARSE_STRICT, 0, hexs(data)), ("val", "t1", VAL_MULTI, "m")]
            if not exp and rng.random() < 0.6:
                cmds += self.edits(rng, m, ig, f) + [("dump", "t0", 1), ("val", "t0", 0, "m"), ("dump", "t0", 1)]
            pre.append((m, cmds, exp))
        outs = stage1([vline([], c) for _, c, _ in pre])
        L = []
        for (m, cmds, exp), out in zip(pre, outs):
            r = out.split(" | ")
            if len(r) != len(cmds) or r[0] != "0" or r[1] != "0":
                continue                    # module or document rejected by the parser: not a case for the model
            dumps = [x for c, x in zip(cmds, r) if c[0] == "dump"]
            fields = validenc.fields(m) + ["#e " + ("*" if exp == {"*"} else (",".join(sorted(exp)) or "-"))] + \
                ["#d " + d for d in dumps[:2]] + ["#a " + d for d in dumps[2:]]
            L.append(vline(fields, cmds))
        return L

    @staticmethod
    def parts(line, out):
        """normalised items of an answer"""
        fields = line.split("\t")[1:]
        exp = next(x[3:] for x in fields if x.startswith("#e "))
        star = exp == "*"               # no expectation by construction for the first tree (a history)
        exp = set() if exp in ("-", "*") else set(exp.split(","))
        items = []
        if out.startswith("0 | ") or out.startswith("E") and " | " in out:
            # implementation (the first result is the one of mod)
            cmds = [x for x in fields if not x.startswith("#")]
            r = out.split(" | ")
            if len(r) != len(cmds):
                return ["protocol:" + out[:100]]
            k = 0
            for c, x in zip(cmds, r):
                if c.startswith("val "):
                    cls = vclass(x)
                    # (multi-error mode: libyang reports the LAST logged error; the model side prints the last error of
                    #  impl_validate_multi for such a run)
                    items.append("%s:%d:%s" % (cls, 1 if cls == "0" else 0, ",".join(sorted(exp)) if (k == 0 and not star) else "*"))
                    k += 1
            return items
        its = out.split(" | ")
        after = [x for x in its if x.startswith("A:")]
        for k, it in enumerate([x for x in its if not x.startswith("A:")]):
            p = it.split(":")
            if len(p) != 6:
                return ["model:" + out[:100]]
            v, ok, rules, placed, wf, mlast = p
            if (mlast == "0") != (v == "0"):
                return ["theorem-C02_multi_error_verdict-contradicted"]
            cls = sorted({RULE_CLASS[c] for c in rules if c in RULE_CLASS})
            if k == 0 and placed != "1":
                items.append("not-placed")
            elif wf[0] != "1":
                items.append("vschema-not-ok")
            elif k == 0 and wf[0] == "1" and wf[2] == "1" and (v == "0") != (ok == "1"):
                items.append("theorem-C02_validate_iff_rfc_partial-contradicted")
            elif wf[0] == "1" and wf[1] == "1" and (v == "0") != (ok == "1"):
                items.append("theorem-C02_history_iff_rfc_partial-contradicted")
            elif k == 0 and star:
                # a history: the verdict; the RFC verdict of the content is what the history theorem speaks about (hist_ok)
                multi = any(x.startswith("val ") and x.split(" ")[2] == str(VAL_MULTI) for x in fields)
                items.append("%s:%d:*" % (mlast if multi else v, 1 if v == "0" else 0))
            elif k == 0:
                items.append("%s:%s:%s" % (v, ok, ",".join(cls)))
                if any(x.startswith("val t1 %d" % VAL_MULTI) for x in fields):
                    items.append("%s:%d:*" % (mlast, 1 if v == "0" else 0))
            else:
                # edited tree: accepted -> the resulting tree must be RFC-valid; rejected -> the tree before must be invalid
                ra = after[0].split(":")[1] if after else "?"
                good = (v == "0" and ra == "1") or (v != "0" and ok == "0")
                items.append("%s:%d:*" % (v, 1 if v == "0" else 0) if good else "%s:rfc-before=%s-after=%s:*" % (v, ok, ra))
        return items

    def norm(self, line, out):
        return " | ".join(self.parts(line, out))

    def witness(self, line, model_out, impl_out):
        """does the PROPERTY fail on the implementation for this case"""
        if impl_out.startswith("CRASH(") or impl_out == "TIMEOUT":
            return (None, "crash: " + impl_out)
        mi, ii = self.parts(line, model_out), self.parts(line, impl_out)
        fields = line.split("\t")[1:]
        raw = [x for x in model_out.split(" | ") if not x.startswith("A:")]
        after = [x for x in model_out.split(" | ") if x.startswith("A:")]
        for k, (a, b) in enumerate(zip(mi, ii)):
            if a == b:
                continue
            pa, pb = a.split(":"), b.split(":")
            if len(pa) != 3 or len(pb) != 3:
                return None
            if pa[0] != pb[0] and k < len(raw) and len(raw[k].split(":")) == 6:
                # the model of the code and the code disagree: is it the code that departs from the RFC verdict?
                rb = raw[k].split(":")[1]
                ra = after[0].split(":")[1] if (k > 0 and after) else rb
                if pb[0] == "0" and (ra if k > 0 else rb) == "0":
                    return (None, "validation accepted a tree that violates RFC 7950 (the model of the unchanged code "
                                  "answers %s)" % pa[0])
                if pb[0] != "0" and rb == "1":
                    return (None, "validation rejected (%s) a tree that satisfies every modelled RFC 7950 rule" % pb[0])
                if pb[0] != "0" and pa[0] != "0" and k == 0 and len(pa[2].split(",")) == 1:
                    return (None, "error class %s, the only violated rule class is %s" % (pb[0], pa[2]))
                return None
            if pa[0] == pb[0]:
                # the model of the code agrees with the code: the disagreement is with the RFC verdict
                if pb[0] == "dupcase" and pa[1] == "1" and k == 0 and re.search(r":i:dn", impl_out.split(" | ")[2]):
                    return ("empty-np-container-dupcase", "an explicit empty non-presence container counted as data of its case")
                if pb[0] == "0":
                    return (None, "validation accepted an instance that violates RFC 7950 (%s)" % model_out[-80:])
                if pb[0] != "0":
                    return (None, "validation rejected (%s) an instance that satisfies every modelled RFC 7950 rule" % pb[0])
            return None
        return None


def strip_state(forest):
    """the configuration part of an instance: the nodes whose schema node is (effectively) config true"""
    out = []
    for n in forest:
        if not validenc._cfg(n.schema):
            continue
        c = n.clone()
        c.children = strip_state(c.children)
        out.append(c)
    return out


class ConfigModel(Comp):
    """lyd_validate_module with LYD_VALIDATE_NO_STATE on parse-only trees vs ValidateImpl.impl_parse_validate_config /
    RfcValid.rfc_valid_config (theorem C02_config_validate_iff_rfc_partial): valid instances of modules with config false
    nodes as they are (state data present), their configuration part, and the configuration part after 1-3 mutations.
    Cases outside the hypotheses of the theorem (configuration view not well formed, a mandatory choice below a config
    false node, a tree that is not fresh) are dropped at generation time by asking the model."""
    name = "configmodel"
    driver = "t_valid"
    slice = "valid"

    def gen(self, rng, tier, scale=1.0):
        pre = []
        for i in range(self.n(tier, 500, 8000, scale)):
            m, ig = valid_case(rng, userord=(i % 3 == 0), state=True)
            ig.max_inst = 4
            if i % 3 != 2:
                # more config false nodes (a module the compiler then refuses is dropped below)
                cands = [n for n in m.all_nodes() if validenc._cfg(n) and n.kind in ("leaf", "leaf-list", "container", "list")
                         and not getattr(n, "is_key", False)]
                for n in rng.sample(cands, min(len(cands), rng.choice([1, 1, 2]))):
                    n.config = False
            if i % 2 == 0:
                # constraints ON config false nodes (what the option switches off): mandatory, min-elements
                for n in m.all_nodes():
                    if validenc._cfg(n):
                        continue
                    if n.kind == "leaf" and not n.is_key and n.default is None and rng.random() < 0.4:
                        n.mandatory = True
                    elif n.kind in ("leaf-list", "list") and not n.minel and not getattr(n, "defaults", None) and \
                            (n.maxel is None or n.maxel >= 1) and rng.random() < 0.3:
                        n.minel = 1
                if not validenc.supported(m):
                    continue
            f = valid_instance(rng, m, ig)
            if f is None:
                continue
            if i % 4 == 1:
                g = clone_forest(f)
            else:
                g = strip_state(f)
                for _ in range(rng.choice([0, 0, 1, 1, 2, 3]) if i % 4 else 0):
                    rng.choice(MODEL_MUTS)(rng, m, ig, g)
            if i % 8 == 5:
                rng.choice(MODEL_MUTS)(rng, m, ig, g)
            if rng.random() < 0.5:
                g = shuffled(rng, g)
            cmds = [("mod", hexs(m.yang())), ("parse", "t0", "x", PARSE_ONLY | PARSE_STRICT, 0, hexs(yanggen.to_xml(g))),
                    ("dump", "t0", 1), ("val", "t0", VAL_NO_STATE, "m")]
            pre.append((m, cmds))
        outs = stage1([vline([], c) for _, c in pre])
        L = []
        for (m, cmds), out in zip(pre, outs):
            r = out.split(" | ")
            if len(r) != len(cmds) or r[0] != "0" or r[1] != "0":
                continue                    # module or document rejected by the parser: not a case for the model
            L.append(vline(validenc.fields(m) + ["#N 1", "#d " + r[2]], cmds))
        mexe = vlib.build_model("valid")
        mouts, _ = vlib.run_sharded(mexe, L, timeout=600)
        return [l for l, o in zip(L, mouts) if o.startswith("N:") and o.endswith(":111")]

    @staticmethod
    def parts(line, out):
        if out.startswith("N:"):
            p = out.split(":")
            if len(p) != 4:
                return ["model:" + out[:100]]
            if p[3] != "111":
                return ["outside-hypotheses:" + p[3]]
            if (p[1] == "0") != (p[2] == "1"):
                return ["theorem-C02_config_validate_iff_rfc_partial-contradicted"]
            return [p[1]]
        r = out.split(" | ")
        if len(r) != 4:
            return ["protocol:" + out[:100]]
        return [vclass(r[3])]

    def norm(self, line, out):
        return " | ".join(self.parts(line, out))

    def witness(self, line, model_out, impl_out):
        if impl_out.startswith("CRASH(") or impl_out == "TIMEOUT":
            return (None, "crash: " + impl_out)
        mi, ii = self.parts(line, model_out), self.parts(line, impl_out)
        if len(mi) == 1 and len(ii) == 1 and mi != ii and model_out.startswith("N:"):
            ok = model_out.split(":")[2]
            if ii[0] == "0" and ok == "0":
                return (None, "validation of configuration only (LYD_VALIDATE_NO_STATE) accepted a tree that is not a "
                              "valid configuration (the model of the unchanged code answers %s)" % mi[0])
            if ii[0] != "0" and ok == "1":
                return (None, "validation of configuration only (LYD_VALIDATE_NO_STATE) rejected (%s) a valid configuration" % ii[0])
        return None


class IdrefModel(Comp):
    """identityref_check_base / lyplg_type_identity_isderived vs ValidateImpl.idref_check: random acyclic identity
    hierarchies over two modules, an identityref leaf with 1-3 bases, every identity as the value"""
    name = "idrefmodel"
    driver = "t_valid"
    slice = "valid"

    def gen(self, rng, tier, scale=1.0):
        L = []
        for i in range(self.n(tier, 60, 1500, scale)):
            n = rng.randrange(3, 9)
            split = rng.randrange(1, n + 1)                     # identities below split live in the imported module
            edges = sorted({(rng.randrange(0, d), d) for d in range(1, n) for _ in range(rng.choice([0, 1, 1, 2, 3]))})
            name = lambda k, here: ("mi:" if (k < split and here != "mi") else "") + "i%d" % k      # noqa: E731
            mi = 'module mi { yang-version 1.1; namespace "urn:verif:mi"; prefix mi;\n'
            m1 = 'module m1 { yang-version 1.1; namespace "urn:verif:m1"; prefix m1; import mi { prefix mi; }\n'
            for k in range(n):
                bases = "".join(" base %s;" % name(b, "mi" if k < split else "m1") for b, d in edges if d == k)
                if k < split:
                    mi += "  identity i%d {%s }\n" % (k, bases)
                else:
                    m1 += "  identity i%d {%s }\n" % (k, bases)
            tb = sorted(rng.sample(range(n), min(n, rng.choice([1, 1, 2, 2, 3]))))
            if rng.random() < 0.6:
                # bases taken from the ancestors of one identity: some values are derived from all of them
                anc, todo = set(), [rng.randrange(n)]
                while todo:
                    x = todo.pop()
                    for b, d in edges:
                        if d == x and b not in anc:
                            anc.add(b)
                            todo.append(b)
                if anc:
                    tb = sorted(rng.sample(sorted(anc), min(len(anc), rng.choice([1, 2, 2, 3]))))
            m1 += "  leaf x { type identityref {%s } }\n}\n" % "".join(" base %s;" % name(b, "m1") for b in tb)
            mi += "}\n"
            for v in range(n):
                val = ("mi:i%d" % v) if v < split else "i%d" % v
                x = '<x xmlns="urn:verif:m1" xmlns:mi="urn:verif:mi">%s</x>' % val
                spec = "#I %s %s %d" % (",".join("%d>%d" % e for e in edges) or "-", "+".join(str(b) for b in tb), v)
                cmds = [("mod", hexs(mi), CTX_NO_YANGLIBRARY), ("mod", hexs(m1)), ("parse", "t0", "x", PARSE_STRICT, 0, hexs(x))]
                L.append(vline([spec], cmds))
        return L

    def norm(self, line, out):
        if out.startswith("I:"):
            return out
        r = out.split(" | ")
        if len(r) != 3 or r[0] != "0" or r[1] != "0":
            return "setup:" + out[:80]
        c = vclass(r[2])
        return "I:1" if c == "0" else ("I:0" if c == "type" else "I:" + c)

    def witness(self, line, model_out, impl_out):
        return (None, "identityref: libyang %s, derived-from-all-bases says %s" % (self.norm(line, impl_out), model_out))


def _json_nodes(g):
    """number of nodes when the forest can be written as JSON (no second instance of a leaf / container: an object has
    one member per name), else -1"""
    n = 0
    seen = set()
    for d in g:
        if d.schema.kind in ("leaf", "container"):
            if id(d.schema) in seen:
                return -1
            seen.add(id(d.schema))
        k = _json_nodes(d.children)
        if k < 0:
            return -1
        n += 1 + k
    return n


def json_text(g):
    if _json_nodes(g) != yanggen.count_nodes(g):
        return None
    try:
        return yanggen.to_json(g)
    except ValueError:
        return None             # e.g. a mutated value that is not a number


# ------------------------------------------------------------------------------------------------
# oracle: every route gives the verdict expected by construction
# ------------------------------------------------------------------------------------------------
EXTRA_YANG = """
  container vx {
    leaf-list tl { type string; }
    leaf lr { type leafref { path "../tl"; } }
    leaf a { type int8; }
    leaf b { type int8; must "../a < ."; }
    leaf w { when "../a = 1"; type string; }
    leaf ii { type instance-identifier; }
  }
  feature fx;
  leaf ff { if-feature fx; type string; }
"""


def extra_xml(kind):
    """content of container vx: valid, or violating one XPath-dependent rule"""
    tl = "<tl>t1</tl><tl>t2</tl>"
    lr, a, b, w, ii = "t2", "1", "5", "x", "/m1:vx/m1:a"
    if kind == "leafref":
        lr = "t3"
    elif kind == "must":
        b = "0"
    elif kind == "when":
        a = "2"
    elif kind == "instid":
        ii = "/m1:vx/m1:tl[.='zz']"
    return ('<vx xmlns="urn:verif:m1">%s<lr>%s</lr><a>%s</a><b>%s</b><w>%s</w><ii xmlns:m1="urn:verif:m1">%s</ii></vx>%s'
            % (tl, lr, a, b, w, ii, '<ff xmlns="urn:verif:m1">x</ff>' if kind == "iffeature" else ""))


def extra_json(kind):
    lr, a, b, w, ii = "t2", 1, 5, "x", "/m1:vx/a"
    if kind == "leafref":
        lr = "t3"
    elif kind == "must":
        b = 0
    elif kind == "when":
        a = 2
    elif kind == "instid":
        ii = "/m1:vx/tl[.='zz']"
    import json
    o = {"m1:vx": {"tl": ["t1", "t2"], "lr": lr, "a": a, "b": b, "w": w, "ii": ii}}
    if kind == "iffeature":
        o["m1:ff"] = "x"
    return json.dumps(o)


EXTRA_CLASS = {"leafref": "noinst", "must": "nomust", "when": "nowhen", "instid": "noinst", "iffeature": "unknown"}


def extra_case(ymod, x, j, cls):
    """XML / JSON, parse with validation / parse-only + validate, and LYB printed from the parse-only tree"""
    cmds = [("mod", hexs(ymod), CTX_NO_YANGLIBRARY),
            ("parse", "t0", "x", PARSE_STRICT, 0, hexs(x)),
            ("parse", "t1", "j", PARSE_STRICT, 0, hexs(j)),
            ("parse", "t3", "x", PARSE_ONLY | PARSE_STRICT, 0, hexs(x)), ("val", "t3", 0, "m"),
            ("parse", "t4", "j", PARSE_ONLY | PARSE_STRICT, 0, hexs(j)), ("val", "t4", 0, "m")]
    routes = ["v", "v", "pv", "pv"]
    cmds += [("parse", "t10", "j", PARSE_STRICT, VAL_MULTI, hexs(j)),
             ("parse", "t11", "x", PARSE_ONLY | PARSE_STRICT, 0, hexs(x)), ("val", "t11", VAL_MULTI, "m"),
             ("parse", "t12", "j", PARSE_ONLY | PARSE_STRICT, 0, hexs(j)), ("val", "t12", VAL_MULTI)]
    routes += ["Av", "Apv", "Apv"]
    if cls != "unknown":
        cmds += [("parse", "t8", "x", PARSE_ONLY | PARSE_STRICT, 0, hexs(x)), ("rt", "t8", "t9", "b", 0, PARSE_STRICT, 0)]
        routes.append("L2")
    return vline(["#x " + cls, "#r " + ",".join(routes)], cmds)


# when on a choice and on a case (inherited by the data nodes below, lysc_has_when()); a must of another node that reads
# a node under such a when (the parser has to evaluate the when first)
WHEN_CHOICE_YANG = """module m1 { yang-version 1.1; namespace "urn:verif:m1"; prefix m1;
  container wx {
    leaf sel { type int8; }
    choice wc { when "sel = 1 or sel = 4";
      case ca { leaf wa { type string; } container wn { leaf wi { type string; } } }
      case cb { leaf wb { type string; } } }
    choice wd {
      case cc { when "sel = 2 or sel = 4"; leaf wcl { type string; } leaf-list wll { type string; } }
      case cd { leaf wdl { type string; } } }
    list wl { key k; leaf k { type string; }
      choice we { when "k != 'off'"; case e1 { leaf w1 { type string; } } } }
    leaf mz { type string; must "not(../wa) or ../wa = 'x'"; }
  }
}"""


def when_choice_instances():
    """(xml, json, expected class)"""
    import json
    out = []
    for sel, body, cls in (
            (1, {"wa": "x", "mz": "m"}, "0"), (3, {"wa": "x"}, "nowhen"), (1, {"wn": {"wi": "i"}}, "0"),
            (2, {"wn": {"wi": "i"}}, "nowhen"), (1, {"wb": "b"}, "0"), (0, {"wb": "b"}, "nowhen"),
            (2, {"wcl": "c"}, "0"), (1, {"wcl": "c"}, "nowhen"), (4, {"wa": "x", "wll": ["p", "q"], "mz": "m"}, "0"),
            (3, {"wll": ["p"]}, "nowhen"), (3, {"wdl": "d", "mz": "m"}, "0"),
            (3, {"wl": [{"k": "on", "w1": "1"}, {"k": "on2"}]}, "0"), (3, {"wl": [{"k": "on", "w1": "1"}, {"k": "off", "w1": "2"}]}, "nowhen")):
        def xml(o):
            r = ""
            for k, v in o.items():
                for it in (v if isinstance(v, list) else [v]):
                    r += "<%s>%s</%s>" % (k, xml(it) if isinstance(it, dict) else it, k)
            return r
        o = {"sel": sel}
        o.update(body)
        out.append(('<wx xmlns="urn:verif:m1">%s</wx>' % xml(o), json.dumps({"m1:wx": o}), cls))
    return out


# lyd_validate_duplicates() through the children hash table: values of one leaf-list whose node hashes (lyd_hash():
# lyht_hash_multi over module name, node name, value, then the finishing round) are EQUAL although the values differ
def _hm(h, key):
    if key:
        for c in key:
            h = (h + c) & 0xffffffff
            h = (h + (h << 10)) & 0xffffffff
            h ^= h >> 6
    else:
        h = (h + (h << 3)) & 0xffffffff
        h ^= h >> 11
        h = (h + (h << 15)) & 0xffffffff
    return h


def node_hash(mod, name, val):
    return _hm(_hm(_hm(_hm(0, mod.encode()), name.encode()), val.encode()), None)


COLLIDE = [("kwsf", "kwxa"), ("kwsg", "kwxb"), ("kwsh", "kwxc")]        # for module m1, leaf-list ll
COLLIDE_YANG = """module m1 { yang-version 1.1; namespace "urn:verif:m1"; prefix m1;
  container c { leaf-list ll { type string; ordered-by user; } leaf a { type string; } leaf b { type string; }
    leaf d { type string; } list l { key k; ordered-by user; leaf k { type string; } } } }"""


def collision_cases():
    """leaf-list instances (and list keys) with colliding hashes below a parent that has a children hash table, a duplicate
    placed before / between / after the colliding value"""
    L = []
    for x, y in COLLIDE:
        if node_hash("m1", "ll", x) != node_hash("m1", "ll", y):
            continue
        for vals, cls in (([x, y], None), ([x, y, y], "dup"), ([y, x, y], "dup"), ([y, y, x], "dup"), ([x, y, x], "dup"),
                          ([x, x, y], "dup")):
            xml = '<c xmlns="urn:verif:m1">%s<a>1</a><b>2</b><d>3</d></c>' % "".join("<ll>%s</ll>" % v for v in vals)
            cmds = [("mod", hexs(COLLIDE_YANG), CTX_NO_YANGLIBRARY),
                    ("parse", "t0", "x", PARSE_STRICT, 0, hexs(xml)),
                    ("parse", "t3", "x", PARSE_ONLY | PARSE_STRICT, 0, hexs(xml)), ("val", "t3", 0, "m")]
            L.append(vline(["#x " + (cls or "0"), "#r v,pv"], cmds))
    return L


# witnesses of fixed findings, kept as regression cases: (commands after mod, expected class of the last command)
REGRESSIONS = {
    "moved-node-dup-unchecked": "valid\tmod 6d6f64756c65206d31207b2079616e672d76657273696f6e20312e313b206e616d657370616365202275726e3a76657269663a6d31223b20707265666978206d313b206c697374206c207b206b6579206b3b206c656166206b207b207479706520737472696e673b207d206c6561662061207b207479706520737472696e673b207d207d207d 4\tparse t0 x 131072 0 3c6c20786d6c6e733d2275726e3a76657269663a6d31223e3c6b3e313c2f6b3e3c613e41313c2f613e3c2f6c3e3c6c20786d6c6e733d2275726e3a76657269663a6d31223e3c6b3e323c2f6b3e3c613e41323c2f613e3c2f6c3e\tmove t0 2f6d313a6c5b6b3d2731275d2f61 2f6d313a6c5b6b3d2732275d2f6b s\tval t0 0 m\tdump t0 1",
    "unique-default-not-in-use": "valid\tmod 6d6f64756c65206d31207b2079616e672d76657273696f6e20312e313b206e616d657370616365202275726e3a76657269663a6d31223b20707265666978206d313b206c697374206c207b206b6579206b3b20756e697175652022702f78223b206c656166206b207b207479706520737472696e673b207d20636f6e7461696e65722070207b2070726573656e6365202270223b206c6561662078207b207479706520737472696e673b2064656661756c74202264223b207d207d207d207d 4\tparse t0 x 131072 0 3c6c20786d6c6e733d2275726e3a76657269663a6d31223e3c6b3e313c2f6b3e3c2f6c3e3c6c20786d6c6e733d2275726e3a76657269663a6d31223e3c6b3e323c2f6b3e3c2f6c3e",
    "stale-nested-default-case": "valid\tmod 6d6f64756c65206d31207b2079616e672d76657273696f6e20312e313b206e616d657370616365202275726e3a76657269663a6d31223b20707265666978206d313b0a20636f6e7461696e657220746f70207b2063686f696365206368207b206d616e6461746f727920747275653b0a202020636173652061207b206c6561662078207b207479706520737472696e673b207d2063686f69636520696e6e6572207b2064656661756c742064313b2063617365206431207b206c6561662079207b207479706520737472696e673b2064656661756c74202235223b207d207d2063617365206432207b206c6561662077207b207479706520737472696e673b207d207d207d207d0a202020636173652062207b206c656166207a207b207479706520737472696e673b207d207d207d206c656166206b656570207b207479706520737472696e673b207d207d207d 4\tparse t0 x 131072 0 3c746f7020786d6c6e733d2275726e3a76657269663a6d31223e3c783e313c2f783e3c6b6565703e6b3c2f6b6565703e3c2f746f703e\tfreepath t0 2f6d313a746f702f78\tval t0 0 m\tdump t0 1"
}


def regression_cases():
    """moved-node-dup-unchecked (06232b2): a validated leaf moved into a list entry that has that leaf -> duplicate;
    unique-default-not-in-use (ba1198e): two entries without the presence container on the unique path -> valid;
    stale-nested-default-case (357db45): the last explicit node of a case freed, a default of a nested default case
    must not satisfy the outer mandatory choice -> missing-choice"""
    L = []
    for tag, exp in (("moved-node-dup-unchecked", "dup"), ("unique-default-not-in-use", "0"),
                     ("stale-nested-default-case", "nomandchoice")):
        cmds = [c for c in REGRESSIONS[tag].split("\t")[1:] if not c.startswith("dump ")]
        L.append("valid\t#x %s\t#r R%d\t%s" % (exp, len(cmds) - 1, "\t".join(cmds)))
    return L


class ValidMut(Oracle):
    """C02: a valid instance is accepted and a single-rule mutation of it is rejected with the class (LY_EVALID, LYVE_DATA,
    RFC 7950 section 15 app-tag, message class) expected by construction, on every route: XML / JSON, canonical /
    shuffled sibling order, parse with validation / parse-only + lyd_validate_module / lyd_new_path + validation / (for
    the deleting mutations) lyd_free_tree on the validated valid instance + validation; plus leaf-list values whose node
    hashes collide below a parent with a children hash table; every case also with LYD_VALIDATE_MULTI_ERROR on each
    entry point (accept / reject must not change; half of the modules have trailing leaves with a when); histories: a
    node added by lyd_new_term / lyd_new_list2 to the validated valid tree (duplicate, also in another lexical form, or
    a fresh value as control), then lyd_validate_all / lyd_validate_module; families: implicit nodes under nested
    choices (nested_family), a case that starts with implicit defaults and is selected by a later sibling
    (lead_default_family), several unique statements (unique_family), type restrictions of every built-in type incl.
    identityref with 1-3 bases over an identity hierarchy in two modules, enums / bits under if-feature, union
    fall-through, leafref / instance-identifier with and without require-instance (type_family_cases)."""
    name = "validmut"
    driver = "t_valid"

    def gen(self, rng, tier, scale=1.0):
        L = []
        muts = MODEL_MUTS + PARSER_MUTS
        for i in range(self.n(tier, 800, 12000, scale)):
            m, ig = valid_case(rng, userord=(i % 3 == 0), state=(i % 4 != 1))
            if i % 2:
                add_when_leaves(rng, m)
            f = valid_instance(rng, m, ig)
            if f is None:
                continue
            for _ in range(2):
                h = history_case(rng, m, ig, f)
                if h:
                    L.append(h)
            todo = [(None, f)]
            order = list(muts)
            rng.shuffle(order)
            for mu in order[:6] + ([mut_unique_partial] if mut_unique_partial not in order[:6] else []):
                for _ in range(3):
                    g = clone_forest(f)
                    cls = mu(rng, m, ig, g)
                    if cls is None:
                        break
                    v = validenc.py_violations(m, g)
                    if cls == "type":
                        v = v | {"type"}
                    if v == {cls}:
                        todo.append((cls, g))
                        break
            for cls, g in todo:
                L.append(self.case(rng, m, g, cls, f0=f))
        # lists with several unique statements, incomplete sets, defaults, 2..6 entries
        for i in range(self.n(tier, 150, 3000, scale)):
            m, g = unique_family(rng)
            v = validenc.py_violations(m, g)
            L.append(self.case(rng, m, g, "nouniq" if v else None))
        # implicit nodes under nested choices decide must / leafref / when / mandatory
        for i in range(self.n(tier, 250, 4000, scale)):
            m, g, exp = nested_family(rng, xpath=(i % 5 != 0))
            L.append(self.case(rng, m, g, "+".join(sorted(exp)) if exp else None))
        # a case that starts with implicit defaults and is selected by a later sibling
        for i in range(self.n(tier, 250, 4000, scale)):
            m, g = lead_default_family(rng)
            v = validenc.py_violations(m, g)
            L.append(self.case(rng, m, g, "+".join(sorted(v)) if v else None))
        L += type_family_cases()
        # XPath-dependent rules (not in the Coq models): fixed extra modules
        ymod = 'module m1 { yang-version 1.1; namespace "urn:verif:m1"; prefix m1;%s}' % EXTRA_YANG
        for kind in (None, "leafref", "must", "when", "instid", "iffeature"):
            L.append(extra_case(ymod, extra_xml(kind), extra_json(kind), EXTRA_CLASS[kind] if kind else "0"))
        for xml, js, cls in when_choice_instances():
            L.append(extra_case(WHEN_CHOICE_YANG, xml, js, cls))
        return L + collision_cases() + regression_cases()

    def case(self, rng, m, g, cls, f0=None):
        sh = shuffled(rng, g)
        x, xs = yanggen.to_xml(g), yanggen.to_xml(sh)
        sj = shuffled(rng, g, keep_keys=False)
        j, js = json_text(g), json_text(sj)
        cmds = [("mod", hexs(m.yang()), CTX_NO_YANGLIBRARY)]
        routes = []
        cmds.append(("parse", "t0", "x", PARSE_STRICT, 0, hexs(x)))
        routes.append("v")
        cmds.append(("parse", "t2", "x", PARSE_STRICT, 0, hexs(xs)))
        routes.append("v")
        cmds += [("parse", "t3", "x", PARSE_ONLY | PARSE_STRICT, 0, hexs(x)), ("val", "t3", 0, "m")]
        routes.append("pv")
        if j is not None and js is not None and cls != "type":      # the JSON encoder maps some invalid texts to valid values
            cmds.append(("parse", "t1", "j", PARSE_STRICT, 0, hexs(j)))
            routes.append("v")
            cmds += [("parse", "t4", "j", PARSE_ONLY | PARSE_STRICT, 0, hexs(js)), ("val", "t4", 0, "m")]
            routes.append("pv")
        # LYD_VALIDATE_MULTI_ERROR must not change accept / reject, on any entry point
        cmds.append(("parse", "t10", "x", PARSE_STRICT, VAL_MULTI, hexs(xs)))
        routes.append("Av")
        cmds += [("parse", "t11", "x", PARSE_ONLY | PARSE_STRICT, 0, hexs(x)), ("val", "t11", VAL_MULTI, "m")]
        routes.append("Apv")
        cmds += [("parse", "t12", "x", PARSE_ONLY | PARSE_STRICT, 0, hexs(xs)), ("val", "t12", VAL_MULTI)]
        routes.append("Apv")
        if cls not in ("type", "nokey"):
            # LYB as the source format: the parse-only tree printed as LYB, parsed with validation
            cmds += [("parse", "t8", "x", PARSE_ONLY | PARSE_STRICT, 0, hexs(x)), ("rt", "t8", "t9", "b", 0, PARSE_STRICT, 0)]
            routes.append("L2")
        if cls is None:
            # config/state placement: state data is refused when the caller asks for configuration only
            exp_state = "state" if any(not validenc._cfg(n.schema) for n, _, _ in yanggen.walk(g)) else "0"
            cmds.append(("parse", "t7", "x", PARSE_STRICT | PARSE_NO_STATE, 0, hexs(x)))
            routes.append("V" + exp_state)
            cmds += [("parse", "t7", "x", PARSE_ONLY | PARSE_STRICT, 0, hexs(x)), ("val", "t7", VAL_NO_STATE, "m")]
            routes.append("P" + exp_state)
        if cls in ("nomand", "nomandchoice", "nomin") and f0 is not None:
            # the same mutation as API edits of the VALIDATED valid instance (implicit defaults are in the tree by then)
            rem = removed_paths(f0, g)
            if rem:
                cmds.append(("parse", "t6", "x", PARSE_STRICT, 0, hexs(yanggen.to_xml(f0))))
                for pth in rem:
                    cmds.append(("freepath", "t6", hexs(pth)))
                cmds.append(("val", "t6", 0, "m"))
                routes.append("e%d" % len(rem))
        items = creation_items(g)
        if items and cls not in ("dup", "nokey"):
            it = list(items)
            rng.shuffle(it)
            for p, v in it:
                cmds.append(("newpath", "t5", NEWPATH_UPDATE, hexs(p), hexs(v) if v is not None else "~"))
            cmds.append(("val", "t5", 0, "m"))
            routes.append("n%d" % len(it))
        return vline(["#x " + (cls or "0"), "#r " + ",".join(routes)], cmds)

    def judge(self, line, out):
        if crashed(out):
            return (None, "crash: " + out)
        fields = line.split("\t")[1:]
        exp = next(x[3:] for x in fields if x.startswith("#x "))
        routes = next(x[3:] for x in fields if x.startswith("#r ")).split(",")
        r = out.split(" | ")
        if r[0] != "0":
            return None                 # module rejected
        k = 1
        exp0 = exp
        for rt in routes:
            exp = exp0
            accept_only = False
            if rt[0] == "A":
                accept_only, rt = True, rt[1:]
            if rt[0] in "VP":
                exp, rt = rt[1:], ("v" if rt[0] == "V" else "pv")
            if rt == "v":
                got = vclass(r[k])
                k += 1
            elif rt == "pv":
                got = vclass(r[k])
                if got == "0":
                    got = vclass(r[k + 1])
                k += 2
            elif rt[0] == "L":
                # LYB printed from a parse-only tree and parsed with validation
                n = int(rt[1:])
                got = vclass(r[k + n - 1]) if all(x == "0" for x in r[k:k + n - 1]) else "setup:" + "|".join(r[k:k + n - 1])
                k += n
                if re.fullmatch(r"P\d+", r[k - 1]):
                    got = exp           # the LYB printer gave up (C01 lyb-hash-collision)
                if got == "0" and exp == "nowhen":
                    return ("lyb-when-not-evaluated", "LYB parsed with validation: a node whose when is false is accepted")
                if got == "other!rc=9/vecode=0" and exp == "0":
                    return ("lyb-when-not-evaluated", "LYB parsed with validation: LY_EINCOMPLETE without a message, a must reads a "
                                                      "node whose when was never evaluated")
            elif rt[0] == "S":
                # setup commands (a further module): must answer 0, not judged
                n = int(rt[1:])
                got = exp if all(x == "0" for x in r[k:k + n]) else "setup:" + "|".join(r[k:k + n])
                k += n
            elif rt[0] == "H":
                # history: n commands, the last one is the validation; a step that cannot be made is not judged
                n = int(rt[1:])
                got = vclass(r[k + n - 1]) if all(x == "0" for x in r[k:k + n - 1]) else exp
                if got in ("dup", "nomax") and exp in ("dup", "nomax"):
                    got = exp           # (with LYD_VALIDATE_MULTI_ERROR the last logged error is reported)
                k += n
            elif rt[0] == "R":
                # n commands: all but the last answer 0, the class of the last one is judged
                n = int(rt[1:])
                got = vclass(r[k + n - 1]) if all(x == "0" for x in r[k:k + n - 1]) else "setup:" + "|".join(r[k:k + n - 1])
                if re.fullmatch(r"P\d+", r[k + n - 1]):
                    got = exp           # the LYB printer gave up (sibling names colliding on every LYB hash: C01 lyb-hash-collision)
                k += n
            elif rt[0] == "e":
                n = int(rt[1:])
                if vclass(r[k]) != "0" or any(x != "0" for x in r[k + 1:k + 1 + n]):
                    got = exp           # the valid instance was not accepted / a node was not found: judged by the other routes
                else:
                    got = vclass(r[k + 1 + n])
                k += n + 2
            else:
                n = int(rt[1:])
                got = "0"
                for x in r[k:k + n]:
                    if not x.startswith("0"):
                        got = vclass(x)
                        break
                if got == "0":
                    got = vclass(r[k + n])
                k += n + 1
                if got.split("!")[0] == "other":
                    got = exp           # lyd_new_path refuses some invalid constructions with its own errors
            if exp == "type" and got != "0" and "!rc" not in got and got.split("!")[0] in ("other", "noinst", "type"):
                got = exp               # a value outside the value space: LY_EVALID / LYVE_DATA, the message wording varies
            if "+" in exp and got in exp.split("+"):
                got = exp               # several rules violated: the first one found is reported
            if accept_only and (got == "0") == (exp == "0") and not got.startswith("other"):
                got = exp               # multi-error mode: the last logged error may be another one of the same instance
            if got != exp:
                if got == "noinst!rc=5/vecode=9" and exp == "noinst":
                    return ("instid-notfound-rc", "instance-identifier without target: return code LY_ENOTFOUND instead of LY_EVALID")
                if exp == "0":
                    return (None, "route %s rejected (%s) an instance that is valid by construction" % (rt, got))
                if got == "0":
                    return (None, "route %s accepted an instance that violates exactly the rule %s" % (rt, exp))
                return (None, "route %s: error class %s, expected %s by construction" % (rt, got, exp))
        return None
