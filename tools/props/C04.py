"""C04 - the data tree stays canonical and searchable under any edit history"""
from props import oracles

PID = "C04"
LEVEL = "exploration"


def components():
    return []


def oracles_():
    return [oracles.EditHistory()]


MANIFEST = {
    "category": "exploration",
    "text": "Random edit histories through the public API with a read-only invariant checker after EVERY call (links, schema order, "
            "contiguity, sortedness by the type's order, children hash table content, every search = scan), print/parse fixpoint, "
            "and creation-order independence.",
    "note": "Testing only so far; the hash-table refinement proof (slice ht) and the sorted-insertion/red-black proofs are in progress.",
    "technique": "randomised edit histories + white-box invariant checker (proofs of the index structures in progress)",
}
