"""C04 - the data tree stays canonical and searchable under any edit history"""
from props import comps_sorted, oracles

PID = "C04"
LEVEL = "proof"


def components():
    return [comps_sorted.RbStatic(), comps_sorted.LydsApi()]


def oracles_():
    return [oracles.EditHistory(), comps_sorted.SortedOrder(), comps_sorted.SiblingOrder()]


TRUSTED = [
    "impl/t_sorted.c read-only checker of the red-black tree / sibling links / lyds_tree metadata placement "
    "(link-level faithfulness of the zipper model is tied by this checker, not proved)",
]

ASSUMPTIONS = [
    "the type plugin's sort callback is a total preorder (premise total_preorder of the C04_* theorems; proved for the "
    "integer types, decimal64 and boolean in C03, instance C04_int_order_instance); other types are only run (string, union)",
    "identity of data nodes is modelled by a decidable equality on (key, id) pairs (premise is_identity)",
]

MANIFEST = {
    "text": "PROVED (Coq, Properties_C04_sorted.v, closed under the global context) - the ordering kernel: the red-black tree "
            "of src/tree_data_sorted.c modelled branch by branch (rb_insert_node/rb_insert_color, rb_remove/rb_remove_color, "
            "rb_find, rb_prev/rb_next; parent pointers as a zipper) for an ARBITRARY total preorder: in-order walk after "
            "insert = stable insert (equal keys after the existing ones), after remove = walk without that element; search "
            "order, black root, no red-red, equal black height are preserved and the unchecked sibling/grandparent "
            "dereferences never meet NULL (C04_rb_inv_preserved, C04_rb_remove_no_null_deref); height <= 2 log2(n+1); rb_find "
            "finds a node iff a scan does; every history of inserts/removes keeps the walk sorted, a permutation of the live "
            "nodes with equal keys in insertion order (C04_sorted_history); insertion-order independence for distinct keys; "
            "and one level up (Sorted.v: lyds_insert incl. lazy tree creation and lyds_link_data_node, lyds_unlink) the sibling "
            "sequence of one system-ordered (leaf-)list equals the tree walk and the abstract stable sorted sequence after "
            "every history (C04_lyds_history), and lyd_dup of a list of instances into a parent with existing instances keeps tree "
            "and siblings together (C04_lyds_dup_spec; the condition before /repo d989bef is refuted by C04_lyds_dup_before_fix_refuted). "
            "lyd_merge of the instances of one (leaf-)list, destructive with ANY number of recycled red-black nodes (lyds_pool_add, "
            "lyds_insert2, lyds_additionally_reuse_rb_tree incl. the hand-over when the pool runs dry) or not, gives the stable sorted "
            "merge of both runs with tree = siblings and nothing lost (C04_lyd_merge_spec; the seeded change C14-6 is the regression "
            "Example C04_lyd_merge_skip_refuted). lyd_unlink_siblings (lyds_split: exact prefix / remainder, C04_lyds_split_spec) and "
            "lyd_insert_child / lyd_insert_sibling of several nodes (lyds_merge with lyds_merge_nodes1/2/3, all cases: stable sorted "
            "merge, C04_lyds_merge_spec; cefb23b regression Example C04_lyds_merge_nodes2_regression). TIED by T2: extracted model vs the static rb_* functions and vs the public API "
            "(lyd_new_term/lyd_new_list, lyd_insert_child/sibling, lyd_unlink_tree, lyd_free_tree, LYD_INSERT_NODE_LAST "
            "appends, lyd_find_sibling_val) on int8/string/decimal64/union leaf-lists and 1-/2-key lists, comparing after "
            "EVERY call the sibling order, the exact tree shape with colours, the metadata owner and a read-only invariant "
            "check; exhaustive scripts over 4 keys plus long random scripts. EXPLORED ONLY (oracle EditHistory, no proof): whole "
            "edit histories through create-by-path, dup, merge, diff apply, implicit nodes, validate; schema order between "
            "different nodes; user-ordered lists; the children hash table; every search function = scan. EXPLORED against list "
            "models (oracles sorted-order, sibling-order of comps_sorted.py, no proof): lyd_merge of source lists with equal keys, and ALL children of one parent (schema order, "
            "user-ordered instances moved by lyd_insert_after / lyd_insert_before incl. wrap-around positions, opaque nodes last, "
            "lyd_find_sibling_first / _val / _opaq_next = scan, with and without children hash table).",
    "note": "Not modelled in Coq: the pool's node recycling itself (rb_iter_traversal; the pool is a counter in the model), the duplicate-"
            "instance bookkeeping of lyd_merge_sibling_r (source instances with equal keys; Python model only), parent-pointer and "
            "metadata link-level details (checked by the driver's checker only), the children of one parent beyond one (leaf-)list "
            "(schema order, user-ordered moves, opaque nodes: Python list model SibModel only), ChildIdx/Edit layers of DESIGN.md C04 "
            "(slice ht covers the hash table itself). lyds_merge_nodes2 needs a sorted target (model: None otherwise). The known "
            "finding implicit-toplevel-order belongs to the explored part. Findings of the slice, all fixed in /repo: cefb23b "
            "(uninitialised *next_p in lyds_merge_nodes2), d989bef + 03a093d (lyd_dup into existing instances).",
    "technique": "Coq proof over hand-written model (ordering kernel) + differential correspondence incl. exact tree shape "
                 "(extracted OCaml vs C, white-box and public API) + randomised edit histories with invariant checker (rest)",
}
