"""C04 - the data tree stays canonical and searchable under any edit history"""
from props import comps_sorted, oracles

PID = "C04"
LEVEL = "proof"


def components():
    return [comps_sorted.RbStatic(), comps_sorted.LydsApi(), comps_sorted.SibApi()]


def oracles_():
    return [oracles.EditHistory(), comps_sorted.SortedOrder(), comps_sorted.SiblingOrder()]


TRUSTED = [
    "impl/t_sorted.c read-only checker of the red-black tree / sibling links / lyds_tree metadata placement "
    "(link-level faithfulness of the zipper model is tied by this checker, not proved)",
    "tools/props/comps_sorted.py Python list models SeqModel / SibModel (judges of the oracles sorted-order, sibling-order, and "
    "witness of the T2 component sib) and "
    "the invariant checker of impl/lyx.c (oracle edit-history)",
]

ASSUMPTIONS = [
    "the type plugin's sort callback is a total preorder (premise total_preorder of the C04_* theorems; shown for the orders of "
    "the integer types and decimal64 in C04_int_order_instance); string, union and list-key orders are only run",
    "identity of data nodes is a decidable equality on (key, id) pairs (premise is_identity); the theorems about lists take "
    "pairwise different nodes (NoDup) and the invariant lyds_ok (tree walk = siblings, tree is a red-black search tree) as premises",
    "model of lyd_merge (lyd_merge_list): no two SOURCE instances compare equal (the duplicate-instance bookkeeping of "
    "lyd_merge_sibling_r is not modelled); model of lyds_merge: a target WITHOUT tree that meets a source WITH tree is sorted "
    "(premise of C04_lyds_merge_spec; otherwise lyds_merge_nodes2_among walks into NULL, the model answers None)",
    "LYD_DUP_NO_LYDS into a list that already has a sorting tree, and an opaque node moved among data nodes by "
    "lyd_insert_after/before, are legal calls that break the invariants by contract; they are not generated",
]

MANIFEST = {
    "text": "PROVED (Coq, Properties_C04_sorted.v and Properties_C04_siblings.v, all closed under the global context); (a), (b) for "
            "ONE system-ordered (leaf-)list and an ARBITRARY total preorder as compare callback. (a) red-black tree of src/tree_data_sorted.c, transcribed branch by branch "
            "(rb_insert_node/rb_insert_color, rb_remove/rb_remove_color, rb_find, rb_prev/rb_next; parent pointers as a zipper; unchecked "
            "dereferences answer None): in-order walk after insert = stable insert, after remove = walk without that element "
            "(C04_rb_inorder_insert, C04_rb_inorder_remove); search order, black root, no red-red, equal black height are preserved and "
            "no unchecked dereference meets NULL (C04_rb_inv_preserved, C04_rb_remove_no_null_deref); C04_rb_check_sound, "
            "C04_rb_height_log, C04_rb_prev_next; on a search tree rb_find finds a node iff a scan does (C04_find_iff_scan); every "
            "history of inserts/removes of existing positions from the empty tree keeps the walk sorted, and for fresh nodes a "
            "permutation of the live nodes with equal keys in insertion order (C04_sorted_history); C04_insert_order_independent for "
            "pairwise non-equal keys. (b) sibling sequence + lyds_tree (Sorted.v), premises lyds_ok and pairwise different nodes: "
            "lyds_insert incl. lazy tree creation and lyds_link_data_node, lyds_unlink (C04_lyds_insert_spec, C04_lyds_unlink_spec, "
            "C04_lyds_history: siblings = tree walk = abstract stable sorted sequence); lyd_dup of instances into a parent as of /repo "
            "03a093d (C04_lyds_dup_spec; regression Examples C04_lyds_dup_before_fix_refuted for the code before d989bef, "
            "C04_lyds_dup_keeps_source_order); lyd_merge with and without LYD_MERGE_DESTRUCT for ANY number of recycled red-black nodes "
            "(lyds_pool_add, lyds_insert2, lyds_additionally_reuse_rb_tree: C04_lyd_merge_spec; seeded change C14-6 = Example "
            "C04_lyd_merge_skip_refuted); lyd_unlink_siblings = lyds_split (C04_lyds_split_spec: exact prefix / remainder); "
            "lyd_insert_child/sibling of several nodes = lyds_merge with lyds_merge_nodes1/2/3 (C04_lyds_merge_spec: stable sorted "
            "merge, nothing lost, for a sorted target when only the source has a tree; Example C04_lyds_merge_nodes2_regression for "
            "cefb23b). (c) ALL children of one parent (Siblings.v, Properties_C04_siblings.v; a sibling = (schema index in lys_getnext "
            "order with choices/cases flattened | opaque, key, id)): lyd_insert_node(DEFAULT) with both anchor searches of "
            "lyd_insert_get_next_anchor (walk over the siblings / hash lookups of the following schema nodes) and the fallback before "
            "trailing opaque nodes puts a node into canonical siblings exactly at its canonical position - behind every sibling that is "
            "not greater, data before opaque, opaque last -, provided the hash walk reaches every schema index present "
            "(C04_sib_insert_spec); a successful lyd_insert_after/before of a DATA node next to a DATA sibling (user-ordered, same "
            "schema node, user-ordered lists not system-ordered) puts it directly behind / in front of the sibling incl. first<->last "
            "wrap-around, keeps all other siblings in order and canonical (C04_sib_move_spec); histories of creations, such moves and "
            "removals stay canonical = schema order, user order as established, opaque last (C04_sib_history). Regression Examples for "
            "the seeded changes C04-8 / C04-3 / C04-4: C04_sib_choice_anchor_regression, C04_sib_opaque_last_regression, "
            "C04_sib_wraparound_regression. Premises are satisfiable: C04_int_order_instance, C04_sorted_history_int, C04_hypotheses_satisfiable. "
            "TIED by T2 (extracted model vs C, white-box driver t_sorted.c): the static rb_* functions, and the public API on "
            "int8/string/decimal64/union leaf-lists and 1-/2-key lists, top level and in a container, with and without neighbours "
            "(lyd_new_term/lyd_new_list/lyd_new_path, lyd_insert_child/sibling, LYD_INSERT_NODE_LAST appends, lyd_unlink_tree, "
            "lyd_free_tree, lyd_unlink_siblings, lyd_dup_siblings/lyd_dup_single, lyd_merge_tree/lyd_merge_siblings, "
            "lyd_find_sibling_val), comparing after EVERY call the sibling order, the exact tree shape with colours, the metadata "
            "owner and a read-only invariant check; exhaustive short scripts over 4 keys plus long random scripts. "
            "The same for mode `sib` (component sib): leaves, a system-ordered leaf-list, a user-ordered list and leaf-list (three of "
            "them inside a choice/case), opaque nodes, container (hash table from 4 children) and top level: create, "
            "lyd_insert_after/before, free, unlink, re-insert; sibling order compared with Siblings.v after every call. "
            "EXPLORED ONLY, no proof: oracle edit-history (random histories of create by path, free, change value incl. keys, "
            "unlink + re-insert, merge, apply diff, add implicit, validate on generated schemas; invariant checker after every call: "
            "links, schema order, contiguity, sortedness, children hash table content, every search = scan; print/parse fixpoint; "
            "creation-order independence); oracles sorted-order and sibling-order against Python list models (lyd_merge of sources "
            "with equal keys; for the children of one parent additionally lyd_find_sibling_first/_val/_opaq_next = scan and link "
            "consistency, which Siblings.v does not model).",
    "note": "Modelled, not verified against C by proof: the Coq functions are hand transcriptions; T2 observes sibling order, tree "
            "shape/colours, metadata owner and find answers only through the driver. In the model the pool of recycled nodes is a "
            "counter (rb_iter_traversal itself is not modelled; lyds_merge_nodes3 uses its post-order), parent pointers / metadata "
            "links are not represented (driver checker only). In Siblings.v values and hashes are not modelled (which node a search finds, the content "
            "of the children hash table: oracles only; the table itself is slice ht), the existence of the table is a flag of the "
            "operation, the placement inside a system-ordered (leaf-)list is taken from Sorted.v, and moves that involve an opaque "
            "node are outside the theorems. Outside Coq: "
            "the ChildIdx/Edit layers of DESIGN.md C04, change of key/leaf-list values, diff apply, implicit nodes, validation. "
            "No C04 finding is open. Retired (fixed in /repo): implicit-toplevel-order 7ad8277, childidx-stale-after-change 007df2f, "
            "merge-dup-unsorted 07a2996, lyds-merge2-next-uninit cefb23b, dup-append-into-existing d989bef, dup-resort-from-third 03a093d.",
    "technique": "Coq proof over hand-written model (ordering kernel) + differential correspondence incl. exact tree shape "
                 "(extracted OCaml vs C, white-box and public API) + randomised edit histories with invariant checker (rest)",
}
