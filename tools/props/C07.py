"""C07 - validation is an idempotent normalisation with an exact change set"""
from props import oracles

PID = "C07"
LEVEL = "exploration"


def components():
    return []


def oracles_():
    return [oracles.ValidateIdem()]


MANIFEST = {
    "category": "exploration",
    "text": "No Coq model of lyd_validate/lyd_new_implicit yet: the property is explored by an API oracle on generated schemas with "
            "defaults/choices/presence and histories edit->validate->edit->validate: second validation changes nothing and reports "
            "an empty change set, the change set applied to the pre-copy gives the tree after, default-flagged leaves hold the "
            "schema default, the three with-defaults modes print the RFC 6243 node sets computed from the flags.",
    "note": "Testing only (random generation from VERIF_SEED). when/must are not generated yet.",
    "technique": "metamorphic API oracle on generated edit/validate histories (no proof yet)",
}
