"""C07 - validation is an idempotent normalisation with an exact change set"""
from props import comps_dflt, oracles

PID = "C07"
LEVEL = "proof"


def components():
    return [comps_dflt.DfltModel(), comps_dflt.WhenResModel()]


def oracles_():
    return [comps_dflt.ValidateIdemC07(), comps_dflt.WhenDefaults(), comps_dflt.WhenDefaultsModule()]


TRUSTED = [
    "ocaml/run_dflt.ml part whenres (keeps the world, the default flags and the was-true marks between validations, creates "
    "the missing defaults before a run; parses the conditions) + comps_dflt.WhenResModel (leaf modules, XPath text of a condition)",
    "ocaml/tree_io.ml + ocaml/run_dflt.ml (read / print lyx dumps incl. the new flag, render change lists and printed node "
    "sets, evaluate the executable theorem hypotheses on every tree), tools/treeenc.py (yanggen module -> schema line with "
    "sids in lys_getnext order and the choice / case chains), tools/yanggen.py + tools/props/comps_dflt.py (modules, "
    "instances, edit histories; flattening of libyang's diff tree into per-node create / delete lines; reading the printed "
    "XML with expat), impl/lyx.c (val, implicit, dump, print, newpath, chgpath, freepath, freen, rt commands)",
    "oracles when-defaults / when-defaults-module: comps_dflt.WhenRef (python reference: module family, evaluation of the when "
    "conditions, LYD_WHEN_TRUE bookkeeping), impl/lyx.c and impl/t_valid.c (mod, newpath, freepath, parse, val [m], dump)",
]

ASSUMPTIONS = [
    "C07_validate_idempotent_partial assumes the validated tree is in the normal form (Implicit.normalb) and that the second "
    "validation returns at all; C07_implicit_exact_edited_partial / C07_validate_idempotent_edited prove the normal form for "
    "EDITED input (Implicit.editedb, executable: new nodes are explicit, the default instances of a schema node are none or "
    "complete with no old explicit instance beside them, nodes under their schema parent, NP container flags consistent; "
    "canonical order NOT required) - the correspondence run evaluates editedb on every tree handed to a validation (field H: "
    "about 90% of the generated histories satisfy it) and a tree with H=1 whose result is not the normal form is never "
    "accepted as a known finding; C07_implicit_exact_partial / C07_validate_idempotent_fresh are the special case of freshly "
    "parsed canonical input (Implicit.freshb) and add that the explicit content is kept; C07_wd_modes_rfc6243_partial assumes consistent flags "
    "(WithDefaults.wd_wf_forest) and LYD_PRINT_KEEPEMPTYCONT off; C07_dflt_flag_sound assumes sound flags on the input; "
    "C07_validate_canon assumes a canonical input. The correspondence run evaluates these executable hypotheses / conclusions "
    "(Q / W fields of the model's answer) on EVERY tree libyang hands to or gets from a validation / print of the generated "
    "histories and reports a tree that breaks one as a property failure (the listed deviations "
    "dflt-leaflist-partial, vdiff-np-container, wd-leaflist-partial-default are such trees)",
    "schemas: chc_okb / schema_okb / sids_uniqb / keys_plainb (checked on every generated schema, field K); one module, no when / must / unique / "
    "leafref, no opaque nodes; LYD_VALIDATE_PRESENT only (an empty tree is not validated)",
    "oracle when-defaults: the expected trees come from comps_dflt.WhenRef, a python reference for one family of modules "
    "(it tracks which nodes carry LYD_WHEN_TRUE: every conditional node present after a successful validation, and a node "
    "lyd_new_path turned from default into explicit in place)",
]

MANIFEST = {
    "category": "proof",
    "text": "Coq (Properties_C07_dflt.v, closed under the global context) about Implicit.validate_all / implicit_all - a "
            "branch-by-branch transcription of lyd_validate_all(LYD_VALIDATE_PRESENT) / lyd_new_implicit_all: per sibling list "
            "lyd_validate_choice_r + lyd_validate_cases (old case deleted when a new one appears), the node loop of "
            "lyd_validate_new (lyd_validate_autodel_leaflist_dflt / _cont_leaf_dflt, duplicate check, LYD_NEW cleared, "
            "lyd_validate_autodel_case_dflt), then lyd_new_implicit (choices first: default case when no case has data, else the "
            "defaults of the existing case incl. f4b2f68; NP containers, default leaves, default leaf-lists only when no "
            "instance exists), then the same for the children of every inner node, finally lyd_validate_final_r (mandatory, "
            "min / max-elements, lyd_np_cont_dflt_set) with the sequence of lyd_val_diff_add calls as change list - and about "
            "WithDefaults.wd_print_forest (lyd_node_should_print, lyd_is_default, the default tag of xml_print_meta, the "
            "printer's child loop) on the shared Tree.v model. Proved: for EDITED input (a tree after any edits that mark what they "
            "touch as new; executable hypothesis Implicit.editedb, siblings need not be canonical) a successful validation reaches "
            "the RFC 7950 normal form - the default-flagged nodes are exactly the defaults required for the explicit nodes "
            "(C07_implicit_exact_edited_partial: lyd_validate_choice_r leaves one populated case per choice for ANY input, the "
            "node loop of lyd_validate_new in closed form, lyd_validate_autodel_case_dflt as of 357db45, completeness of "
            "lyd_new_implicit) - so validating it again changes nothing and reports nothing (C07_validate_idempotent_edited); "
            "freshly parsed canonical input is a special case and also keeps its explicit content (C07_implicit_exact_partial, "
            "C07_validate_idempotent_fresh); validation and lyd_new_implicit_all keep the tree "
            "canonical, every created node placed by Tree.insert_node (C07_validate_canon, C07_implicit_all_canon); a tree in "
            "the RFC 7950 normal form (an independent "
            "executable spec: exactly the required default leaves / leaf-list values / NP containers per 7.6.1, 7.7.2, 7.5.1, "
            "7.9.3, nested cases level by level) is a fixpoint of validation with an EMPTY change list "
            "(C07_validate_idempotent_partial); validation and lyd_new_implicit_all keep the default flag sound - every "
            "default-flagged term holds one of its schema defaults (C07_dflt_flag_sound, _implicit); for all five with-defaults "
            "modes the printed node set and the default tags equal the RFC 6243 view defined independently over (default flag, "
            "value = schema default, config) on trees with consistent flags (C07_wd_modes_rfc6243_partial). Refuted with "
            "witnesses (confirmed on libyang, listed findings): the normal form is not reached when one of several default "
            "leaf-list instances was freed (C07_implicit_exact_refuted_leaflist; the witness of the former finding "
            "dflt-nested-case-leftover, fixed by 357db45, is now the regression theorem C07_nested_case_regression), the change "
            "list is not exact (C07_change_set_exact_refuted), trim mode deviates "
            "for leaf-lists (C07_wd_modes_rfc6243_refuted). Tie: component dfltmodel runs generated modules (defaults, default "
            "leaf-lists, nested choices with default cases, NP / presence containers, lists; every fourth module holds a DEEP "
            "choice - 3 or 4 levels choice -> case -> choice ..., a default leaf / NP container with a default leaf / default "
            "leaf-list in every case on the way, shorthand cases, at top level, in a container or in a list - whose only "
            "explicit node is the innermost leaf: lyd_new_implicit must create the implicit nodes of the case of EVERY "
            "enclosing choice, computed instance C07_nested_case_outer_defaults) x trees from PARSE_ONLY parses and "
            "edit histories (free / change / new path / tagged print parsed back) through lyd_validate_all / "
            "lyd_new_implicit_all with diff and the five print modes in XML and JSON, and the extracted model on the dumped tree "
            "before each validation: the dump after (default and new flags), the net change list and - per node instance in "
            "document order, read with independent readers (expat; python json incl. the RFC 7952 metadata arrays of leaf-lists) - "
            "the printed nodes + default tags must be identical; the model also evaluates the theorem hypotheses and conclusions (normal form reached, change list "
            "replays to the tree after, flags consistent and sound, canonical input) on every one of these trees. The API oracle "
            "validate-idem checks the same laws through lyd_diff_apply_all. `when`: the resolution loop has its own model and theorems (WhenRes.v, component "
            "whenres, see the note); where defaults must exist under when is checked at ORACLE level: oracle when-defaults generates modules whose default leaves, NP / presence containers, default "
            "leaf-lists, lists, choices, cases (incl. the default case and a nested choice), uses and augments carry when "
            "conditions over sibling leaves (../sw = 'on', count(../ll) > 1, not(../x); one when reading another conditional "
            "node), runs histories validate -> flip a controlling leaf -> validate -> flip back -> validate with explicit "
            "nodes created / freed in between (lyd_new_path + lyd_validate_all with diff, lyd_parse_data with validation; "
            "oracle when-defaults-module: the same histories with lyd_validate_module) "
            "and compares every validated tree with a python reference (comps_dflt.WhenRef) that evaluates the conditions on "
            "its own record of the explicit content: defaults exactly where own and inherited when hold, explicit nodes under "
            "a false when rejected - deleted iff LYD_WHEN_TRUE had been set -, diff applied to the tree before = tree after, "
            "second validation changes / reports nothing. The same histories also call the implicit-node API: "
            "lyd_new_implicit_all (= lyd_new_implicit_module per module + lyd_new_implicit_tree per root) on the explicit "
            "content parsed with LYD_PARSE_ONLY, options none / NO_STATE / OUTPUT / NO_DEFAULTS, with and without the diff "
            "output - the tree must be what validation gives for that content (no implicit node under a false when; with "
            "NO_DEFAULTS the NP containers only), the diff applied to a dup of the tree before = tree after, a second call "
            "changes and reports nothing - and on a copy of the validated tree (no change, empty diff); the family includes a "
            "top-level conditional default leaf, a top-level conditional NP container with a default child and a nested "
            "default whose when reads the top-level default.",
    "note": "PARTIAL. Not proved: the normal form for inputs outside Implicit.editedb (nodes that are new AND default, "
            "incomplete default leaf-lists = deviation dflt-leaflist-partial; checked at run time on every generated case), "
            "that the second validation does not fail, exactness of the change list "
            "(checked at run time by replaying the model's change list; false for vdiff-np-container; libyang's own diff "
            "additionally fails with LY_EINVAL in finding vdiff-np-recreate and is wrong for duplicate-instance lists, "
            "vdiff-dupinst). when: Implicit.v has no when; the statement 'defaults exactly where the when holds' "
            "is checked by the oracle when-defaults against a python reference on a fixed family of modules (XPath limited to "
            "three condition shapes; lyd_validate_module is driven through impl/t_valid.c, which returns no change set); two deviations "
            "found there are listed (when-stale-dependency, implicit-api-when-order, parse-when-before-toplevel-default - fixed by "
            "7b3176d / 6d13b8c / 3ea8124, the fixed behaviour is now expected -, when-autodel-default-case and implicit-api-phase-order still open; the latter - a "
            "default resolved in an earlier phase of lyd_new_implicit_module is not re-evaluated when a later phase creates a "
            "node its when reads - is followed by the whenres runner phase by phase and flagged by no check) - Since 7b3176d the resolution of the when "
            "conditions no longer depends on flags of earlier validations, and that step is modelled and proved on its own: "
            "coq/WhenRes.v is the fixpoint of lyd_validate_unres_when on a flat abstraction (world = present (node, value) "
            "entries; set of queued (node, was-true-before); a condition is postponed while a node it reads is queued, true -> "
            "leaves the set, false -> deleted if it was true before, else invalid; passes from the end of the set while it "
            "shrinks). Proved for conditions that read only their declared dependencies, acyclic by a rank: the loop needs at "
            "most as many passes as there are queued nodes and never stops with unresolved nodes "
            "(C07_when_resolution_terminates), the resulting tree - or the rejection - does not depend on the order of the set "
            "(C07_when_resolution_order_independent, via: a successful run ends in the unique stable solution, and if a stable "
            "solution exists every order finds it), resolving the survivors again changes nothing "
            "(C07_when_resolution_idempotent), resolving in phases - first one set, then another on the resulting world - equals "
            "one resolution of both when no condition of the first phase reads a node of the second "
            "(C07_when_resolution_phases); C07_when_resolution_generic states it for arbitrary condition functions. Tie: "
            "component whenres runs generated dependency graphs (leaves that are top-level nodes or children of a container, "
            "with defaults and whens over presence / value of smaller-numbered leaves on either level, and / or / not) x edit "
            "histories through lyd_new_path / lyd_free_tree and the two entries lyd_validate_all (all present conditional "
            "nodes queued, one run) and lyd_new_implicit_all (only the nodes it created, all was-true, in the phases nested / "
            "top-level / nested / nested that lyd_new_implicit_module per context module amounts to) and the extracted wrun: "
            "same surviving nodes, values, default flags, same rejections. NOT in WhenRes.v: the "
            "subtree of a deleted node, choices / cases (finding when-autodel-default-case), the interplay with "
            "lyd_new_implicit beyond 'missing defaults are created first and queued as was-true' (done by the OCaml runner), "
            "the connection of this layer with Implicit.validate_all (no combined theorem). lyd_new_implicit_tree / _module are only reached through "
            "lyd_new_implicit_all (impl/lyx.c has no separate command), LYD_IMPLICIT_NO_CONFIG is not exercised. Not modelled: must / unique / leafref, several modules (with data of "
            "another module in front libyang inserts a new top-level default node before older siblings of its own module - seen "
            "once, outside Tree.v), LYD_VALIDATE_NO_STATE / NO_DEFAULTS / MULTI_ERROR, the state of the tree after a failed "
            "validation, LYD_PRINT_KEEPEMPTYCONT in the theorem (tied by the correspondence run only), the LYB printer.",
    "technique": "Coq proof about a transcribed functional model and an independent executable RFC spec + differential "
                 "correspondence on libyang dumps with run-time evaluation of the theorem hypotheses + metamorphic API oracle",
}
