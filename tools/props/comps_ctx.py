"""comps_ctx.py - slice `ctx` (property C09): the context as a state machine, coq/Context.v against the real
library (driver impl/t_ctx.c, model ocaml/run_ctx.ml).

Components (Comp):  CtxScript    `ctxs <explicit> <repo> <op>...`  the observable after every operation of a script
                    CtxInternals `ctxint`                           table of the internal modules of a new context
Oracle:             CtxRestore   `ctxo ...`  C09 on the implementation itself: after a failing operation the observable
                                 equals the one before, data trees parsed before are still valid, and a later successful
                                 operation gives what a context that only saw the successful operations gives

Script format: see the header comment of impl/t_ctx.c.
"""
import re

from props.comps import Comp

NAMES = "abcd"
FAULTS = [1, 2, 3, 4, 5]


# ------------------------------------------------------------------------------------------------
# generator of repositories and scripts
# ------------------------------------------------------------------------------------------------
def gen_feats(rng):
    """feature list of a module name: [(name, [deps])], deps among earlier features"""
    n = rng.choice([0, 1, 1, 2, 2, 3])
    out = []
    for i in range(1, n + 1):
        deps = []
        if i > 1 and rng.random() < 0.6:
            deps = sorted(rng.sample(range(1, i), rng.randrange(1, min(i, 3))))
        out.append(("f%d" % i, ["f%d" % d for d in deps]))
    return out


def feats_str(feats):
    if not feats:
        return "-"
    return ",".join(f if not d else f + "/" + "+".join(d) for f, d in feats)


class Repo:
    """entries: dict(name, rev, imps [(name, rev)], feats, fault)"""

    def __init__(self, rng, nnames=None, pfault=0.2):
        self.entries = []
        nn = nnames or rng.choice([2, 3, 3, 4])
        self.names = list(NAMES[:nn])
        self.feats = {nm: gen_feats(rng) for nm in self.names}
        revs = {}
        for nm in self.names:
            k = rng.choice([1, 1, 2])
            revs[nm] = rng.sample([0, 1, 2, 3], k) if rng.random() < 0.3 else rng.sample([1, 2, 3], k)
        self.revs = revs
        for i, nm in enumerate(self.names):
            for rv in revs[nm]:
                imps = []
                later = self.names[i + 1:]
                for t in later:
                    if rng.random() < 0.45 and len(imps) < 3:
                        r = rng.random()
                        if r < 0.45:
                            irev = 0
                        elif r < 0.93:
                            irev = rng.choice(revs[t]) or 0
                        else:
                            irev = rng.choice([1, 2, 3])          # possibly a revision the repository does not have
                        imps.append((t, irev))
                if rng.random() < 0.04 and len(imps) < 3:
                    imps.append(("h", rng.choice([0, 1])))          # a module nobody has
                fault = rng.choice(FAULTS) if rng.random() < pfault else 0
                self.entries.append(dict(name=nm, rev=rv, imps=imps, feats=self.feats[nm], fault=fault))
        rng.shuffle(self.entries)

    def __str__(self):
        out = []
        for e in self.entries:
            imps = ",".join("%s%d" % (n, r) for n, r in e["imps"]) or "-"
            out.append("%s%d:%s:%s:%d" % (e["name"], e["rev"], imps, feats_str(e["feats"]), e["fault"]))
        return ";".join(out)


def gen_sel(rng, feats, bad=0.05):
    """feature selection argument"""
    names = [f for f, _ in feats]
    r = rng.random()
    if r < 0.25:
        return "~"
    if r < 0.35:
        return "-"
    if r < 0.5:
        return "*"
    if r < 0.5 + bad:
        return ",".join(rng.sample(names, rng.randrange(0, len(names) + 1)) + ["f9"])
    if not names:
        return rng.choice(["~", "-", "*"])
    return ",".join(rng.sample(names, rng.randrange(1, len(names) + 1)))


def gen_op(rng, repo, explicit, pfault=0.25):
    r = rng.random()
    if r < 0.45:
        i = rng.randrange(len(repo.entries))
        flt = "-"
        if rng.random() < pfault:
            flt = str(rng.choice([0] + FAULTS))
        return "P %d %s %s" % (i, flt, gen_sel(rng, repo.entries[i]["feats"]))
    if r < 0.62:
        nm = rng.choice(repo.names + (["h"] if rng.random() < 0.05 else []))
        rv = rng.choice([0, 0] + repo.revs.get(nm, [1]) + ([rng.choice([1, 2, 3])] if rng.random() < 0.3 else []))
        return "L %s %d %s" % (nm, rv, gen_sel(rng, repo.feats.get(nm, [])))
    if r < 0.9 or not explicit:
        nm = rng.choice(repo.names)
        rv = rng.choice(repo.revs[nm])
        return "I %s %d %s" % (nm, rv, gen_sel(rng, repo.feats[nm]))
    return "C"


# option arguments of the O / U operations in the scripts the model also runs: sums of 1 LY_CTX_EXPLICIT_COMPILE,
# 2 ENABLE_IMP_FEATURES, 4 REF_IMPLEMENTED, 16 SET_PRIV_PARSED (8 ALL_IMPLEMENTED is not modelled, see ctx-rich)
OPT_FLAGS = [1, 2, 4, 16, 17, 18, 20, 22, 6, 3, 5, 23]


def gen_script(rng, comp="ctxs", explicit=None, nops=None, opts=False):
    """opts: ly_ctx_set_options / ly_ctx_unset_options calls (O <flags> / U <flags>) between the operations, and
    ly_ctx_compile calls whatever the initial mode is (LY_CTX_EXPLICIT_COMPILE comes and goes)"""
    if explicit is None:
        explicit = rng.random() < 0.35
    repo = Repo(rng)
    n = nops or rng.randrange(3, 11)
    ops = []
    for _ in range(n):
        ops.append(gen_op(rng, repo, explicit or opts))
        if (explicit or opts) and rng.random() < 0.3:
            ops.append("C")
        if opts and rng.random() < 0.3:
            ops.append("%s %d" % (rng.choice("OOU"), rng.choice(OPT_FLAGS)))
    return "\t".join([comp, "1" if explicit else "0", str(repo)] + ops)


def gen_option_scripts(rng, comp, n):
    """scripts with option calls; the state of the shared generator is put back afterwards, so that the inputs of the
    components and oracles that existed before these scripts stay what they were"""
    st = rng.getstate()
    L = [w.replace("ctxs\t", comp + "\t", 1) for w in OPT_WITNESS.values()]
    for _ in range(n):
        L.append(gen_script(rng, comp, opts=True))
    rng.setstate(st)
    return L


def gen_systematic(rng, comp="ctxs"):
    """one base history of successful operations over a repository without faults; every fault kind is injected at
    every position, followed by the rest of the history (the later correct loads); both compile modes"""
    repo = Repo(rng, pfault=0.0)
    for e in repo.entries:
        e["imps"] = [(n, r) for n, r in e["imps"] if n != "h" and (r == 0 or r in repo.revs.get(n, []))]
    # two extra modules: e imports a module nobody has, f has a feature whose if-feature can be left unsatisfied
    repo.entries.append(dict(name="e", rev=1, imps=[(repo.names[0], 0), ("h", 0)], feats=[], fault=0))
    repo.entries.append(dict(name="f", rev=1, imps=[], feats=[("f1", []), ("f2", ["f1"])], fault=0))
    repo.feats["e"] = []
    repo.feats["f"] = [("f1", []), ("f2", ["f1"])]
    ie, iff = len(repo.entries) - 2, len(repo.entries) - 1
    good = [i for i in range(len(repo.entries) - 2)]
    hist = []
    for _ in range(rng.randrange(2, 6)):
        i = rng.choice(good)
        e = repo.entries[i]
        r = rng.random()
        if r < 0.6:
            hist.append("P %d - %s" % (i, rng.choice(["~", "~", "*", "-"])))
        elif r < 0.8:
            hist.append("L %s %d %s" % (e["name"], rng.choice([0, e["rev"]]), rng.choice(["~", "*"])))
        else:
            hist.append("I %s %d ~" % (e["name"], e["rev"]))
    out = []
    for explicit in (0, 1):
        for pos in range(len(hist) + 1):
            faulty = ["P %d %d ~" % (rng.choice(good), k) for k in FAULTS]
            faulty += ["P %d - ~" % ie, "P %d - f2" % iff, "P %d - f9" % rng.choice(good), "L h 0 ~", "L e 0 ~", "L f 1 f2"]
            for fo in faulty:
                ops = hist[:pos] + [fo] + hist[pos:]
                if explicit:
                    # compile after every operation of the base history (nothing pending when the fault strikes) or at the end
                    if rng.random() < 0.5:
                        ops = [x for o in hist[:pos] for x in (o, "C")] + [fo] + [x for o in hist[pos:] for x in (o, "C")]
                    else:
                        ops = ops + ["C"]
                out.append("\t".join([comp, str(explicit), str(repo)] + ops))
    return out


# the scripts of the two defects DESIGN.md names and of the others found while building the slice
WITNESS = {
    # regression (fixed by 21681e3): failed load of a newer revision; a@1 must be the latest revision again afterwards
    "latest": "ctxs\t0\ta1:-:-:0;a2:h1:-:0\tP 0 - ~\tP 1 - ~",
    # regression (fixed by af27b8d): features of an implemented module were flipped in place and stayed (and so did to_compile)
    "features": "ctxs\t0\ta1:-:f1,f2/f1:0;b1:a1:-:0\tP 0 - f1\tI a 1 f2\tP 1 - ~",
    # regression (af27b8d): the same on a module that is only imported; the importer was recompiled against the flipped features
    "features-imported": "ctxs\t0\ta1:-:f1,f2/f1:0;b1:a1:-:0\tP 1 - ~\tI a 1 f2",
    # explicit compile: a failed call removes what earlier successful calls added
    "explicit": "ctxs\t1\ta1:-:-:0;b1:-:-:0;c1:-:-:1\tP 0 - ~\tC\tP 1 - ~\tP 2 - ~\tC",
    # lys_parse_load asserts that the fallback module still is the latest revision; the nested failed parse took the flag
    "assert": "ctxs\t0\tc3:-:-:2;c1:-:-:0;b1:c1:-:0;a1:c0:-:0\tP 2 - ~\tP 3 - ~",
    # LYS_MOD_IMPORTED_REV stays on a1 after the failed load of b1
    "imported-rev": "ctxs\t0\ta1:-:f1:0;a2:-:f1:0;d1:a1:-:0;b1:a0:-:4;c1:a0:-:0\tP 2 - ~\tP 3 - ~\tP 1 - f1\tP 4 - ~",
    # failed load of an importer recompiles the imported module
    "recompiled": "ctxs\t0\ta1:-:-:0;b1:a1:-:4\tP 0 - ~\tP 1 - ~",
}


# option calls (the model has them since round 5)
OPT_WITNESS = {
    # regression of the seeded change C09-7: explicit compilation, b (leafref without target) pending; the recompilation of
    # ly_ctx_set_options(ENABLE_IMP_FEATURES | SET_PRIV_PARSED) fails and the options must be what they were
    "set-options-fail": "ctxs\t1\tb1:-:-:4\tP 0 - ~\tO 18\tU 1\tO 18",
    # nothing pending: the same call succeeds and sets both
    "set-options-ok": "ctxs\t0\ta1:-:f1:0;b1:a1:-:0\tP 1 - ~\tO 18\tU 16\tO 17\tP 0 - f1\tC",
    # explicit compilation switched on and off by the option calls
    "set-explicit": "ctxs\t0\ta1:-:-:0;b1:-:-:3\tO 1\tP 0 - ~\tP 1 - ~\tU 1\tC\tO 16",
}


# ------------------------------------------------------------------------------------------------
# the property on one output line of the driver
# ------------------------------------------------------------------------------------------------
_MOD = re.compile(r"^([a-h])(\d)([Ii])([0-9a-f])([Tt])\{([^}]*)\}c=(-|\[[^\]]*\])r([=+0.])$")
ASSERT_LATEST = "mod_latest->latest_revision & LYS_MOD_LATEST_REV"


def parse_segment(seg):
    """segment of the output -> dict(res, cc, mods=[(name, rev, impl, flags, tc, feats, comp, r)], latest, impl, hash, extra)
    or None for the data/skip segments"""
    seg = seg.strip()
    if seg in ("d+", "dE", "dskip"):
        return None
    extra = None
    if " # " in seg:
        seg, extra = seg.split(" # ", 1)
    elif seg.endswith(" #"):
        seg, extra = seg[:-2], ""
    f = seg.split(";")
    if len(f) not in (6, 7) or not f[3].startswith("L:") or not f[4].startswith("M:") or \
            (len(f) == 7 and not re.match(r"^O:\d+$", f[6])):
        raise ValueError("segment %r" % seg)
    mods = []
    for w in f[2].split(" "):
        if not w:
            continue
        m = _MOD.match(w)
        if not m:
            raise ValueError("module %r" % w)
        mods.append(m.groups())
    return dict(res=f[0], cc=f[1], mods=mods, latest=f[3][2:], impl=f[4][2:], hash=f[5], extra=extra,
                opts=int(f[6][2:]) if len(f) == 7 else None)


def public(seg):
    """what the public API shows (the `obs` of the model): modules with implemented flag, features, compiled leaves;
    answers of get_module_latest / get_module_implemented; the module-set hash and the compiled YANG prints when the
    driver printed them"""
    mods = tuple((m[0], m[1], m[2], m[5], m[6]) for m in seg["mods"])
    ex = ()
    if seg["extra"] is not None:
        ex = tuple(w for w in seg["extra"].split(" ") if ":" in w)
    return (mods, seg["latest"], seg["impl"], seg["hash"], ex, seg["opts"])


def pending(seg):
    """white box: changes of earlier calls are waiting for ly_ctx_compile (to_compile set, or implemented and not compiled)"""
    return any(m[4] == "T" or (m[2] == "I" and m[6] == "-") for m in seg["mods"])


def classify(before, after, explicit, was_pending):
    """narrow tag of a known way a failed operation is not undone, or None"""
    if explicit and was_pending:
        # LY_CTX_EXPLICIT_COMPILE: unres.creating / unres.implementing accumulate over the calls until ly_ctx_compile, and the
        # revert of a failing call undoes (part of) what earlier successful calls did
        return "ctx-explicit-revert-pending"
    # Retired tags: same modules and implemented flags but different feature bits were ctx-features-kept-implemented /
    # ctx-features-kept-imported (fixed by /repo commit af27b8d); only the answers of ly_ctx_get_module_latest different
    # was ctx-latest-rev-lost (fixed by 21681e3). A reappearance is a plain violation.
    return None


def analyse(line, out, stderr=""):
    """None when the property holds on this script, else (tag_or_None, detail) for the first operation where it does not"""
    f = line.split("\t")
    explicit = f[1] == "1"
    ops = f[3:]
    if out.startswith("CRASH(") or out == "TIMEOUT":
        if out == "CRASH(-6)" and ASSERT_LATEST in stderr:
            return ("ctx-assert-latest", "assert(%s) fails in lys_parse_load" % ASSERT_LATEST)
        return (None, "the script ends with %s" % out)
    if out.startswith("?"):
        return (None, "driver protocol: %s" % out[:100])
    segs = out.split(" | ")
    if len(segs) != len(ops):
        return (None, "driver protocol: %d ops, %d segments" % (len(ops), len(segs)))
    prev = None
    prev_seg = None
    trees = ""
    for i, (op, sg) in enumerate(zip(ops, segs)):
        if "?op" in sg:
            return (None, "driver protocol: %s" % sg[:100])
        try:
            seg = parse_segment(sg)
        except ValueError as e:
            return (None, "driver protocol: %s" % e)
        if seg is None:
            continue
        pub = public(seg)
        if "DIFF" in seg["hash"]:
            return (None, "op %d (%s): ly_ctx_get_modules_hash is not the hash of the fields it is documented to hash" % (i, op))
        tr = ""
        shadow = "."
        if seg["extra"] is not None:
            w = seg["extra"].split(" ")
            tr = w[0] if w and ":" not in w[0] and not w[0].startswith("S") else ""
            shadow = next((x[1] for x in w if x.startswith("S") and len(x) == 2), ".")
        if seg["res"] == "E":
            if prev_seg is not None and prev_seg["opts"] is not None:
                explicit = bool(prev_seg["opts"] & 1)
            if prev is not None and pub != prev:
                if pub[5] != prev[5]:
                    # no known finding changes ly_ctx_get_options in a failing call
                    return (None, "op %d (%s) failed and the context options are not what they were: before %r after %r" %
                            (i, op, prev[5], pub[5]))
                return (classify(prev, pub, explicit, pending(prev_seg)),
                        "op %d (%s) failed and the context is not what it was: before %r after %r" % (i, op, prev, pub))
            if prev is None and (pub[0] or pub[1].strip("-") or pub[2].strip("-")):
                return (None, "op %d (%s) failed on the empty context and left %r" % (i, op, pub))
            for k, ch in enumerate(tr):
                if k < len(trees) and trees[k] == "v" and ch != "v":
                    return ("ctx-revert-recompiles" if ch == "s" else None,
                            "op %d (%s) failed and data tree %d parsed before it is %s" %
                            (i, op, k, "stale: the compiled schema it points into was freed" if ch == "s" else "printed differently"))
        elif seg["res"] == "ok" and shadow == "!":
            return ("ctx-hidden-state-left",
                    "op %d (%s) succeeded but the context differs from one that saw only the successful operations: %r" % (i, op, pub))
        trees = tr
        prev = pub
        prev_seg = seg
    return None


class CtxScript(Comp):
    """the observable after every operation of a script: real context vs Context.step"""
    name = "ctxs"
    driver = "t_ctx"
    slice = "ctx"

    def witness(self, line, model_out, impl_out):
        # the model carries every known way the revert falls short, so a disagreement is never an instance of a
        # known finding: it is reported as a new violation when the implementation output itself breaks the property
        w = analyse(line, impl_out)
        return (None, w[1]) if w else None


    def norm(self, line, out):
        # the model answers ABORT where an assert() of the modelled C code does not hold; the verification builds
        # keep the assertions and abort there
        return "ABORT" if (out == "ABORT" or out == "CRASH(-6)") else out

    def gen(self, rng, tier, scale=1.0):
        L = list(WITNESS.values())
        for _ in range(self.n(tier, 8, 200, scale)):
            L += gen_systematic(rng)
        for _ in range(self.n(tier, 1500, 60000, scale)):
            L.append(gen_script(rng))
        return L + gen_option_scripts(rng, "ctxs", self.n(tier, 800, 30000, scale))


class CtxInternals(Comp):
    """the internal modules of a new context (implemented, single dep set, imports) vs Context.internal_mods"""
    name = "ctxint"
    driver = "t_ctx"
    slice = "ctx"

    def gen(self, rng, tier, scale=1.0):
        return ["ctxint"]


def add_data_ops(rng, line):
    """ctxo variant of a script: data trees of implemented modules are parsed between the operations"""
    f = line.split("\t")
    ops = []
    for o in f[3:]:
        ops.append(o)
        w = o.split(" ")
        if rng.random() < 0.5:
            if w[0] == "P":
                nm = f[2].split(";")[int(w[1])][0]
            elif w[0] in "LI" and len(w) > 1:
                nm = w[1]
            else:
                nm = rng.choice("abcd")
            ops.append("D " + nm)
    return "\t".join(["ctxo"] + f[1:3] + ops)


class CtxRestore:
    """C09 on the implementation: after every failing operation of a script the public observable (modules, revisions,
    implemented flags, feature values, compiled schema print, get_module_latest/implemented answers, module-set hash)
    equals the one before, data trees parsed before are still valid, and every later successful operation gives what
    a second context that only saw the successful operations gives"""
    name = "ctx-restore"
    driver = "t_ctx"
    quick_sanitize = False
    last_err = ""

    def gen(self, rng, tier, scale=1.0):
        L = [add_data_ops(rng, w) for w in WITNESS.values()]
        for _ in range(int((150 if tier == "thorough" else 6) * scale)):
            # every fault kind at every position; half of them without data trees (so that a stale tree, which is a
            # known finding, does not hide what follows)
            for w in gen_systematic(rng, "ctxo"):
                L.append(add_data_ops(rng, w) if rng.random() < 0.5 else w)
        for _ in range(int((40000 if tier == "thorough" else 1200) * scale)):
            L.append(add_data_ops(rng, gen_script(rng)))
        return L

    def judge(self, line, out):
        return analyse(line, out, self.last_err or "")


class CtxModelInv:
    """model only (no driver): along every script, C09_failed_op_restores_partial is evaluated (a failing operation of a
    quiescent state that keeps latest flags and feature bits must restore the observable: a failure here would
    contradict the theorem), and a successful compiled operation of a quiescent state must give a quiescent state
    (this closure is tested, not proved)"""
    name = "ctx-model-inv"
    driver = None
    kinds = ["rel"]

    def gen(self, rng, tier, scale=1.0):
        L = [w.replace("ctxs\t", "ctxq\t", 1) for w in WITNESS.values()]
        for _ in range(int((100 if tier == "thorough" else 4) * scale)):
            L += gen_systematic(rng, "ctxq")
        for _ in range(int((30000 if tier == "thorough" else 1500) * scale)):
            L.append(gen_script(rng, "ctxq"))
        return L + gen_option_scripts(rng, "ctxq", int((15000 if tier == "thorough" else 800) * scale))

    def run(self, lines):
        import vlib
        outs, _ = vlib.run_sharded(vlib.build_model("ctx"), lines, timeout=600)
        return outs

    def judge(self, line, out):
        if "THM-VIOLATED" in out or "NOT-PRESERVED" in out or out.startswith("?") or "MODEL-" in out:
            return (None, "model self-check: %s" % out[:300])
        return None


# ------------------------------------------------------------------------------------------------
# richer modules: identities derived across modules, submodules with their own imports, augments (also into augments),
# deviations. No model counterpart; the property is checked on the library (before/after + shadow context).
# ------------------------------------------------------------------------------------------------
RNAMES = "abcdef"


def rich_repo(rng):
    """entries name -> dict; every name has the single revision 1 and every import names it (no latest-revision games, so
    nothing of the known hidden-flag finding can show up)"""
    nn = rng.choice([3, 4, 4, 5, 6])
    names = list(RNAMES[:nn])
    ents = []
    for i, nm in enumerate(names):
        later = names[i + 1:]
        imps = [t for t in later if rng.random() < 0.5][:3]
        extras = []
        for k, t in enumerate(imps):
            if rng.random() < 0.5:
                extras.append("d%d" % k)
            if rng.random() < 0.4:
                extras.append("a%d" % k)
            if rng.random() < 0.2:
                extras.append("v%d" % k)
            if rng.random() < 0.25:
                extras.append("r%d" % k)
            if rng.random() < 0.25:
                extras.append("w%d" % k)
        ents.append(dict(name=nm, imps=imps, extras=extras, feats=gen_feats(rng) if rng.random() < 0.5 else [], fault=0))
    # augments into the node another import adds to a third module
    for e in ents:
        for k, t in enumerate(e["imps"]):
            for j, x in enumerate(e["imps"]):
                xe = next(y for y in ents if y["name"] == x)
                if j != k and t in xe["imps"] and ("a%d" % xe["imps"].index(t)) in xe["extras"] and rng.random() < 0.6 \
                        and sum(1 for z in e["extras"] if z[0] == "n") < 2:
                    e["extras"].append("n%d%d" % (k, j))
    # submodules importing a later module (a module without imports of its own may get one too)
    for i, e in enumerate(ents):
        later = names[i + 1:]
        if later and rng.random() < (0.5 if not e["imps"] else 0.2):
            e["extras"].append("s" + rng.choice(later))
    # where the features are defined: in the module (default), only in the submodule (q), the first in the module and the
    # others in the submodule (Q), in a second submodule that the first one includes, too (z)
    for e in ents:
        if e["feats"] and rng.random() < 0.45:
            e["extras"].append(rng.choice(["q", "q", "Q", "z"]))
    for e in ents:
        if rng.random() < 0.25:
            e["fault"] = rng.choice(FAULTS)
    return ents


def rich_repo_str(ents):
    out = []
    for e in ents:
        out.append("%s1:%s:%s:%d:%s" % (e["name"], ",".join(t + "1" for t in e["imps"]) or "-", feats_str(e["feats"]),
                                        e["fault"], ",".join(e["extras"]) or "-"))
    return ";".join(out)


RICH_FLAGS = [0, 0, 0, 2, 4, 6, 8, 10, 1, 1, 3, 5, 7]      # 1 explicit compile, 2 enable imp features, 4 ref implemented, 8 all implemented


def gen_rich_script(rng, flags=None):
    ents = rich_repo(rng)
    if flags is None:
        flags = rng.choice(RICH_FLAGS)
    flags0 = flags
    ops = []
    for _ in range(rng.randrange(3, 9)):
        r = rng.random()
        i = rng.randrange(len(ents))
        e = ents[i]
        if r < 0.5:
            flt = str(rng.choice([0] + FAULTS + [4, 4])) if rng.random() < 0.4 else "-"
            ops.append("P %d %s %s" % (i, flt, gen_sel(rng, e["feats"])))
        elif r < 0.65:
            ops.append("L %s 1 %s" % (e["name"], gen_sel(rng, e["feats"])))
        else:
            ops.append("I %s 1 %s" % (e["name"], gen_sel(rng, e["feats"], bad=0.02)))
        # what the call dragged in (and, when it failed, had to let go again) is implemented by later correct calls
        if r < 0.65 and e["imps"] and rng.random() < 0.6:
            for t in rng.sample(e["imps"], rng.randrange(1, len(e["imps"]) + 1)):
                ops.append("I %s 1 ~" % t)
        if rng.random() < 0.2:
            # the options are changed in the middle of the history; LY_CTX_EXPLICIT_COMPILE (1) is only ever set, never unset
            fl = rng.choice([2, 4, 8, 16, 18, 20, 22, 24, 30, 6, 10]) | (1 if rng.random() < 0.15 else 0)
            if rng.random() < 0.7:
                ops.append("O %d" % fl)
                if fl & 1:
                    flags |= 1
            else:
                ops.append("U %d" % (fl & ~1))
        if (flags & 1) and rng.random() < 0.35:
            ops.append("C")                     # several calls stay pending between two compilations
    if flags & 1:
        ops.append("C")
    return "\t".join(["ctxr", str(flags0), rich_repo_str(ents)] + ops)


def rich_templates(rng):
    """families aimed at the links a rollback has to undo: (1) a module that is created and rolled back whose identities
    (own or of its submodule) derive from a module that stays; (2) modules that are implemented only by the failing call
    (targets of its augments/deviations, in either order) and are implemented by a later correct call"""
    out = []
    for link in ("a0", "v0", "a0,d0"):
        for mex, fault in (("n01", 4), ("a0,a1", 4), ("n01,d0", 3), ("a0,n01", 2), ("v0,a1", 4)):
            # p (implemented) imports t and x; x augments/deviates t; m drags both in and fails; then t (or x) is implemented
            repo = "t1:-:-:0:-;x1:t1:-:0:%s;p1:t1,x1:-:0:-;m1:t1,x1:-:%d:%s" % (link, fault, mex)
            for later in (["I t 1 ~"], ["I x 1 ~"], ["I t 1 ~", "I x 1 ~"], ["P 3 0 ~"]):
                out.append("\t".join(["ctxr", "0", repo, "P 2 - ~", "P 3 - ~"] + later))
    # modules implemented as a side effect (augment / deviation target, leafref, must) while LY_CTX_ENABLE_IMP_FEATURES (and
    # REF_IMPLEMENTED) is set: their features must be what they were after the failure
    for fl in (2, 6, 10):
        for ex in ("a0", "v0", "r0", "w0", "a0,r0"):
            repo = "t1:-:f1,f2:0:-;p1:t1:-:0:-;m1:t1:-:4:%s" % ex
            out.append("\t".join(["ctxr", str(fl), repo, "P 1 - ~", "P 2 - ~", "I t 1 ~"]))
    # the option-changing API as an operation: ly_ctx_set_options with LY_CTX_SET_PRIV_PARSED recompiles the context, which fails
    # when a pending module cannot be compiled; the options must then be what they were
    for fl in (16, 18, 20, 24, 22, 30, 17):
        for fy in (3, 4):
            repo = "a1:-:f1:0:-;y1:a1:-:%d:r0" % fy
            out.append("\t".join(["ctxr", "1", repo, "P 0 - ~", "C", "P 1 - ~", "O %d" % fl, "P 0 - ~", "C", "L a 1 ~"]))
            out.append("\t".join(["ctxr", "0", repo, "P 0 - ~", "O 1", "P 1 - ~", "O %d" % fl, "U 16", "O %d" % (fl & ~1)]))
        out.append("\t".join(["ctxr", "0", "a1:-:f1:0:-;b1:a1:-:0:a0", "P 1 - ~", "O %d" % fl, "U %d" % (fl & ~1), "I a 1 f1"]))
    # features defined in submodules, named in failing operations
    for ex in ("q", "Q", "z", "q,sb", "Q,sb"):
        repo = "a1:b1:f1,f2/f1,f3:0:%s;b1:-:-:0:-;c1:a1:-:0:-;d1:a1:-:4:a0" % ex.replace("sb", "sb")
        out.append("\t".join(["ctxr", "0", repo, "P 0 - f1", "I a 1 f2", "I a 1 f2,f3", "I a 1 f9", "P 0 - f2", "L a 1 f3,f2", "P 2 - ~"]))
        out.append("\t".join(["ctxr", "0", repo, "P 2 - ~", "I a 1 f2", "L a 1 f2,f3", "P 0 - f2", "P 3 - ~", "I a 1 f1"]))
        out.append("\t".join(["ctxr", "2", repo, "P 2 - ~", "P 3 - ~", "I a 1 ~"]))
    # explicit compilation with several pending dependency sets; the failing one is compiled first / last
    for order in (("P 1 - ~", "P 2 - ~"), ("P 2 - ~", "P 1 - ~")):
        for ex, fy in (("a0", 4), ("v0", 4), ("a0,d0", 3), ("r0", 4)):
            repo = "t1:-:f1:0:-;x1:t1:-:0:%s;y1:-:-:%d:-" % (ex, fy)
            out.append("\t".join(["ctxr", "1", repo, "P 0 - ~", "C"] + list(order) + ["C", "C", "P 1 - ~", "C"]))
            out.append("\t".join(["ctxr", "1", repo, "P 0 - ~", "C", "I t 1 f1"] + list(order) + ["C", "C"]))
    for gimps, gex in (("-", "sb"), ("-", "sb,s b".replace(" ", "")[:2]), ("c1", "sb,d0"), ("b1", "d0")):
        for fault in (2, 3, 4):
            # g (no import of its own / with imports) derives identities from b through its submodule or itself; it is rolled back
            # because it fails itself or because the module importing it fails
            repo = "b1:-:-:0:-;c1:-:-:0:-;g1:%s:-:0:%s;m1:b1,g1:-:%d:d0;h1:g1,e1:-:0:-" % (gimps, gex, fault)
            out.append("\t".join(["ctxr", "0", repo, "P 0 - ~", "P 3 - ~", "P 2 - ~"]))
            out.append("\t".join(["ctxr", "0", repo, "P 0 - ~", "P 4 - ~", "I b 1 ~", "P 2 %d ~" % fault, "P 2 0 ~"]))
    return out


class CtxRich:
    """C09 on the implementation with richer modules (identities derived across modules, submodules with their own imports,
    augments - also into augmented nodes -, deviations): after a failing operation the modules, features, identity derived[]
    sets, augmented_by / deviated_by links and compiled YANG prints are what they were, and every successful operation gives
    what a second context that only saw the successful operations gives"""
    name = "ctx-rich"
    driver = "t_ctx"
    quick_sanitize = False
    last_err = ""

    def gen(self, rng, tier, scale=1.0):
        L = rich_templates(rng)
        for _ in range(int((30000 if tier == "thorough" else 1500) * scale)):
            L.append(gen_rich_script(rng))
        return L

    def judge(self, line, out):
        fld = line.split("\t")
        flags, ops = int(fld[1]), fld[3:]
        explicit = bool(flags & 1)
        opt_of = lambda o: o.rsplit(";O:", 1)[1] if ";O:" in o else ""
        if out.startswith("CRASH(") or out == "TIMEOUT":
            return (None, "the script ends with %s %s" % (out, (self.last_err or "")[-300:]))
        segs = out.split(" | ")
        if out.startswith("?") or len(segs) != len(ops):
            return (None, "driver protocol: %s" % out[:100])
        prev = None
        empty = ";L:--------;M:--------;O:%d" % flags
        last_compiled = empty            # explicit compilation: the observable after the last successful ly_ctx_compile()
        diverged = False                 # explicit compilation: a failed call threw pending calls away, the shadow context kept them
        for i, (op, sg) in enumerate(zip(ops, segs)):
            if sg.startswith("?"):
                return (None, "driver protocol: %s" % sg)
            if " S" not in sg or ";" not in sg:
                # e.g. bytes of a freed identity name
                return (None, "op %d (%s): malformed observable %r" % (i, op, sg[:200]))
            body, sh = sg.rsplit(" S", 1)
            res, obs = body.split(";", 1)
            before = prev if prev is not None else empty
            explicit = bool(int(opt_of(before) or 0) & 1)
            if res == "E" and op[0] in "OU" and opt_of(obs) != opt_of(before):
                return (None, "op %d (%s) failed and ly_ctx_get_options() changed: %s -> %s" % (i, op, opt_of(before), opt_of(obs)))
            # Retired tags (a recurrence is a plain violation): ctx-target-not-compiled (fixed by /repo d873110),
            # ctx-explicit-compile-partial (c018937), ctx-imp-features-kept (d89c6b6), ctx-ref-implemented-set-late (1c17162:
            # LY_CTX_REF_IMPLEMENTED set after modules were compiled, the recompilation of the revert implemented more modules)
            if res == "E" and "c=!" in obs and "c=!" not in before:
                return (None, "op %d (%s) failed and left a compiled module with an unresolved leafref: %s" % (i, op, obs))
            if res == "E":
                was_pending = explicit and "*{" in before
                if was_pending and op == "C":
                    # a failed ly_ctx_compile() throws away everything since the last compilation (by design of the explicit
                    # mode); what was compiled before must be what it was
                    diverged = True
                    if obs.rsplit(";O:", 1)[0] != last_compiled.rsplit(";O:", 1)[0] or opt_of(obs) != opt_of(before):
                        return (None,
                                "op %d (C) failed and the context is not what the last compilation left: then %s now %s" % (i, last_compiled, obs))
                elif obs != before:
                    if was_pending:
                        return ("ctx-explicit-revert-pending", "op %d (%s) failed and undid pending calls: before %s after %s" % (i, op, before, obs))
                    return (None, "op %d (%s) failed and the context is not what it was: before %s after %s" % (i, op, before, obs))
            elif res == "ok":
                if (not explicit and "*{" in obs) or "c=!" in obs:
                    # a successful call left an implemented module that is not compiled: the target of an augment / deviation
                    # of a module that was implemented on the spot because of a leafref, when or must (lys_compile_expr_implement)
                    return (None, "op %d (%s) succeeded and left a module implemented but not compiled: %s" % (i, op, obs))
                if sh == "!" and not diverged:
                    return (None, "op %d (%s) succeeded but the context differs from one that saw only the successful operations: %s" % (i, op, obs))
                if "*{" not in obs:
                    last_compiled = obs         # nothing pending: this is what a failed ly_ctx_compile() has to come back to
            prev = obs
        return None
