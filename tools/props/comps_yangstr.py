"""comps_yangstr.py - correspondence component (T2) of slice `yangstr`: sizes and counters of the quoted-string lexer of
src/parser_yang.c (get_argument -> read_qstring -> buf_store_char -> buf_add_char) vs YangStr.qstring (driver
impl/t_yangstr.c, model ocaml/run_yangstr.ml). The generator makes EVENT lists and renders each into a text; compared:
return code, dynamic flag, word length and the sequence of malloc / realloc / free requests."""
from props.comps import Comp
from vlib import hexs

CH = {1: [b"a", b";", b"{", b"+", b"/", b"x"], 2: ["é".encode()], 3: ["€".encode()], 4: ["\U0001F600".encode()]}
ESC = [b"\\n", b"\\t", b'\\"', b"\\\\"]
ESCBAD = [b"\\x", b"\\ ", b"\\'", b"\\0", b"\\r"]
BAD = [b"\x01", b"\xff", b"\xc3(", b"\xed\xa0\x80", b"\x0b"]
GLUE = [b"+", b" + ", b"\n   +\n  ", b"\t+\t", b" + /* c */ ", b"+// c\n ", b"\r\n+\r\n"]


def render(rng, dq, evs):
    q = b'"' if dq else b"'"
    out = [q]
    for e in evs:
        k = e[0]
        if k == "c":
            n = int(e[1:])
            ch = rng.choice(CH[n])
            if n == 1 and rng.random() < 0.2:
                ch = b"'" if dq else b'"'
            out.append(ch)
        elif k == "s":
            out.append(b" ")
        elif k == "t":
            out.append(b"\t")
        elif k == "l":
            out.append(b"\r\n" if (dq and rng.random() < 0.15) else b"\n")
        elif k == "e":
            out.append(rng.choice(ESC) if dq else b"\\n")
        elif k == "x":
            out.append(rng.choice(ESCBAD) if dq else b"\\x")
            if dq:
                break
        elif k == "b":
            out.append(rng.choice(BAD))
            break
        elif k == "+":
            out.append(q + rng.choice(GLUE))
            dq = e[1] == "d"
            q = b'"' if dq else b"'"
            out.append(q)
        elif k == "q":
            out.append(q + rng.choice([b";", b" ;", b"{", b"\n  ;", b" x"]))
            break
        elif k == "z":
            break
    return b"".join(out)


def line(rng, dq, indent, evs):
    return "qstr\t%d\t%d\t%s\t%s" % (1 if dq else 0, indent, ",".join(evs) if evs else "-", hexs(render(rng, dq, evs)))


class YangStr(Comp):
    """get_argument / read_qstring / buf_store_char / buf_add_char (counters, allocator requests) vs YangStr.qstring.
    witness: a crash / sanitizer report / failed post-condition of the driver is a failure of C05 itself."""
    name = "yangstr"
    driver = "t_yangstr"
    slice = "yangstr"

    def gen(self, rng, tier, scale=1.0):
        C = []
        # the class of the seeded change C05-3: blanks / tabs before a line break, several line breaks in a row, at the start of
        # the string and later, with every indentation; and its neighbours
        for indent in (0, 1, 2, 7, 8, 9, 20):
            for pre in ([], ["c1"], ["c1"] * 20, ["e"], ["c1", "+d"], ["c1", "+s", "c1", "+d"]):
                for ws in ([], ["s"], ["s", "s"], ["t"], ["s", "t", "s"], ["s"] * 17, ["t"] * 3):
                    for lfs in (1, 2, 3):
                        for ind in ([], ["s"], ["s"] * 3, ["s"] * 30, ["t"], ["s", "t"], ["t", "t", "s"]):
                            for post in (["c1", "q"], ["q"], ["z"], ["s", "s", "q"]):
                                if rng.random() < (1.0 if tier == "thorough" else 0.12):
                                    C.append((True, indent, pre + (ws + ["l"]) * lfs + ind + post))
        # growth of the buffer: runs of every character size across several steps, first need of the buffer at every length
        for u in (1, 2, 3, 4):
            for n in (0, 1, 3, 4, 5, 7, 8, 15, 16, 17, 31, 32, 33, 100):
                for sw in (["e"], ["l"], ["+d"], ["+s"]):
                    C.append((True, 2, ["c%d" % u] * n + sw + ["c%d" % u] * 40 + ["q"]))
                    C.append((False, 2, ["c%d" % u] * n + ["+d"] + sw + ["c%d" % u] * 40 + ["q"]))
                C.append((True, 0, ["c%d" % u] * n + ["q"]))
                C.append((False, 0, ["c%d" % u] * n + ["x", "e", "l", "s", "t", "q"]))
        for tail in (["x"], ["b"], ["z"], ["q"]):
            for pre in ([], ["c1"] * 5, ["c1", "e", "c1"], ["s", "l", "s"]):
                C.append((True, 4, pre + tail))
                C.append((False, 4, pre + tail))
        # random event lists
        kinds = ["c1"] * 6 + ["c2", "c3", "c4"] + ["s"] * 6 + ["t"] * 3 + ["l"] * 4 + ["e", "e", "+d", "+s"]
        for _ in range(self.n(tier, 4000, 300000, scale)):
            evs = []
            for _ in range(rng.choice([1, 2, 3, 5, 8, 13, 40, 120])):
                k = rng.choice(kinds)
                if k in ("s", "c1") and rng.random() < 0.3:
                    evs += [k] * rng.choice([2, 3, 8, 15, 16, 17, 40])
                else:
                    evs.append(k)
            evs.append(rng.choice(["q"] * 8 + ["z", "x", "b"]))
            C.append((rng.random() < 0.85, rng.choice([0, 0, 1, 2, 4, 8, 11, 40]), evs))
        return [line(rng, dq, ind, e) for dq, ind, e in C]

    def witness(self, line, model_out, impl_out):
        if impl_out.startswith("CRASH") or impl_out.startswith("TIMEOUT") or "!" in impl_out:
            return (None, "get_argument on events %s: %s" % (line.split("\t")[3][:120], impl_out[:300]))
        return None
